From Coq Require Import ZArith List Bool String.
From KioV Require Import Schema.Raw Types.Phantom.
From KioG Require Import Shipped.
Import ListNotations.
Open Scope string_scope.
Eval vm_compute in ((if bounds_ok (s_intervals shipped) then [] else ["interval bounds differ from the documented ones"])
                    ++ (if nesting_ok (s_intervals shipped) then [] else ["interval types do not nest along their subclass chains"]))%list.
