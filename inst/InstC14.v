(* Per-tree instance theorem for C14: the boolean predicate evaluated on the schema that the
   translator transcribed from the tree under verification. *)
From Coq Require Import ZArith List Bool String.
From KioV Require Import Schema.Raw Schema.Coherence.
From KioG Require Import Shipped.
Theorem c14_shipped : c14_ok (firstn n_schema_classes (s_classes shipped)) = true.
Proof. vm_compute. reflexivity. Qed.
Print Assumptions c14_shipped.
