(* Per-tree instance theorem for C09: the boolean predicate evaluated on the schema that the
   translator transcribed from the tree under verification. *)
From Coq Require Import ZArith List Bool String.
From KioV Require Import Schema.Raw Schema.Coherence.
From KioG Require Import Shipped.
Theorem c09_shipped : c09_ok shipped n_schema_classes = true.
Proof. vm_compute. reflexivity. Qed.
Print Assumptions c09_shipped.
