(* Per-tree instance theorem for C15: the boolean predicate evaluated on the schema that the
   translator transcribed from the tree under verification. *)
From Coq Require Import ZArith List Bool String.
From KioV Require Import Schema.Raw Schema.Coherence.
From KioG Require Import Shipped.
Theorem c15_shipped : c15_ok shipped = true.
Proof. vm_compute. reflexivity. Qed.
Print Assumptions c15_shipped.
