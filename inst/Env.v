(* Per-tree: the plans Gallina derives from the translated description, evaluated once. *)
From Coq Require Import ZArith List Bool String.
From KioV Require Import Base.Res Codec.Value Schema.Raw Schema.Introspect.
From KioG Require Import Shipped.
Import ListNotations.
Definition plans : list (res cplan2) := Eval vm_compute in derive_all shipped.
Definition R : penv := Eval vm_compute in map reader_plan (oks empty_plan2 plans).
Definition W : penv := Eval vm_compute in map writer_plan (oks empty_plan2 plans).
Definition EC : list Z := Eval vm_compute in error_code_values shipped.
Definition E2 : list cplan2 := Eval vm_compute in oks empty_plan2 plans.
