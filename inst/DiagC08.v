(* Per-tree diagnosis for C08: the offending elements of the translated schema (empty when the
   instance theorem holds). *)
From Coq Require Import ZArith List Bool String.
From KioV Require Import Schema.Raw Schema.Coherence.
From KioG Require Import Shipped.
Eval vm_compute in (bad_c08 shipped n_schema_classes).
