(* Per-tree instance theorem for C12: the translated interval bounds are the documented ones
   and the subclass chains nest by range. *)
From Coq Require Import ZArith List Bool String.
From KioV Require Import Schema.Raw Types.Phantom.
From KioG Require Import Shipped.
Theorem c12_shipped : c12_ok shipped = true.
Proof. vm_compute. reflexivity. Qed.
Print Assumptions c12_shipped.
