(* Per-tree diagnosis for C09: the offending elements of the translated schema (empty when the
   instance theorem holds). *)
From Coq Require Import ZArith List Bool String.
From KioV Require Import Schema.Raw Schema.Coherence.
From KioG Require Import Shipped.
Eval vm_compute in (bad_c09 shipped n_schema_classes).
