(* Per-tree instance theorem for C08: the boolean predicate evaluated on the schema that the
   translator transcribed from the tree under verification. *)
From Coq Require Import ZArith List Bool String.
From KioV Require Import Schema.Raw Schema.Coherence.
From KioG Require Import Shipped.
Theorem c08_shipped : c08_ok shipped n_schema_classes = true.
Proof. vm_compute. reflexivity. Qed.
Print Assumptions c08_shipped.
