"""Abstract values shared by the model and the implementation side of the correspondence
checks: generators (type-directed, boundary-biased, one PRNG), conversion to Python objects of
the tree under verification, conversion back, and printing as Coq terms.

The harness reads the field descriptions with dataclasses/typing directly (not through
kio.serial._introspect), so that a change to kio's introspection does not change what the
harness feeds both sides."""
from __future__ import annotations

import dataclasses
import datetime
import random
import struct
import types
import typing
import uuid

EPOCH = datetime.datetime.fromtimestamp(0, datetime.UTC)
US = datetime.timedelta(microseconds=1)

# abstract values: tuples ("null",) ("bool",b) ("int",z) ("f64",bits) ("str",bytes) ("bytes",b)
# ("uuid",b16) ("dur",us) ("time",us) ("arr",[..]) ("ent",[..])
NULL = ("null",)


def coq_z(z: int) -> str:
    return f"({z})" if z < 0 else str(z)


def coq_bytes(b: bytes) -> str:
    return "[" + ";".join(map(str, b)) + "]"


def to_coq(v) -> str:
    k = v[0]
    if k == "null":
        return "VNull"
    if k == "bool":
        return "(VBool true)" if v[1] else "(VBool false)"
    if k == "int":
        return f"(VInt {coq_z(v[1])})"
    if k == "f64":
        return f"(VF64 {v[1]})"
    if k == "str":
        return f"(VStr {coq_bytes(v[1])})"
    if k == "bytes":
        return f"(VBytes {coq_bytes(v[1])})"
    if k == "uuid":
        return f"(VUuid {coq_bytes(v[1])})"
    if k == "dur":
        return f"(VDur {coq_z(v[1])})"
    if k == "time":
        return f"(VTime {coq_z(v[1])})"
    if k == "arr":
        return "(VArr [" + ";".join(to_coq(x) for x in v[1]) + "])"
    if k == "ent":
        return "(VEnt [" + ";".join(to_coq(x) for x in v[1]) + "])"
    raise ValueError(v)


def to_json(v):
    k = v[0]
    if k in ("str", "bytes", "uuid"):
        return [k, v[1].hex()]
    if k in ("arr", "ent"):
        return [k, [to_json(x) for x in v[1]]]
    return list(v)


def from_json(j):
    k = j[0]
    if k in ("str", "bytes", "uuid"):
        return (k, bytes.fromhex(j[1]))
    if k in ("arr", "ent"):
        return (k, [from_json(x) for x in j[1]])
    return tuple(j)


class Unmappable(Exception):
    pass


def from_py(o):
    """Python object -> abstract value (by runtime type)."""
    if o is None:
        return NULL
    if isinstance(o, bool):
        return ("bool", o)
    if isinstance(o, int):
        return ("int", int(o))
    if isinstance(o, float):
        return ("f64", struct.unpack(">Q", struct.pack(">d", o))[0])
    if isinstance(o, str):
        try:
            return ("str", o.encode())
        except UnicodeEncodeError as e:
            raise Unmappable(repr(o)) from e
    if isinstance(o, (bytes, bytearray)):
        return ("bytes", bytes(o))
    if isinstance(o, uuid.UUID):
        return ("uuid", o.bytes)
    if isinstance(o, datetime.timedelta):
        return ("dur", o // US)
    if isinstance(o, datetime.datetime):
        if o.tzinfo is None or o.tzinfo.utcoffset(o) is None:
            raise Unmappable(f"naive datetime {o!r}")
        return ("time", (o - EPOCH) // US)
    if isinstance(o, tuple):
        return ("arr", [from_py(x) for x in o])
    if dataclasses.is_dataclass(o) and not isinstance(o, type):
        return ("ent", [from_py(getattr(o, f.name)) for f in dataclasses.fields(o)])
    raise Unmappable(f"{type(o)!r}: {o!r}")


# ---- field descriptions read by the harness itself ---------------------------------------
@dataclasses.dataclass
class FDesc:
    name: str
    array: bool
    nullable: bool          # None allowed at the outer level
    item_nullable: bool     # for arrays: None allowed for items
    ent: type | None        # dataclass of the (item) type, if any
    kafka: str | None
    tag: int | None
    has_default: bool
    default: object
    prim: type | None


def _strip_none(t):
    origin = typing.get_origin(t)
    if origin in (types.UnionType, typing.Union):
        args = [a for a in typing.get_args(t) if a is not type(None)]
        nullable = len(args) != len(typing.get_args(t))
        if len(args) == 1:
            return args[0], nullable
        return t, nullable
    return t, False


_desc_cache: dict[type, list[FDesc]] = {}


def describe(cls) -> list[FDesc]:
    if cls in _desc_cache:
        return _desc_cache[cls]
    out = []
    for f in dataclasses.fields(cls):
        base, nullable = _strip_none(f.type)
        array = typing.get_origin(base) is tuple
        item_nullable = False
        if array:
            args = typing.get_args(base)
            base, item_nullable = _strip_none(args[0]) if args else (None, False)
        ent = base if isinstance(base, type) and dataclasses.is_dataclass(base) else None
        tag = f.metadata.get("tag")
        out.append(FDesc(
            name=f.name, array=array, nullable=nullable, item_nullable=item_nullable, ent=ent,
            kafka=f.metadata.get("kafka_type"), tag=tag,
            has_default=f.default is not dataclasses.MISSING, default=f.default,
            prim=None if ent else base))
    _desc_cache[cls] = out
    return out


def to_py(cls, v):
    """Abstract entity value -> instance of cls."""
    assert v[0] == "ent", v
    kwargs = {}
    for d, fv in zip(describe(cls), v[1], strict=True):
        kwargs[d.name] = field_to_py(d, fv)
    return cls(**kwargs)


def leaf_to_py(v):
    k = v[0]
    if k == "null":
        return None
    if k in ("bool", "int"):
        return v[1]
    if k == "f64":
        return struct.unpack(">d", struct.pack(">Q", v[1]))[0]
    if k == "str":
        return v[1].decode()
    if k == "bytes":
        return v[1]
    if k == "uuid":
        return uuid.UUID(bytes=v[1])
    if k == "dur":
        return datetime.timedelta(microseconds=v[1])
    if k == "time":
        return EPOCH + datetime.timedelta(microseconds=v[1])
    raise ValueError(v)


def field_to_py(d: FDesc, v):
    if v[0] == "null":
        return None
    if v[0] == "arr":
        # equal consecutive elements are ONE object (what `(x, x)` or `(x,) * n` gives a user): identity must not matter
        out = []
        for i, x in enumerate(v[1]):
            if i and x == v[1][i - 1] and x[0] in ("ent", "str", "bytes", "uuid"):
                out.append(out[-1])
            else:
                out.append(item_to_py(d, x))
        return tuple(out)
    return item_to_py(d, v)


def item_to_py(d: FDesc, v):
    if v[0] == "ent":
        return to_py(d.ent, v)
    if d.kafka == "error_code" and v[0] == "int":
        from kio.schema.errors import ErrorCode

        return ErrorCode(v[1])
    return leaf_to_py(v)


# ---- generators -----------------------------------------------------------------------------
INT_RANGES = {
    "int8": (-2**7, 2**7 - 1), "int16": (-2**15, 2**15 - 1), "int32": (-2**31, 2**31 - 1),
    "int64": (-2**63, 2**63 - 1), "uint8": (0, 2**8 - 1), "uint16": (0, 2**16 - 1),
    "uint32": (0, 2**32 - 1), "uint64": (0, 2**64 - 1),
}
TD_MIN_US = -999999999 * 86400000000
TD_MAX_US = 999999999 * 86400000000 + 86399999999
DT_MAX_MS = 253402300799999

UTF8_SAMPLES = ["a", "Z", "0", " ", "é", "ß", "Ж", "中", "€", "퟿", "",
                "￿", "\U00010000", "\U0001f600", "\U0010ffff", "\x00", "\x7f", "\u0080", "߿", "ࠀ",
                # characters that text layers like to treat specially: byte order mark, noncharacter, zero width
                # space, line separators, combining mark, control characters
                "\ufeff", "\ufffe", "\u200b", "\u2028", "\u0301", "\n", "\r", "\t", "\x1a", "\ue000"]
# what a codec with a signature / newline translation / stripping would eat at the START or END of a string
EDGE_CHARS = ["\ufeff", "\ufffe", " ", "\n", "\r\n", "\x00", "\t", "\u200b"]


class Gen:
    def __init__(self, seed: int, error_codes: list[int], big_prob: float = 0.002):
        self.r = random.Random(seed)
        self.error_codes = error_codes
        self._entity_counts = {}
        self.big_prob = big_prob
        self.max_big = 3
        self.stats: dict[str, int] = {}

    def count(self, key):
        self.stats[key] = self.stats.get(key, 0) + 1

    def boundary_int(self, lo, hi):
        r = self.r
        c = r.random()
        if c < 0.45:
            cands = [lo, lo + 1, hi - 1, hi, 0, 1, -1, 127, 128, 255, 256, -128, -129]
            x = r.choice(cands)
        elif c < 0.7:
            p = 2 ** r.randrange(0, 70)
            x = r.choice([p - 1, p, p + 1, -p - 1, -p, -p + 1])
        else:
            x = r.randint(lo, hi)
        return min(max(x, lo), hi)

    def length(self):
        r = self.r
        c = r.random()
        if c < self.big_prob and self.stats.get("len:big", 0) < self.max_big:
            self.count("len:big")
            return r.choice([16383, 16384, 32767])
        if c < 0.08:
            return r.choice([126, 127, 128, 129])
        if c < 0.3:
            return 0
        if c < 0.6:
            return 1
        return r.randint(2, 12)

    def utf8(self, n_bytes_target):
        out = bytearray()
        tail = b""
        if n_bytes_target >= 4 and self.r.random() < 0.12:
            e = self.r.choice(EDGE_CHARS).encode()
            if self.r.random() < 0.6:
                out += e                       # leading
                self.count("str:edge-leading")
            else:
                tail = e                       # trailing
                self.count("str:edge-trailing")
        n_bytes_target -= len(tail)
        while len(out) < n_bytes_target:
            ch = self.r.choice(UTF8_SAMPLES).encode()
            if len(out) + len(ch) > n_bytes_target:
                ch = b"x"
            out += ch
        return bytes(out) + tail

    def framed_batches(self) -> bytes:
        import struct as _st
        from . import refbatch
        r = self.r

        def one():
            n = r.choice([0, 1, 1, 2, 3])
            body = b""
            for i in range(n):      # minimal records: attributes, timestamp delta, offset delta, null key, value, no headers
                val = bytes(r.getrandbits(8) for _ in range(r.choice([0, 1, 5, 20])))
                rec = b"\x00" + refbatch.svarlong(i) + refbatch.svarint(i) + refbatch.svarint(-1) + refbatch.svarint(len(val)) + val + refbatch.uvarint(0)
                body += refbatch.svarint(len(rec)) + rec
            post = _st.pack(">hiqqqhii", 0, max(n - 1, 0), 1700000000000, 1700000000000 + max(n - 1, 0), r.choice([-1, 9001]),
                            r.choice([-1, 3]), r.choice([-1, 120]), n) + body
            return _st.pack(">qiibI", r.choice([0, 1000, 4000000125]), len(post) + 9, r.choice([-1, 0, 7]), 2, refbatch.crc32c(post)) + post
        out = b"".join(one() for _ in range(r.choice([1, 1, 2])))
        nxt = one()
        tail = r.choice([b"", nxt[: len(nxt) // 2], nxt[:12], nxt[:17], nxt[:-1], bytes(r.getrandbits(8) for _ in range(r.choice([1, 3, 7])))])
        return out + tail

    def prim(self, kafka: str, canonical=True):
        r = self.r
        self.count("prim:" + kafka)
        if kafka in INT_RANGES:
            return ("int", self.boundary_int(*INT_RANGES[kafka]))
        if kafka == "float64":
            c = r.random()
            if getattr(self, "allow_nan", False) and c < 0.35:
                # non-finite patterns: infinities, quiet/signalling NaNs with payloads and sign
                self.count("float:nonfinite")
                return ("f64", r.choice([0x7FF0000000000000, 0xFFF0000000000000, 0x7FF8000000000000, 0xFFF8000000000000,
                                         0x7FF8000000000001, 0x7FF0000000000001, 0xFFF80000DEADBEEF, 0x7FFFFFFFFFFFFFFF,
                                         0x7FF4000000000000]))
            if c < 0.3:
                bits = r.choice([0, 1 << 63, 0x3FF0000000000000, 0x7FEFFFFFFFFFFFFF, 1, 0x000FFFFFFFFFFFFF,
                                 0x0010000000000000, 0xFFEFFFFFFFFFFFFF, 0x400921FB54442D18])
            else:
                while True:
                    bits = r.getrandbits(64)
                    if (bits >> 52) & 0x7FF != 0x7FF:
                        break
            return ("f64", bits)
        if kafka == "string":
            return ("str", self.utf8(self.length()))
        if kafka == "records" and r.random() < 0.3:
            # what a records field really carries: well-framed magic-2 batches (one or two whole ones), followed - as in any
            # size-limited fetch - by nothing, by the first part of another batch, by a bare header fragment or by stray bytes.
            # The field is opaque bytes to the codec: every byte must survive.
            self.count("records:framed-batches")
            return ("bytes", self.framed_batches())
        if kafka in ("bytes", "records"):
            return ("bytes", bytes(r.getrandbits(8) for _ in range(self.length())))
        if kafka == "uuid":
            c = r.random()
            if c < 0.2:
                b = bytearray(16)
                b[r.randrange(16)] = r.randrange(1, 256)
                return ("uuid", bytes(b))
            if c < 0.45:
                # structured UUIDs as people write them in fixtures and as brokers mint them: equal / mirrored halves, one
                # repeated byte, the maximum, small integers, a zero half (never the all-zero null form)
                self.count("uuid:structured")
                h = bytes(r.getrandbits(8) for _ in range(8))
                k = r.randrange(9)
                b = [h + h, h + h[::-1], bytes([r.randrange(1, 256)]) * 16, b"\xff" * 16, (r.randrange(1, 300)).to_bytes(16, "big"),
                     h + bytes(8), bytes(8) + h, h + bytes(x ^ 0xFF for x in h), bytes(range(1, 17))][k]
                return ("uuid", b if any(b) else b"\x01" * 16)
            return ("uuid", bytes(r.getrandbits(8) for _ in range(16)) or b"\x01" * 16)
        if kafka == "bool":
            return ("bool", r.random() < 0.5)
        if kafka == "error_code":
            return ("int", r.choice(self.error_codes))
        if kafka in ("timedelta_i32", "timedelta_i64") and r.random() < 0.25:
            # the durations people configure: whole days / hours / minutes / seconds (a timedelta's `seconds` and `microseconds`
            # parts are then zero - only `days` carries the value), both signs
            self.count("duration:round")
            top = 24 if kafka == "timedelta_i32" else r.choice([24, 365, 36500, 999999998])
            ms = r.choice([r.randint(1, top) * 86400000, r.randint(1, top) * 86400000, r.randint(1, 23) * 3600000, r.randint(1, 59) * 60000,
                           r.randint(1, 59) * 1000, 7 * 86400000, 86400000, r.randint(1, min(top, 24)) * 86400000 + r.choice([1, 1000, 3600000])])
            return ("dur", r.choice([1, 1, -1]) * ms * 1000)
        if kafka == "timedelta_i32":
            ms = self.boundary_int(-2**31, 2**31 - 1)
            return ("dur", ms * 1000)
        if kafka == "timedelta_i64":
            lo, hi = TD_MIN_US // 1000, TD_MAX_US // 1000
            c = r.random()
            if c < 0.3:
                ms = r.choice([lo, lo + 1, hi, hi - 1, 2**51 - 1, 2**51 + 1, 2**53 + 1, -(2**53) - 1, 2**52 + 1, 0, 1, -1])
            else:
                ms = self.boundary_int(lo, hi)
            ms = min(max(ms, lo), hi)
            return ("dur", ms * 1000)
        if kafka == "datetime_i64":
            c = r.random()
            if c < 0.4:
                ms = r.choice([0, 1, 999, 1000, 1001, 1500, 1700000000123, DT_MAX_MS, DT_MAX_MS - 1,
                               86399999, 951782400000, 4102444800001])
            else:
                ms = r.randint(0, DT_MAX_MS)
            return ("time", ms * 1000)
        raise KeyError(kafka)

    def item(self, d: FDesc, depth, nonnull=False):
        if d.array and d.item_nullable and not nonnull and self.r.random() < 0.3:
            # arrays annotated tuple[X | None, ...] (the uuid arrays): a null ELEMENT is a well-typed value
            self.count("array-item:null")
            return NULL
        if d.ent is not None:
            return self.entity(d.ent, depth + 1, want_default=getattr(self, "_force_default", None))
        return self.prim(d.kafka)

    def field(self, d: FDesc, depth, want_default=None):
        r = self.r
        self._force_default = want_default
        force_null_item = bool(d.array and d.item_nullable and getattr(self, "_force_null_items", False) and want_default is not True)
        if d.tag is not None:
            if force_null_item:
                want_default = False
            if want_default is None:
                want_default = r.random() < 0.4
            if want_default:
                self.count("tagged:default")
                return ("__default__",)
            self.count("tagged:nondefault")
        if d.array:
            choices = ["empty", "one", "many"] + (["null"] if d.nullable else [])
            if getattr(self, "null_arrays", False) and d.tag is None and not d.nullable and r.random() < 0.12:
                # the wire format has a null form for EVERY array (Kafka declares several arrays of primitives nullable that
                # the generated annotations do not): wire-first streams include it
                self.count("array:null-although-annotated-non-nullable")
                return NULL
            if d.tag is not None and want_default is False:
                choices = ["one", "many"]          # a non-default tagged array is non-empty
            c = r.choice(choices)
            self.count("array:" + c)
            if c == "null":
                return NULL
            n = {"empty": 0, "one": 1}.get(c)
            if n is None:
                n = r.randint(2, 4 if depth < 2 else 2)
            if n >= 2 and not force_null_item and r.random() < 0.2:
                # a run of equal elements (built as one shared object by to_py), alone or next to different ones
                self.count("array:repeated-element")
                items = [self.item(d, depth) for _ in range(n)]
                k = r.randrange(1, n)
                items[k] = items[k - 1]
                if n >= 3 and r.random() < 0.5:
                    items[(k + 1) % n] = items[k - 1] if (k + 1) % n == k + 1 else items[(k + 1) % n]
                return ("arr", items)
            if force_null_item:
                # every other instance of a class with a tuple[X | None, ...] field holds a null ELEMENT there, alone or among others
                n = max(n, 1)
                items = [self.item(d, depth) for _ in range(n)]
                items[r.randrange(n)] = NULL
                self.count("array-item:null-forced")
                return ("arr", items)
            return ("arr", [self.item(d, depth) for _ in range(n)])
        if d.nullable and r.random() < 0.35:
            self.count("nullable:null")
            return NULL
        if d.nullable:
            self.count("nullable:nonnull")
        v = self.item(d, depth)
        if d.tag is not None and v[0] == "f64" and (v[1] == 1 << 63 or (v[1] >> 52) & 0x7FF == 0x7FF):
            v = ("f64", 0x3FF0000000000000)      # -0.0 == 0.0 in Python; tagged floats are outside wf_env (bit equality)
        return v

    def entity(self, cls, depth=0, resolve_default=None, want_default=None):
        """want_default: None = random per tagged field; True/False = force every tagged field (at
        every nesting level) to hold / not to hold its default"""
        vals = []
        if depth == 0:
            k = self._entity_counts[cls] = self._entity_counts.get(cls, 0) + 1
            self._force_null_items = k % 2 == 0
        for d in describe(cls):
            v = self.field(d, depth, want_default=want_default)
            if v == ("__default__",):
                v = default_value(cls, d)
            elif d.tag is not None and not d.array and want_default is not True and self.r.random() < 0.3:
                # one step away from the default: a tagged field is elided exactly when it EQUALS its default, so the values
                # that matter most are those differing from it in one leaf only - by one, by -1 -> -2 (equal hashes in
                # CPython) or by 2^61-1 (equal hashes for every int)
                nd = self.near_default(default_value(cls, d), d)
                if nd is not None:
                    self.count("tagged:near-default")
                    v = nd
            vals.append(v)
        return ("ent", vals)

    def near_default(self, dv, d: FDesc):
        r = self.r

        def bump(z, kafka):
            lo, hi = INT_RANGES.get(kafka, (None, None))
            if lo is None:
                return None
            cands = [z + 1, z - 1]
            if z == -1:
                cands = [-2, -2, 0]
            if kafka in ("int64", "uint64") and lo <= z + (2**61 - 1) <= hi:
                cands.append(z + (2**61 - 1))
            cands = [c for c in cands if lo <= c <= hi]
            return r.choice(cands) if cands else None
        if dv[0] == "int" and d.ent is None and d.kafka in INT_RANGES:
            z = bump(dv[1], d.kafka)
            return None if z is None else ("int", z)
        if dv[0] == "ent" and d.ent is not None:
            members = describe(d.ent)
            idxs = [i for i, m in enumerate(members) if m.tag is None and not m.array and m.ent is None and m.kafka in INT_RANGES
                    and dv[1][i][0] == "int"]
            if not idxs:
                return None
            i = r.choice(idxs)
            z = bump(dv[1][i][1], members[i].kafka)
            if z is None:
                return None
            vals = list(dv[1])
            vals[i] = ("int", z)
            return ("ent", vals)
        return None


def default_value(cls, d: FDesc):
    """The abstract value of a tagged field's default, derived from the class description by the
    harness itself (explicit default, else the Kafka implicit default of the type; a struct's
    default is built from its members' defaults) - deliberately NOT through kio's
    get_tagged_field_default, so that the reference encoder stays independent of it."""
    if d.has_default:
        return from_py(d.default)
    if d.array:
        return ("arr", [])
    if d.nullable:
        return NULL
    if d.ent is not None:
        return ("ent", [default_value(d.ent, nd) for nd in describe(d.ent)])
    names = [f"{k.__module__}.{k.__qualname__}" for k in d.prim.__mro__]
    for n in names:
        if n in ("kio.static.primitive.i32Timedelta", "kio.static.primitive.i64Timedelta", "datetime.timedelta"):
            return ("dur", 0)
        if n in ("kio.static.primitive.TZAware", "datetime.datetime"):
            return ("time", 0)
        if n == "kio.static.primitive.f64" or n == "builtins.float":
            return ("f64", 0)
        if n == "uuid.UUID":
            return ("uuid", bytes(16))
        if n == "builtins.bool":
            return ("bool", False)
        if n == "builtins.str":
            return ("str", b"")
        if n == "builtins.bytes":
            return ("bytes", b"")
        if n == "builtins.int":
            return ("int", 0)
    raise KeyError(f"no implicit default for {d.prim!r}")
