"""Seeded generator of well-formed Kafka message definitions (the supported subset of the
upstream JSON format) for the C16 correspondence, with printers to JSON (for the real
generator) and to Coq `defn` terms (for Gen/Gen.v), and the conversion of the canonical
description of generated classes into Coq `gclass` terms."""
from __future__ import annotations

import json
import random
import re

PRIMS = ["bool", "int8", "int16", "int32", "int64", "uint16", "uint32", "uint64", "float64", "string", "bytes", "uuid", "records"]
NULLABLE_PRIMS = {"string", "bytes", "records"}
NAME_PARTS = ["Topic", "Partition", "Id", "ISR", "Replicas", "Epoch", "Leader", "V3", "And", "Below", "Name", "Type", "Max",
              "Min", "Bytes", "Offset", "Group", "Member", "Host", "Port", "Rack", "Config", "Value", "Key", "Is", "Internal",
              "Q", "ID", "Acks", "Len", "Hash", "Format", "Filter", "Range", "Str", "Count", "Index", "State", "Features"]
SPECIAL = [("ErrorCode", "int16"), ("PartitionErrorCode", "int16"), ("ThrottleTimeMs", "int32"), ("SessionLifetimeMs", "int64"),
           ("MaxTimestampMs", "int64"), ("TimeoutMs", "int32"), ("RetentionTimeMs", "int64"), ("LogAppendTimeMs", "int64"),
           # the definition, not the name, decides the width of a duration: the same names with the other width
           ("ThrottleTimeMs", "int64"), ("TimeoutMs", "int64"), ("SessionLifetimeMs", "int32"), ("RetentionTimeMs", "int32"),
           ("MaxWaitMs", "int32"), ("MaxWaitMs", "int64"), ("RebalanceTimeoutMs", "int64"), ("MaxLifetimeMs", "int32")]
ENTITY_TYPES = [("brokerId", "int32"), ("topicName", "string"), ("groupId", "string"), ("producerId", "int64"),
                ("transactionalId", "string")]


def cstr(s):
    return '"' + s.replace('"', '""') + '"'


def copt(x, f=cstr):
    return "None" if x is None else f"(Some {f(x)})"


def cz(z):
    return f"({z})%Z"


class DefGen:
    def __init__(self, seed):
        self.r = random.Random(seed)
        self.n = 0
        self.stats = {}

    def count(self, k):
        self.stats[k] = self.stats.get(k, 0) + 1

    def name(self, used):
        r = self.r
        while True:
            k = r.choice([1, 2, 2, 3])
            n = "".join(r.choice(NAME_PARTS) for _ in range(k))
            if len(n) < 2 or n in used or n.endswith("Ms") or n in ("ErrorCode", "PartitionErrorCode"):
                continue
            if n.lower() in {u.lower() for u in used}:
                continue       # "Id" and "ID" are one Python name: two such fields in one struct are not a well-formed definition
            import keyword
            if keyword.iskeyword(n.lower()) or keyword.iskeyword(re.sub(r"(?<!^)(?=[A-Z])", "_", n).lower()):
                continue       # the generator does not escape Python keywords (outside the supported subset)
            used.add(n)
            return n

    def vrange(self, lo, hi, open_ok=True):
        """a range within [lo, hi] in one of the spellings"""
        r = self.r
        a = r.randint(lo, hi)
        c = r.random()
        if c < 0.5 and open_ok:
            self.count("range:N+")
            return f"{a}+", (a, None)
        if c < 0.75:
            b = r.randint(a, hi)
            if a == b:
                self.count("range:N")
                return f"{a}", (a, a)
            self.count("range:N-M")
            return f"{a}-{b}", (a, b)
        self.count("range:N")
        return f"{a}", (a, a)

    def fields(self, vmax, first_flex, depth, used_structs, commons, n=None):
        r = self.r
        out = []
        used = set()
        nf = n if n is not None else r.randint(1, 5 if depth == 0 else 3)
        tags = iter(r.sample(range(0, 8), 8))
        for _ in range(nf):
            f = {}
            kind = r.choice(["prim", "prim", "prim", "primarr", "struct", "structarr", "special", "common"] if depth < 2 else
                            ["prim", "prim", "primarr", "special"])
            vs, (vlo, vhi) = self.vrange(0, vmax)
            f["versions"] = vs
            if kind == "special":
                cands = [s for s in SPECIAL if s[0] not in used]
                if not cands:
                    continue
                nm, ty = r.choice(cands)
                used.add(nm)
                f["name"], f["type"] = nm, ty
                if ty != "int16" and nm.endswith("TimestampMs") and r.random() < 0.3:
                    f["default"] = "-1"
                elif r.random() < 0.3:
                    f["default"] = r.choice(["0", "-1", "5"]) if not nm.endswith("TimestampMs") and "AppendTime" not in nm else "-1"
                self.count("field:special")
            elif kind == "prim":
                f["name"] = self.name(used)
                if r.random() < 0.2:
                    et, ty = r.choice(ENTITY_TYPES)
                    f["type"], f["entityType"] = ty, et
                    self.count("field:entityType")
                else:
                    f["type"] = r.choice(PRIMS)
                ty = f["type"]
                if ty in NULLABLE_PRIMS and r.random() < 0.4:
                    ns, _ = self.vrange(vlo, vmax)
                    f["nullableVersions"] = ns
                if r.random() < 0.4:
                    if ty.startswith("int") or ty.startswith("uint"):
                        f["default"] = r.choice(["0", "-1", "1", "0x7fffffff", "2147483647", "+3"]) if not ty.startswith("u") else r.choice(["0", "1", "0xff"])
                        if ty in ("int8",):
                            f["default"] = r.choice(["0", "-1", "0x7f"])
                        if ty in ("int16", "uint16") and f["default"] in ("0x7fffffff", "2147483647"):
                            f["default"] = "1"
                    elif ty == "bool":
                        # upstream's FieldSpec compares case-insensitively and Jackson turns the JSON literals into text:
                        # every spelling of a boolean default
                        f["default"] = r.choice(["true", "false", "true", "false", "True", "FALSE", "TRUE", "False", True, False])
                    elif ty == "string":
                        f["default"] = r.choice(["", "abc", "null", "http://localhost:8080"]) if "nullableVersions" in f else r.choice(["", "abc", "http://localhost:8080"])
                        if f["default"] == "null":
                            f["nullableVersions"] = f["versions"]      # null default needs nullability wherever present
                    elif ty in ("bytes", "records") and "nullableVersions" in f:
                        f["default"] = "null"
                        f["nullableVersions"] = f["versions"]
                self.count("field:prim")
            elif kind == "primarr":
                f["name"] = self.name(used)
                f["type"] = "[]" + r.choice(["int8", "int16", "int32", "int64", "string", "uuid", "bool"])
                if r.random() < 0.2:
                    et, ty = r.choice(ENTITY_TYPES)
                    f["type"], f["entityType"] = "[]" + ty, et
                self.count("field:primarr")
            elif kind in ("struct", "structarr"):
                f["name"] = self.name(used)
                sname = self.name(used_structs)
                f["type"] = ("[]" if kind == "structarr" else "") + sname
                f["fields"] = self.fields(vmax, first_flex, depth + 1, used_structs, commons)
                if r.random() < 0.3:
                    ns, _ = self.vrange(vlo, vmax)
                    f["nullableVersions"] = ns
                    if kind == "struct" and r.random() < 0.5:
                        f["default"] = "null"
                        f["nullableVersions"] = f["versions"]
                self.count("field:" + kind)
            else:
                if not commons:
                    continue
                cs = r.choice(commons)
                f["name"] = self.name(used)
                f["type"] = r.choice(["[]", ""]) + cs["name"]
                self.count("field:common")
            # tagging (only within flexible versions)
            if first_flex is not None and first_flex <= vmax and r.random() < 0.3 and kind != "special":
                lo = max(first_flex, vlo)
                if vhi is None or lo <= vhi:
                    hi = vmax if vhi is None else min(vhi, vmax)
                    if r.random() < 0.6:
                        # a field that exists only as a tagged field
                        ts, (tlo, thi) = self.vrange(lo, hi)
                        f["versions"] = ts
                        f["taggedVersions"] = ts
                        if r.random() < 0.2:
                            del f["versions"]          # versions falls back to taggedVersions
                    else:
                        ts, _ = self.vrange(lo, hi)
                        f["taggedVersions"] = ts
                    f["tag"] = next(tags)
                    f["ignorable"] = r.random() < 0.7
                    self.count("field:tagged")
                    if f.get("type") == "bool" and f["ignorable"] and "default" not in f:
                        f["default"] = "false"     # the generator emits invalid Python otherwise (see DESIGN)
                    if f.get("type") == "records" and "default" not in f and r.random() < 0.8:
                        # kio: "Tagged record fields are not supported" without an explicit (null) default
                        # (get_implicit_default raises NotImplementedError; the model refuses likewise:
                        # GenPlan.implicit_opt) - mostly avoided, sometimes kept to exercise the refusal
                        f["default"] = "null"
                    if f.get("default") == "null":
                        # null default needs nullability wherever the field exists (versions falls back to taggedVersions)
                        f["nullableVersions"] = f.get("versions", f["taggedVersions"])
            if r.random() < 0.15 and "ignorable" not in f:
                f["ignorable"] = True
            out.append(f)
        if not out:
            out.append({"name": self.name(used), "type": "int32", "versions": "0+"})
        if depth >= 1 and not any(f.get("versions") == "0+" and "tag" not in f and not f["type"].startswith("[]")
                                  and f["type"] in PRIMS + ["int16", "int32", "int64"] for f in out):
            # supported subset: a struct that can be an array item has at least one untagged
            # primitive field in every version (an array of zero-size items is outside wf_env)
            out.insert(0, {"name": self.name(used), "type": self.r.choice(["int8", "int32", "string", "bool"]), "versions": "0+"})
        return out

    def definition(self, idx):
        r = self.r
        vmax = r.randint(0, 4)
        c = r.random()
        first_flex = None if c < 0.2 else r.randint(0, vmax + 1)
        flex = "none" if first_flex is None else f"{first_flex}+"
        base = f"Gen{idx}" + r.choice(["Foo", "Bar", "ISRThing", "V2Thing", "Offsets"])
        used_structs = {base + "Request", base + "Response", base}
        commons = []
        for _ in range(r.choice([0, 0, 1, 2])):
            cname = self.name(used_structs)
            commons.append({"name": cname, "versions": f"0+", "fields": self.fields(vmax, first_flex, 2, used_structs, [])})
        kind = r.choice(["pair", "pair", "pair", "data", "header"])
        key = 1000 + idx if r.random() < 0.9 else r.choice([7, 18])
        defs = []
        # upstream drops old versions (Kafka 4 definitions start at "3-12" and the like): the first valid version need not be 0
        vmin = r.randint(1, vmax) if vmax >= 1 and r.random() < 0.2 else 0
        if vmin:
            self.count("valid-versions-start-above-zero")
        if kind == "pair":
            for t in ("request", "response"):
                d = {"apiKey": key, "type": t, "name": base + t.capitalize(), "validVersions": (f"{vmin}-{vmax}" if vmin != vmax else f"{vmin}") if vmin else f"0-{vmax}" if vmax or r.random() < 0.5 else "0",
                     "flexibleVersions": flex, "fields": self.fields(vmax, first_flex, 0, set(used_structs), commons)}
                if commons:
                    d["commonStructs"] = commons
                defs.append(d)
        else:
            d = {"type": kind, "name": base + ("Header" if kind == "header" else "Data"), "validVersions": f"{vmin}-{vmax}",
                 "flexibleVersions": flex, "fields": self.fields(vmax, first_flex, 0, set(used_structs), commons)}
            if commons:
                d["commonStructs"] = commons
            defs.append(d)
        return defs


def systematic(thorough=False):
    """One definition per primitive type enumerating tagging x ignorable x default x nullability
    (the product the random generator only samples), plus struct/array variants."""
    defs = []
    DEFAULTS = {"bool": "true", "int8": "-1", "int16": "0x7f", "int32": "0x7fffffff", "int64": "-1", "uint16": "0xff",
                "uint32": "1", "uint64": "0", "float64": None, "string": "abc", "bytes": None, "uuid": None, "records": None}
    for ti, ty in enumerate(PRIMS):
        fields = []
        k = 0
        for tagmode in ("untagged", "tagged-all", "tagged-subset", "tagged-only"):
            for ign in (False, True):
                for dflt in (False, True):
                    for nul in (False, True):
                        if nul and ty not in NULLABLE_PRIMS:
                            continue
                        if dflt and DEFAULTS[ty] is None and not nul:
                            continue
                        if ty == "bool" and tagmode != "untagged" and ign and not dflt:
                            continue        # generator emits `default=false` (NameError): outside the supported subset
                        f = {"name": f"F{k}X{ty.capitalize()}", "type": ty, "versions": "0+"}
                        k += 1
                        if tagmode == "tagged-all":
                            f["versions"] = "2+"; f["taggedVersions"] = "2+"; f["tag"] = k
                        elif tagmode == "tagged-subset":
                            f["taggedVersions"] = "3+"; f["tag"] = k
                        elif tagmode == "tagged-only":
                            f.pop("versions"); f["taggedVersions"] = "2-3"; f["tag"] = k
                        if ign:
                            f["ignorable"] = True
                        if nul:
                            f["nullableVersions"] = "1+" if tagmode != "tagged-only" else "2+"
                        if dflt:
                            f["default"] = DEFAULTS[ty] if DEFAULTS[ty] is not None else "null"
                            if f["default"] == "null":
                                f["nullableVersions"] = "0+"
                        fields.append(f)
        defs.append({"apiKey": 2000 + ti, "type": "request", "name": f"Sys{ty.capitalize()}Request", "validVersions": "0-3",
                     "flexibleVersions": "2+", "fields": fields})
        defs.append({"apiKey": 2000 + ti, "type": "response", "name": f"Sys{ty.capitalize()}Response", "validVersions": "0-3",
                     "flexibleVersions": "2+", "fields": [{"name": "ErrorCode", "type": "int16", "versions": "0+"},
                                                          {"name": "ThrottleTimeMs", "type": "int32", "versions": "1+", "ignorable": True}]})
    # structs and arrays: nullable / tagged variants
    sf = []
    k = 0
    for arr in (False, True):
        for tagmode in ("untagged", "tagged-all", "tagged-subset"):
            for nul in (False, True):
                for dflt in (False, True):
                    if dflt and (arr or not nul):
                        continue
                    if not arr and nul and tagmode != "untagged" and not dflt:
                        continue    # optional tagged struct without default: kio refuses (outside the subset)
                    f = {"name": f"S{k}Field", "type": ("[]" if arr else "") + f"S{k}Struct", "versions": "0+",
                         "fields": [{"name": "Anchor", "type": "int32", "versions": "0+"},
                                    {"name": "Later", "type": "string", "versions": "2+", "nullableVersions": "3+"}]}
                    k += 1
                    if tagmode == "tagged-all":
                        f["versions"] = "2+"; f["taggedVersions"] = "2+"; f["tag"] = k
                    elif tagmode == "tagged-subset":
                        f["taggedVersions"] = "3+"; f["tag"] = k
                    if nul:
                        f["nullableVersions"] = "1+"
                    if dflt:
                        f["default"] = "null"; f["nullableVersions"] = "0+"
                    sf.append(f)
    defs.append({"type": "data", "name": "SysStructsData", "validVersions": "0-3", "flexibleVersions": "2+", "fields": sf})
    # tagged structs whose members ALL carry defaults (the generator then gives the field the struct of member defaults
    # as its default): member kinds primitive / nullable primitive / nullable nested struct defaulting to null /
    # one member without default (no struct default then), ignorable or not, tagged from the start or later
    df = []
    k = 0
    for members in ("prims", "prims+nullstruct", "prims+nodefault", "nullstruct-only"):
        for ign in (False, True):
            for tagged in ("2+", "3+"):
                k += 1
                ms = []
                if members != "nullstruct-only":
                    ms += [{"name": "LeaderId", "type": "int32", "versions": "0+", "default": "-1"},
                           {"name": "Host", "type": "string", "versions": "0+", "default": ""},
                           {"name": "Rack", "type": "string", "versions": "0+", "nullableVersions": "0+", "default": "null"}]
                if members in ("prims+nullstruct", "nullstruct-only"):
                    ms.append({"name": f"Endpoint{k}", "type": f"D{k}Endpoint", "versions": "0+", "nullableVersions": "0+", "default": "null",
                               "fields": [{"name": "Port", "type": "int32", "versions": "0+"}]})
                if members == "prims+nodefault":
                    ms.append({"name": "Epoch", "type": "int32", "versions": "0+"})
                f = {"name": f"D{k}Field", "type": f"D{k}Struct", "versions": tagged, "taggedVersions": tagged, "tag": k, "fields": ms}
                if ign:
                    f["ignorable"] = True
                df.append(f)
    # the two API keys with special header rules, in every flexibility pattern (flexible from version 0, from a later
    # version, never): ControlledShutdown v0 keeps request header v0, ApiVersions responses keep response header v0
    for key, stem in ((7, "SysKeySeven"), (18, "SysKeyEighteen")):
        for j, flexv in enumerate(("0+", "1+", "none")):
            for ty in ("request", "response"):
                defs.append({"apiKey": key, "type": ty, "name": f"{stem}Flex{j}{ty.capitalize()}", "validVersions": "0-2",
                             "flexibleVersions": flexv, "fields": [{"name": "Anchor", "type": "int32", "versions": "0+"},
                                                                   {"name": "Name", "type": "string", "versions": "1+"}]})
    # the naming convention on EVERY kind of field: names whose snake-case form shadows a Python builtin get a trailing
    # underscore whether the field is a primitive, an entity type, an array, an inline struct, an array of inline structs,
    # or a (single / array) reference to a common struct - each kind is rendered by its own piece of the generator
    BUILTINISH = ["Id", "Type", "Max", "Min", "Hash", "Format", "Filter", "Range", "Bytes", "Str", "Len", "Next", "Input",
                  "Object", "All", "Any", "Set", "List", "Map", "Iter", "Open", "Property", "Super", "Vars", "Zip", "Sum",
                  "Slice", "Sorted", "Reversed", "Round", "Repr", "Pow", "Int", "Float", "Bool", "Dict", "Dir", "Abs", "Tuple",
                  "Exit", "Compile", "Credits", "License", "Help", "Copyright", "Quit", "Eval", "Exec", "Ascii", "Callable"]
    # (every case of the wire comparison carries its whole definition: the list is kept short)
    BUILTINISH = BUILTINISH[:4] + ["Range", "Next", "Input", "Object"] + (BUILTINISH[4:7] + ["Set", "Map", "Exit", "Help", "Callable"] if thorough else [])
    anchor = {"name": "Anchor", "type": "int32", "versions": "0+"}
    holders = []
    for kind in ("prim", "entity", "primarr", "struct", "structarr", "common", "commonarr"):
        fs = [dict(anchor)]
        for b in BUILTINISH:
            f = {"name": b, "versions": "0+"}
            if kind == "prim":
                f["type"] = "int32"
            elif kind == "entity":
                f["type"], f["entityType"] = "int32", "brokerId"
            elif kind == "primarr":
                f["type"] = "[]string"
            elif kind in ("struct", "structarr"):
                f["type"] = ("[]" if kind == "structarr" else "") + f"{b}Of{kind.capitalize()}"
                f["fields"] = [dict(anchor), {"name": b, "type": "int16", "versions": "1+"}]
            else:
                f["type"] = ("[]" if kind == "commonarr" else "") + ("SysCursor" if len(b) % 2 else "SysOffsetRange")
            fs.append(f)
        holders.append({"name": f"Holder{kind.capitalize()}", "type": f"Holder{kind.capitalize()}Struct", "versions": "0+", "fields": fs})
    sys_commons = [{"name": "SysCursor", "versions": "0+", "fields": [dict(anchor), {"name": "Next", "type": "int64", "versions": "0+"}]},
                   {"name": "SysOffsetRange", "versions": "0+", "fields": [dict(anchor), {"name": "Range", "type": "SysCursor", "versions": "0+"},
                                                                        {"name": "Max", "type": "[]SysCursor", "versions": "1+"}]}]
    for ty in ("request", "response"):
        defs.append({"apiKey": 2101, "type": ty, "name": f"SysBuiltinNames{ty.capitalize()}", "validVersions": "0-2", "flexibleVersions": "1+",
                     "commonStructs": sys_commons,
                     "fields": [dict(anchor)] + holders + [{"name": "Next", "type": "SysCursor", "versions": "0+"},
                                                           {"name": "Filter", "type": "[]SysOffsetRange", "versions": "0+"}]})
    # chains of common structs in every listing order (upstream lists them top-down: the outer struct first, so that each
    # refers FORWARD to one declared later), three and four deep, as array and as single references
    def chain(prefix, order):
        cs = {
            "Group": {"name": f"{prefix}Group", "versions": "0+", "fields": [dict(anchor), {"name": "Shards", "type": f"[]{prefix}Shard", "versions": "0+"}]},
            "Shard": {"name": f"{prefix}Shard", "versions": "0+", "fields": [dict(anchor), {"name": "Replicas", "type": f"[]{prefix}Replica", "versions": "0+"},
                                                                             {"name": "Leader", "type": f"{prefix}Replica", "versions": "1+"}]},
            "Replica": {"name": f"{prefix}Replica", "versions": "0+", "fields": [{"name": "BrokerId", "type": "int32", "versions": "0+"},
                                                                                {"name": "LogEndOffset", "type": "int64", "versions": "0+", "default": "-1"},
                                                                                {"name": "Dirs", "type": f"[]{prefix}Dir", "versions": "1+"}]},
            "Dir": {"name": f"{prefix}Dir", "versions": "0+", "fields": [{"name": "Path", "type": "string", "versions": "0+"}]},
        }
        return [cs[k] for k in order]
    for tag, order in (("TopDown", ["Group", "Shard", "Replica", "Dir"]), ("BottomUp", ["Dir", "Replica", "Shard", "Group"]),
                       ("Mixed", ["Shard", "Dir", "Group", "Replica"])):
        for ty in ("request", "response"):
            defs.append({"apiKey": 2103 + ["TopDown", "BottomUp", "Mixed"].index(tag), "type": ty, "name": f"SysChain{tag}{ty.capitalize()}",
                         "validVersions": "0-1", "flexibleVersions": "1+", "commonStructs": chain(f"C{tag}", order),
                         "fields": [dict(anchor), {"name": "Groups", "type": f"[]C{tag}Group", "versions": "0+"}]})
    # nullability windows that CLOSE before the field ends ("1-2" on a field present in 0-3), on every kind of field whose
    # nullability the generator decides: the versions after the window are not nullable again
    for ty in ("request", "response"):
        defs.append({"apiKey": 2106, "type": ty, "name": f"SysNullableWindow{ty.capitalize()}", "validVersions": "0-3", "flexibleVersions": "2+",
                     "commonStructs": [{"name": "SysWinShared", "versions": "0+", "fields": [dict(anchor)]}],
                     "fields": [dict(anchor),
                                {"name": "Cursor", "type": "WinCursor", "versions": "0+", "nullableVersions": "1-2", "fields": [dict(anchor)]},
                                {"name": "Widgets", "type": "[]WinWidget", "versions": "0+", "nullableVersions": "1-2", "fields": [dict(anchor)]},
                                {"name": "Late", "type": "WinLate", "versions": "1+", "nullableVersions": "2", "fields": [dict(anchor)]},
                                {"name": "Title", "type": "string", "versions": "0+", "nullableVersions": "1-2"},
                                {"name": "Blob", "type": "bytes", "versions": "0+", "nullableVersions": "2"},
                                {"name": "Shared", "type": "[]SysWinShared", "versions": "0+", "nullableVersions": "1"}]})
    for ty in ("request", "response"):
        defs.append({"apiKey": 2102, "type": ty, "name": f"SysLateStart{ty.capitalize()}", "validVersions": "2-4", "flexibleVersions": "3+",
                     "fields": [dict(anchor), {"name": "Name", "type": "string", "versions": "0+"},
                                {"name": "Later", "type": "int64", "versions": "3+", "default": "-1"},
                                {"name": "Gone", "type": "int16", "versions": "0-1"},
                                {"name": "Extra", "type": "string", "versions": "4+", "taggedVersions": "4+", "tag": 0, "nullableVersions": "4+", "default": "null"}]})
    defs.append({"type": "data", "name": "SysLateStartData", "validVersions": "1-2", "flexibleVersions": "none",
                 "fields": [dict(anchor), {"name": "Items", "type": "[]int32", "versions": "2+"}]})
    defs.append({"apiKey": 2100, "type": "response", "name": "SysDefaultedStructsResponse", "validVersions": "0-3", "flexibleVersions": "2+",
                 "fields": [{"name": "ErrorCode", "type": "int16", "versions": "0+"}] + df})
    defs.append({"apiKey": 2100, "type": "request", "name": "SysDefaultedStructsRequest", "validVersions": "0-3", "flexibleVersions": "2+",
                 "fields": [{"name": "Anchor", "type": "int32", "versions": "0+"}]})
    return defs


# ---- printers ---------------------------------------------------------------------------------
def coq_field(f) -> str:
    fields = f.get("fields")
    return ("(DF {name} {type_} {versions} {nullable} {tagged} {tag} {ign} {default} {et} {fields})".format(
        name=cstr(f["name"]), type_=cstr(f["type"]), versions=copt(f.get("versions")), nullable=copt(f.get("nullableVersions")),
        tagged=copt(f.get("taggedVersions")), tag=copt(f.get("tag"), cz), ign="true" if f.get("ignorable") else "false",
        default=copt({True: "True", False: "False"}.get(f.get("default"), f.get("default")) if isinstance(f.get("default"), bool) else f.get("default")),
        et=copt(f.get("entityType")),
        fields="None" if fields is None else "(Some [" + "; ".join(coq_field(x) for x in fields) + "])"))


def coq_defn(d) -> str:
    commons = "; ".join(
        f"{{| ds_name := {cstr(c['name'])}; ds_versions := {cstr(c['versions'])}; ds_fields := [{'; '.join(coq_field(x) for x in c['fields'])}] |}}"
        for c in d.get("commonStructs", []))
    return (f"{{| d_name := {cstr(d['name'])}; d_kind := {cstr(d['type'])}; d_api_key := {copt(d.get('apiKey'), cz)}; "
            f"d_valid := {cstr(d['validVersions'])}; d_flexible := {cstr(d['flexibleVersions'])}; "
            f"d_fields := [{'; '.join(coq_field(x) for x in d['fields'])}]; d_common := [{commons}] |}}")


# ---- canonical description of generated classes -> Coq gclass ---------------------------------
class NotExpressible(Exception):
    pass


def g_ann(a) -> str:
    def cls_name(x):
        return x["class"].split(":")[1]

    if isinstance(a, str):
        return f"(GPrim {cstr(a)} false)"
    if isinstance(a, dict):
        return f"(GEnt {cstr(cls_name(a))} false)"
    if a[0] == "union" and len(a) == 3 and a[2] == "None":
        inner = a[1]
        if isinstance(inner, str):
            return f"(GPrim {cstr(inner)} true)"
        if isinstance(inner, dict):
            return f"(GEnt {cstr(cls_name(inner))} true)"
        if inner[0] == "tuple" and len(inner) == 3 and inner[2] == "..." and isinstance(inner[1], dict):
            return f"(GEntArr {cstr(cls_name(inner[1]))} true)"
    if a[0] == "tuple" and len(a) == 3 and a[2] == "...":
        if isinstance(a[1], str):
            return f"(GPrimArr {cstr(a[1])} false)"
        if isinstance(a[1], list) and a[1][0] == "union" and len(a[1]) == 3 and a[1][2] == "None" and isinstance(a[1][1], str):
            return f"(GPrimArr {cstr(a[1][1])} true)"
        if isinstance(a[1], dict):
            return f"(GEntArr {cstr(cls_name(a[1]))} false)"
    raise NotExpressible(f"annotation {a!r}")


def g_default(v, kafka) -> str:
    if v is None:
        return "None"
    if isinstance(v, dict):
        return f"(Some (GDEntity {cstr(v['instance_of'].split(':')[1])}))"
    if isinstance(v, list):
        if v:
            raise NotExpressible("non-empty tuple default")
        return "(Some GDEmptyTuple)"
    if v == "VNull":
        return "(Some GDNone)"
    m = re.fullmatch(r"\(VInt \(?(-?\d+)\)?\)", v)
    if m:
        return f"(Some ({'GDErrorCode' if kafka == 'error_code' else 'GDInt'} ({m.group(1)})%Z))"
    m = re.fullmatch(r"\(VBool (true|false)\)", v)
    if m:
        return f"(Some (GDBool {m.group(1)}))"
    m = re.fullmatch(r"\(VStr \[(.*)\]\)", v)
    if m:
        b = bytes(int(x) for x in m.group(1).split(";") if x.strip())
        return f"(Some (GDStr {cstr(b.decode())}))"
    m = re.fullmatch(r"\(VDur \(?(-?\d+)\)?\)", v)
    if m:
        us = int(m.group(1))
        if us % 1000:
            raise NotExpressible("sub-millisecond default")
        return f"(Some (GDMillis ({us // 1000})%Z))"
    m = re.fullmatch(r"\(VF64 (\d+)\)", v)
    if m:
        if int(m.group(1)) == 0:
            return '(Some (GDFloatText "0.0"))'
        raise NotExpressible("float default")
    raise NotExpressible(f"default {v!r}")


def g_class(key, c) -> str:
    name = key.split(":")[1]
    fields = []
    for f in c["fields"]:
        kafka = f["metadata"].get("kafka_type")
        tag = f["metadata"].get("tag")
        if not f["kw_only"]:
            raise NotExpressible("field is not keyword-only")
        fields.append(f"{{| gf_name := {cstr(f['name'])}; gf_ann := {g_ann(f['ann'])}; gf_kafka := {copt(kafka)}; "
                      f"gf_tag := {copt(tag, cz)}; gf_default := {g_default(f['default'], kafka)} |}}")
    p = c["params"]
    if not (p["frozen"] and p["slots"] and p["eq"] and not p["order"]):
        raise NotExpressible("dataclass options")
    hdr = None if c["header"] is None else c["header"].split(":")[0]
    return (f"{{| gc_name := {cstr(name)}; gc_type := {cstr(c['type'])}; gc_version := {cz(c['version'])}; "
            f"gc_flexible := {'true' if c['flexible'] else 'false'}; gc_api_key := {copt(c['api_key'], cz)}; "
            f"gc_header := {copt(hdr)}; gc_fields := [{'; '.join(fields)}] |}}")
