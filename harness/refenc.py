"""An independent reference encoder for the Kafka wire format, written from the protocol guide
(not from kio's code, not from the Coq model): it turns a DECORATED abstract value into the
bytes a conforming peer may send.  Decorations: per entity, which tagged fields are sent
although they hold their default, and unknown tagged fields (tag, raw payload).

It reads the schema through harness.values.describe (dataclasses/typing), so it does not depend
on kio.serial._introspect.  The Coq specification Codec/WireSpec.v is cross-checked against it on
every case (three-way: kio, Coq spec, this encoder)."""
from __future__ import annotations

import random

from .values import FDesc, NULL, default_value, describe

INT_W = {"int8": (1, True), "int16": (2, True), "int32": (4, True), "int64": (8, True),
         "uint8": (1, False), "uint16": (2, False), "uint32": (4, False), "uint64": (8, False)}


def uvarint(n: int) -> bytes:
    assert 0 <= n
    out = bytearray()
    while True:
        g = n % 128
        n //= 128
        if n:
            out.append(g + 128)
        else:
            out.append(g)
            return bytes(out)


def be(w: int, signed: bool, z: int) -> bytes:
    return z.to_bytes(w, "big", signed=signed)


def millis(us: int) -> int:
    q, r = divmod(us, 1000)
    if r > 500 or (r == 500 and q % 2 == 1):
        q += 1
    return q


def prim(kafka: str, flexible: bool, nullable: bool, v) -> bytes:
    k = v[0]
    if kafka in INT_W:
        return be(*INT_W[kafka], v[1])
    if kafka == "float64":
        return v[1].to_bytes(8, "big")
    if kafka == "bool":
        return b"\x01" if v[1] else b"\x00"
    if kafka == "error_code":
        return be(2, True, v[1])
    if kafka in ("string", "bytes", "records"):
        w = 2 if kafka == "string" else 4
        if k == "null":
            assert nullable
            return b"\x00" if flexible else be(w, True, -1)
        b = v[1]
        return (uvarint(len(b) + 1) if flexible else be(w, True, len(b))) + b
    if kafka == "uuid":
        return bytes(16) if k == "null" else v[1]
    if kafka == "timedelta_i32":
        return be(4, True, millis(v[1]))
    if kafka == "timedelta_i64":
        return be(8, True, millis(v[1]))
    if kafka == "datetime_i64":
        if k == "null":
            assert nullable
            return be(8, True, -1)
        return be(8, True, millis(v[1]))
    raise KeyError(kafka)


class Deco:
    """decorated entity: values (abstract), send flags per field, unknown entries"""

    def __init__(self, cls, fields, send, unknown):
        self.cls, self.fields, self.send, self.unknown = cls, fields, send, unknown


def erase(d):
    if isinstance(d, Deco):
        return ("ent", [erase(f) for f in d.fields])
    if isinstance(d, list):
        return ("arr", [erase(x) for x in d])
    return d


def to_coq_d(d) -> str:
    from .values import to_coq, coq_bytes

    if isinstance(d, Deco):
        fs = ";".join(to_coq_d(f) for f in d.fields)
        send = ";".join("true" if s else "false" for s in d.send)
        unk = ";".join(f"(({t})%Z, {coq_bytes(p)})" for t, p in d.unknown)
        return f"(DEnt [{fs}] [{send}] [{unk}])"
    if isinstance(d, list):
        return "(DArr [" + ";".join(to_coq_d(x) for x in d) + "])"
    return f"(DLeaf {to_coq(d)})"


def is_request_header(cls):
    return cls.__name__ == "RequestHeader"


def enc_item(cls, d: FDesc, flexible: bool, x) -> bytes:
    if d.ent is not None:
        return enc_entity(x)
    return prim(d.kafka, flexible, d.item_nullable if d.array else d.nullable, x)


def enc_field(cls, d: FDesc, x) -> bytes:
    flexible = cls.__flexible__
    if is_request_header(cls) and d.name == "client_id":
        return prim("string", False, True, x)         # always the legacy nullable string
    if d.array:
        if x == NULL:
            return b"\x00" if flexible else be(4, True, -1)
        items = b"".join(enc_item(cls, d, flexible, i) for i in x)
        return (uvarint(len(x) + 1) if flexible else be(4, True, len(x))) + items
    if d.ent is not None:
        if d.nullable:
            if x == NULL:
                return b"\xff"
            return b"\x01" + enc_entity(x)
        return enc_entity(x)
    return prim(d.kafka, flexible, d.nullable, x)


def enc_entity(d: Deco) -> bytes:
    cls = d.cls
    descs = describe(cls)
    out = bytearray()
    entries = []
    for fd, x, send in zip(descs, d.fields, d.send, strict=True):
        if fd.tag is None:
            out += enc_field(cls, fd, x)
        else:
            if send or erase(x) != default_value(cls, fd):
                entries.append((fd.tag, enc_field(cls, fd, x)))
    if cls.__flexible__:
        entries += list(d.unknown)
        entries.sort(key=lambda e: e[0])
        out += uvarint(len(entries))
        for t, payload in entries:
            out += uvarint(t) + uvarint(len(payload)) + payload
    else:
        assert not d.unknown
    return bytes(out)


# ---- generation of decorated values ------------------------------------------------------------
def decorate(gen, cls, val, p_send=0.5, p_unknown=0.5, depth=0):
    """Turn an abstract entity value into a decorated one with random decorations."""
    r: random.Random = gen.r
    descs = describe(cls)
    fields = []
    for fd, x in zip(descs, val[1], strict=True):
        if fd.ent is not None and x != NULL:
            if fd.array:
                fields.append([decorate(gen, fd.ent, i, p_send, p_unknown, depth + 1) for i in x[1]])
            else:
                fields.append(decorate(gen, fd.ent, x, p_send, p_unknown, depth + 1))
        elif fd.array and x != NULL:
            fields.append(list(x[1]))
        else:
            fields.append(x)
    send = [fd.tag is not None and r.random() < p_send for fd in descs]
    unknown = []
    if p_unknown == "zero-last":
        # deterministic: every flexible entity, at every level, ends its tagged section with a ZERO-SIZE unknown field
        # carrying the largest tag number (the last bytes of the entity are "tag, size 0" with nothing behind them)
        if cls.__flexible__:
            unknown.append((2**31 - 1, b""))
            gen.count("unknown_tag_zero_last")
    elif cls.__flexible__ and r.random() < p_unknown:
        known = {fd.tag for fd in descs if fd.tag is not None}
        for _ in range(r.choice([1, 1, 2, 3])):
            t = r.choice([0, 1, 2, 3, 5, 7, 100, 127, 128, 300, 2**31 - 1, r.randrange(0, 2**31)])
            if t in known or any(t == u[0] for u in unknown):
                continue
            size = r.choice([0, 1, 2, 127, 128, r.randrange(0, 40)])
            unknown.append((t, bytes(r.getrandbits(8) for _ in range(size))))
            gen.count("unknown_tag")
    return Deco(cls, fields, send, unknown)
