"""Runs the tree's code generator on a directory of JSON message definitions inside a scratch
overlay tree (a copy of <tree>/src/kio without the generated schema packages), generates the
index with the tree's generate_index functions, and returns the overlay's src path."""
from __future__ import annotations

import shutil
import subprocess
from pathlib import Path

from . import common

DRIVER = r"""
import sys, pathlib
sys.path.insert(0, {repo!r})
import codegen.generate_schema as g
g.main()
import codegen.generate_index as gi
names, keys = gi.build_index()
target = pathlib.Path({index_path!r})
with target.open("w") as fd:
    print(gi.module_setup, file=fd)
    for line in gi.format_api_key_map(keys):
        print(line, file=fd)
    for line in gi.format_schema_name_map(names):
        print(line, file=fd)
"""


def build(defs_dir: Path, out_root: Path, timeout=1200) -> tuple[Path | None, str]:
    if out_root.exists():
        shutil.rmtree(out_root)
    src = common.REPO / "src" / "kio"
    dst = out_root / "src" / "kio"
    dst.mkdir(parents=True)
    for p in src.iterdir():
        if p.name in ("schema", "__pycache__"):
            continue
        if p.is_dir():
            shutil.copytree(p, dst / p.name, ignore=shutil.ignore_patterns("__pycache__"))
        else:
            shutil.copy(p, dst / p.name)
    (dst / "schema").mkdir()
    for name in ("__init__.py", "errors.py"):
        shutil.copy(src / "schema" / name, dst / "schema" / name)
    # header packages: taken from the tree unless the definitions regenerate them
    have = {q.stem for q in defs_dir.glob("*.json")}
    for pkg, stem in (("request_header", "RequestHeader"), ("response_header", "ResponseHeader")):
        if stem not in have:
            shutil.copytree(src / "schema" / pkg, dst / "schema" / pkg, ignore=shutil.ignore_patterns("__pycache__"))
    # codegen reads build_tag from the tree
    tag = "3.9.0"
    try:
        ns = {}
        exec((common.REPO / "codegen" / "__init__.py").read_text(), ns)
        tag = ns.get("build_tag", tag)
    except Exception:  # noqa
        pass
    sdir = out_root / "schema" / tag
    sdir.mkdir(parents=True)
    for p in sorted(defs_dir.glob("*.json")):
        shutil.copy(p, sdir / p.name)
    env = common.child_env()
    env["PYTHONPATH"] = str(out_root / "src")
    drv = DRIVER.format(repo=str(common.REPO), index_path=str(dst / "schema" / "index.py"))
    p = subprocess.run([common.PY, "-c", drv], cwd=out_root, env=env, capture_output=True, text=True, timeout=timeout)
    if p.returncode != 0:
        return None, (p.stdout[-1500:] + "\n" + p.stderr[-3000:])
    return out_root / "src", ""


def canonical(src_path: Path, out_json: Path, timeout=600) -> tuple[bool, str]:
    env = common.child_env()
    env["PYTHONPATH"] = str(src_path)
    p = subprocess.run([common.PY, str(common.VERIF / "harness" / "translate.py"), str(out_json), "--canonical"],
                       env=env, capture_output=True, text=True, timeout=timeout)
    return p.returncode == 0, (p.stdout + p.stderr)[-3000:]
