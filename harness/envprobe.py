"""Decoding must not depend on how the interpreter was started: a sample of a check's (class, bytes) cases is decoded
again in child interpreters under `-O` (assert statements stripped), `-X dev` and another hash seed, and compared
with the same worker under the default settings."""
from __future__ import annotations

import json
import subprocess

from . import common

ENVS = [("python -O", ["-O"], {}), ("PYTHONOPTIMIZE=2", [], {"PYTHONOPTIMIZE": "2"}), ("PYTHONHASHSEED=7 -X dev", ["-X", "dev"], {"PYTHONHASHSEED": "7"})]


def _run(spec, flags, extra):
    env = common.child_env()
    env.update(extra)
    p = subprocess.run([common.PY, *flags, str(common.VERIF / "harness" / "env_worker.py")], input=json.dumps(spec),
                       capture_output=True, text=True, env=env, timeout=900)
    if p.returncode != 0:
        return None, p.stderr[-400:]
    return json.loads(p.stdout), ""


def decode_differences(classes, cases, sample=250, rnd=None, envs=None) -> tuple[list[dict], int]:
    """cases: dicts with "cls" (index into classes) and "input" (bytes).  Returns (differences, decodes run)."""
    cs = [c for c in cases if len(c["input"]) < 20000]
    if rnd is not None and len(cs) > sample:
        cs = rnd.sample(cs, sample)
    else:
        cs = cs[:sample]
    idxs = sorted({c["cls"] for c in cs})
    spec = {"classes": {str(i): [classes[i].__module__, classes[i].__qualname__] for i in idxs},
            "cases": [[c["cls"], c["input"].hex()] for c in cs]}
    base, err = _run(spec, [], {})
    if base is None:
        return [{"what": "the environment probe does not run", "detail": err}], 0
    diffs, n = [], 0
    for label, flags, extra in (envs or ENVS):
        out, err = _run(spec, flags, extra)
        if out is None:
            diffs.append({"what": f"the decoder does not run under {label}", "detail": err})
            continue
        n += len(out)
        for c, a, b in zip(cs, base, out):
            if a != b:
                diffs.append({"what": f"decoding differs under {label}", "class": f"{classes[c['cls']].__module__}:{classes[c['cls']].__qualname__}",
                              "input": c["input"].hex()[:400], "default_interpreter": str(a)[:300], "this_interpreter": str(b)[:300]})
                break
    return diffs, n


def allocation_probe(classes, cases) -> list[dict]:
    """cases: dicts with "cls", "input" (bytes), "what".  Each is decoded in a child with a 3 GiB address-space cap;
    returns one record per case: outcome, traced peak bytes, seconds."""
    idxs = sorted({c["cls"] for c in cases})
    spec = {"mode": "alloc", "classes": {str(i): [classes[i].__module__, classes[i].__qualname__] for i in idxs},
            "cases": [[c["cls"], c["input"].hex()] for c in cases]}
    out, err = _run(spec, [], {})
    if out is None:
        return [{"what": "the allocation probe does not run", "detail": err, "outcome": "crash", "peak": 0, "seconds": 0, "input_bytes": 0}]
    return [{"class": f"{classes[c['cls']].__module__}:{classes[c['cls']].__qualname__}", "what": c["what"], "input": c["input"].hex()[:200],
             "input_bytes": len(c["input"]), "outcome": o[0] if o[0] == "ok" else o[1], "peak": o[2], "seconds": o[3]} for c, o in zip(cases, out)]
