"""Codec correspondence: run kio's entity writers/readers and the Gallina model on the same
cases; Coq reports the indices on which they disagree."""
from __future__ import annotations

import io
import json
import subprocess
import time
from pathlib import Path

from . import common
from .values import Gen, Unmappable, from_py, to_coq, to_json, to_py, coq_bytes


def err_name(e: BaseException) -> str:
    """Exception class -> model error constructor (by isinstance, never by message)."""
    import struct

    from kio.serial import errors as ke

    if isinstance(e, ke.BufferUnderflow):
        return "EUnderflow"
    if isinstance(e, ke.UnexpectedNull):
        return "EUnexpectedNull"
    if isinstance(e, ke.OutOfBoundValue):
        return "EOutOfBound"
    if isinstance(e, ke.SchemaError):
        return "ESchema"
    if isinstance(e, ke.SerialError):
        return "ESchema"
    if isinstance(e, struct.error):
        return "EStruct"
    if isinstance(e, (ValueError, OverflowError)):
        return "EValue"
    if isinstance(e, NotImplementedError):
        return "ENotImplemented"
    if isinstance(e, TypeError):
        return "EType"
    if isinstance(e, KeyError):
        return "EKey"
    if isinstance(e, IndexError):
        return "EIndex"
    if isinstance(e, AttributeError):
        return "EAttr"
    if isinstance(e, AssertionError):
        return "EAssert"
    if isinstance(e, RecursionError):
        return "ERecursion"
    return "Other:" + type(e).__name__


def load_classes(build_dir: Path):
    import importlib

    out = []
    for c in json.loads((build_dir / "classes.json").read_text()):
        mod = importlib.import_module(c["module"])
        obj = mod
        for part in c["qualname"].split("."):
            obj = getattr(obj, part)
        out.append(obj)
    return out


def impl_encode(cls, inst):
    from kio.serial import entity_writer

    buf = io.BytesIO()
    try:
        entity_writer(cls)(buf, inst)
    except Exception as e:  # noqa
        return ("err", err_name(e), buf.getvalue())
    return ("ok", buf.getvalue())


class Hang(BaseException):
    pass


def _alarm(signum, frame):
    raise Hang()


def impl_decode(cls, data: bytes, limit_s: float = 20.0):
    """Decode with a watchdog: a decode that does not finish within limit_s is reported as the
    outcome Other:Hang (never a permitted outcome) instead of blocking the check."""
    import signal
    import threading
    from kio.serial import entity_reader

    buf = io.BytesIO(data)
    watchdog = threading.current_thread() is threading.main_thread()
    try:
        if watchdog:
            old = signal.signal(signal.SIGALRM, _alarm)
            signal.setitimer(signal.ITIMER_REAL, limit_s)
        try:
            obj = entity_reader(cls)(buf)
        finally:
            if watchdog:
                signal.setitimer(signal.ITIMER_REAL, 0)
                signal.signal(signal.SIGALRM, old)
    except Hang:
        return ("err", "Other:Hang")
    except Exception as e:  # noqa
        return ("err", err_name(e))
    if buf.tell() > len(data):
        return ("err", "Other:ConsumedBeyondInput")
    try:
        v = from_py(obj)
    except Unmappable as e:
        return ("err", "Other:Unmappable")
    return ("ok", v, data[buf.tell():])


def coq_res_bytes(r):
    if r[0] == "ok":
        return f"(Ok {coq_bytes(r[1])})"
    return f"(Err {r[1]})" if not r[1].startswith("Other:") else "(Err EAssert)"


def coq_res_dec(r):
    if r[0] == "ok":
        return f"(Ok ({to_coq(r[1])}, {coq_bytes(r[2])}))"
    return f"(Err {r[1]})" if not r[1].startswith("Other:") else "(Err EAssert)"


CASE_HEADER = """From Coq Require Import ZArith List Bool String.
From KioV Require Import Base.Res Codec.Value Codec.Check.
From KioG Require Import Env.
Import ListNotations.
Open Scope Z_scope.
"""


def coq_case(c) -> str:
    return (f"{{| k_cls := {c['cls']}%nat; k_val := {to_coq(c['val'])}; k_enc := {coq_res_bytes(c['enc'])}; "
            f"k_input := {coq_bytes(c['input'])}; k_dec := {coq_res_dec(c['dec'])} |}}")


def coq_dcase(c) -> str:
    return (f"{{| d_cls := {c['cls']}%nat; d_input := {coq_bytes(c['input'])}; "
            f"d_dec := {coq_res_dec(c['dec'])} |}}")


def run_coq_cases(build_dir: Path, prefix: str, cases: list[dict], kind="case", per_file=400, jobs=16,
                  timeout=900) -> tuple[list[int], list[str]]:
    """Returns (indices of disagreeing cases, errors)."""
    files = []
    for n, start in enumerate(range(0, len(cases), per_file)):
        chunk = cases[start:start + per_file]
        name = f"{prefix}_{n}"
        if kind == "case":
            body = ";\n".join(coq_case(c) for c in chunk)
            text = (CASE_HEADER + f"Definition cases : list case := [\n{body}\n].\n"
                    "Eval vm_compute in (failing (check_case W R EC) cases).\n")
        else:
            body = ";\n".join(coq_dcase(c) for c in chunk)
            text = (CASE_HEADER + f"Definition cases : list dcase := [\n{body}\n].\n"
                    "Eval vm_compute in (failing (check_dcase R EC) cases).\n")
        (build_dir / f"{name}.v").write_text(text)
        files.append((name, start))
    failing: list[int] = []
    errors: list[str] = []
    running: list = []
    pending = list(files)

    def reap(block):
        nonlocal running
        still = []
        for name, start, p in running:
            if block or p.poll() is not None:
                rc, out = common.coq_result(build_dir, name, p)
                if rc != 0:
                    errors.append(f"{name}: coqc exit {rc}: {out[-1500:]}")
                else:
                    failing.extend(start + i for i in common.parse_nat_list(out))
                for ext in (".v", ".vo", ".vok", ".vos"):
                    (build_dir / f"{name}{ext}").unlink(missing_ok=True)
            else:
                still.append((name, start, p))
        running = still

    while pending or running:
        while pending and len(running) < jobs:
            name, start = pending.pop(0)
            p = subprocess.Popen(
                ["timeout", str(timeout), "coqc", *common.COQ_ARGS, "-Q", str(build_dir), "KioG", f"{name}.v"],
                cwd=build_dir, stdout=subprocess.PIPE, stderr=subprocess.STDOUT, text=True)
            running.append((name, start, p))
        reap(False)
        time.sleep(0.05)
        if not pending:
            reap(True)
    return sorted(failing), errors


def roundtrip_cases(classes, gen: Gen, per_class: int, class_filter=None, tail_rng=None):
    """Structured stream: typed canonical instances of every class."""
    cases = []
    r = gen.r
    for idx, cls in enumerate(classes):
        if class_filter is not None and not class_filter(idx, cls):
            continue
        for _ in range(per_class):
            val = gen.entity(cls)
            inst = to_py(cls, val)
            enc = impl_encode(cls, inst)
            tail = bytes(r.getrandbits(8) for _ in range(r.choice([0, 0, 1, 3])))
            if enc[0] == "ok":
                data = enc[1] + tail
            else:
                data = enc[2] + tail
            dec = impl_decode(cls, data)
            cases.append({"cls": idx, "val": val, "enc": enc, "input": data, "dec": dec, "tail": tail})
    return cases


def case_json(c):
    j = {"cls": c["cls"], "input": c["input"].hex()}
    if "val" in c:
        j["val"] = to_json(c["val"])
    if "enc" in c:
        j["enc"] = [c["enc"][0], c["enc"][1].hex() if c["enc"][0] == "ok" else c["enc"][1]]
    d = c["dec"]
    j["dec"] = ["ok", to_json(d[1]), d[2].hex()] if d[0] == "ok" else list(d)
    return j
