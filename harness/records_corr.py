"""Record-batch correspondence (C17/C18): kio.records writers/readers vs Records/Batch.v."""
from __future__ import annotations

import datetime
import io
import random

from .codec_corr import err_name
from .values import EPOCH, coq_bytes, coq_z

US = datetime.timedelta(microseconds=1)


def opt_bytes(b):
    return "None" if b is None else f"(Some {coq_bytes(b)})"


def coq_header(h):
    return f"{{| h_key := {opt_bytes(h[0])}; h_value := {opt_bytes(h[1])} |}}"


def coq_record(r):
    return (f"{{| r_attributes := {coq_z(r['attributes'])}; r_timestamp := {coq_z(r['timestamp'])}; "
            f"r_offset := {coq_z(r['offset'])}; r_key := {opt_bytes(r['key'])}; r_value := {opt_bytes(r['value'])}; "
            f"r_headers := [{'; '.join(coq_header(h) for h in r['headers'])}] |}}")


def coq_new_batch(nb):
    return (f"{{| n_producer_id := {coq_z(nb['producer_id'])}; n_producer_epoch := {coq_z(nb['producer_epoch'])}; "
            f"n_partition_leader_epoch := {coq_z(nb['partition_leader_epoch'])}; "
            f"n_base_sequence := {coq_z(nb['base_sequence'])}; "
            f"n_records := [{'; '.join(coq_record(r) for r in nb['records'])}]; "
            f"n_attributes := {coq_z(nb['attributes'])} |}}")


def coq_batch(b):
    return (f"{{| b_base_offset := {coq_z(b['base_offset'])}; b_batch_length := {coq_z(b['batch_length'])}; "
            f"b_partition_leader_epoch := {coq_z(b['partition_leader_epoch'])}; b_crc := {coq_z(b['crc'])}; "
            f"b_attributes := {coq_z(b['attributes'])}; b_last_offset_delta := {coq_z(b['last_offset_delta'])}; "
            f"b_base_timestamp := {coq_z(b['base_timestamp'])}; b_max_timestamp := {coq_z(b['max_timestamp'])}; "
            f"b_producer_id := {coq_z(b['producer_id'])}; b_producer_epoch := {coq_z(b['producer_epoch'])}; "
            f"b_base_sequence := {coq_z(b['base_sequence'])}; "
            f"b_records := [{'; '.join(coq_record(r) for r in b['records'])}] |}}")


def py_record(r, pool=None):
    """pool: objects already built for this batch, by content - records with equal headers / keys / values then hold the SAME
    tuple and bytes objects, as they do in a producer that reuses them"""
    from kio.records.schema import Record, RecordHeader as _RH

    def RecordHeader(key, value):
        if pool is None:
            return _RH(key=key, value=value)
        return pool.setdefault(("h", key, value), _RH(key=key, value=value))

    def tuple_(it):
        t = tuple(it)
        return t if pool is None else pool.setdefault(("t", tuple((h.key, h.value) for h in t)), t)
    if pool is not None:
        r = dict(r, key=pool.setdefault(("b", r["key"]), r["key"]), value=pool.setdefault(("b", r["value"]), r["value"]))

    if r.get("tzoffset") is not None:
        # a fixed-offset zone, built from the local wall time: the instant (r["timestamp"], in UTC) may lie beyond
        # datetime.max in UTC while the local time is representable
        off = r["tzoffset"]
        local = datetime.datetime(1970, 1, 1) + datetime.timedelta(microseconds=r["timestamp"] + off * 60 * 10**6)
        ts = local.replace(tzinfo=datetime.timezone(datetime.timedelta(minutes=off)))
        return Record(attributes=r["attributes"], timestamp=ts, offset=r["offset"], key=r["key"], value=r["value"],
                      headers=tuple_(RecordHeader(key=k, value=v) for k, v in r["headers"]))
    ts = EPOCH + datetime.timedelta(microseconds=r["timestamp"])
    if r.get("tz"):
        import zoneinfo

        ts = ts.astimezone(zoneinfo.ZoneInfo(r["tz"]))     # same instant; repeated-hour instants differ only in fold
    return Record(
        attributes=r["attributes"], timestamp=ts,
        offset=r["offset"], key=r["key"], value=r["value"],
        headers=tuple_(RecordHeader(key=k, value=v) for k, v in r["headers"]))


def abs_record(r):
    return {"attributes": int(r.attributes), "timestamp": (r.timestamp - EPOCH) // US, "offset": int(r.offset),
            "key": r.key, "value": r.value, "headers": [(h.key, h.value) for h in r.headers]}


def py_new_batch(nb):
    from kio.records.schema import NewRecordBatch

    return NewRecordBatch(
        producer_id=nb["producer_id"], producer_epoch=nb["producer_epoch"],
        partition_leader_epoch=nb["partition_leader_epoch"], base_sequence=nb["base_sequence"],
        records=(lambda pool: tuple(py_record(r, pool) for r in nb["records"]))({}), attributes=nb["attributes"])


def nb_to_json(nb):
    def b(x):
        return None if x is None else x.hex()
    return {k: v for k, v in nb.items() if k != "records"} | {"records": [
        dict(r, key=b(r["key"]), value=b(r["value"]), headers=[[b(k), b(v)] for k, v in r["headers"]]) for r in nb["records"]]}


def nb_from_json(j):
    def b(x):
        return None if x is None else bytes.fromhex(x)
    return {k: v for k, v in j.items() if k != "records"} | {"records": [
        dict(r, key=b(r["key"]), value=b(r["value"]), headers=[(b(k), b(v)) for k, v in r["headers"]]) for r in j["records"]]}


def abs_batch(b):
    return {k: int(getattr(b, k)) for k in (
        "base_offset", "batch_length", "partition_leader_epoch", "crc", "attributes", "last_offset_delta",
        "base_timestamp", "max_timestamp", "producer_id", "producer_epoch", "base_sequence")} | {
        "records": [abs_record(r) for r in b.records]}


def py_batch(b):
    from kio.records.schema import RecordBatch

    kw = {k: b[k] for k in b if k != "records"}
    pool = {}
    return RecordBatch(records=tuple(py_record(r, pool) for r in b["records"]), **kw)


def gen_blob(r: random.Random, big=False):
    c = r.random()
    if c < 0.2:
        return None
    if c < 0.35:
        return b""
    n = r.choice([1, 2, 5, 63, 64, 127, 128]) if not big else r.choice([1023, 4096])
    return bytes(r.getrandbits(8) for _ in range(n))


def gen_new_batch(r: random.Random, canonical_ms=True):
    n = r.choice([1, 1, 2, 3, 5, 12]) if r.random() > 0.025 else r.choice([63, 64, 65, 128])   # record count at zig-zag varint edges
    base_ts_ms = r.choice([0, 1, 999, 1001, 1700000000123, r.randrange(0, 4102444800000)])
    base_off = r.choice([0, 1, 2**31, 2**62, r.randrange(0, 2**40)])
    recs = []
    for k in range(n):
        ts_ms = base_ts_ms + r.choice([0, 1, -1, 999, 1000, 86400000, r.randrange(-5000, 500000), 63, 64, -64, -65, 8191, 8192, -8193])
        ts_ms = max(ts_ms, 0)
        us = ts_ms * 1000 + (0 if canonical_ms else r.choice([0, 1, 499, 500, 999]))
        off = base_off + r.choice([k, k, k, r.randrange(0, 1000), -r.randrange(0, 3), 63, 64, 8191, 8192, 2**20 - 1, 2**20])
        off = max(off, 0)
        recs.append({
            "attributes": r.choice([0, 0, 1, -128, 127]), "timestamp": us, "offset": off,
            "key": gen_blob(r), "value": gen_blob(r, big=r.random() < 0.01),
            "headers": ([(gen_blob(r), gen_blob(r)) for _ in range(r.choice([0, 0, 1, 3]))] if r.random() > 0.04 or n > 12 else
                        # header COUNT at the zig-zag varint edges (64 needs two bytes), tiny headers
                        [(r.choice([None, b"", b"k"]), r.choice([None, b"", b"v"])) for _ in range(r.choice([63, 64, 65, 127, 128]))])})
    if n >= 3 and r.random() < 0.2:
        # a producer that attaches ONE shared headers tuple (tracing, content type) to its records, with a record in between
        # carrying other headers: the records share the very same tuple / bytes objects (py_new_batch interns by content)
        common = [(b"content-type", b"application/json"), (b"trace-id", bytes(r.getrandbits(8) for _ in range(8)))][: r.choice([1, 2])]
        odd = r.randrange(1, n - 1)
        for k, rec in enumerate(recs):
            rec["headers"] = list(common) + ([(b"retry", b"1")] if k == odd else []) if r.random() > 0.1 or k in (0, odd, n - 1) else []
        if r.random() < 0.5:
            shared_key = gen_blob(r)
            for rec in recs[::2]:
                rec["key"] = shared_key
    if r.random() < 0.04:
        # "end of time" sentinels: local 9999-12-31T23:59:59 in zones behind UTC (the instant is beyond datetime.max in UTC,
        # its millisecond count still fits an int64 easily), and ordinary times in fixed-offset zones
        local_max_us = (datetime.datetime.max.replace(microsecond=0) - datetime.datetime(1970, 1, 1)) // datetime.timedelta(microseconds=1)
        off = r.choice([-300, -720, -1])
        for k, rec in enumerate(recs):
            rec["timestamp"] = local_max_us - off * 60 * 10**6 - 1000000 * (len(recs) - 1 - k)
            rec["tzoffset"] = off
    elif r.random() < 0.1:
        off = r.choice([60, -300, 765, 330])
        for rec in recs:
            rec["tzoffset"] = off
    if r.random() < 0.15 and "tzoffset" not in recs[0]:
        # two instants one hour apart that share a wall-clock time in a DST zone (fold 0 / fold 1)
        zone, first = r.choice([("Europe/Berlin", 1698539400), ("America/New_York", 1699162200), ("Europe/London", 1729989000)])
        a, b = (first, first + 3600) if r.random() < 0.5 else (first + 3600, first)
        for rec, t in zip(recs[:2] if len(recs) > 1 else recs, (a, b)):
            rec["timestamp"] = t * 1000000
            rec["tz"] = zone
    return {
        "producer_id": r.choice([-1, 0, 1, 2**63 - 1, r.randrange(0, 2**40)]),
        "producer_epoch": r.choice([-1, 0, 1, 2**15 - 1]),
        "partition_leader_epoch": r.choice([-1, 0, 7, 2**31 - 1]),
        "base_sequence": r.choice([-1, 0, 5, 2**31 - 1]),
        "records": recs,
        "attributes": r.choice([0, 0, 1, 2, 3, 4, 16, 32, 2**15 - 1, -(2**15)]),
    }


def impl_write(batch_obj, lead: bytes = b"", stale: bytes = b""):
    """write_batch into a buffer that already holds `lead` before the write position and `stale` after it (a reused or
    pre-sized buffer); returns what was written at the position"""
    from kio.records.writers import write_batch

    buf = io.BytesIO()
    buf.write(lead)
    buf.write(stale)
    buf.seek(len(lead))
    try:
        write_batch(buf, batch_obj)
    except Exception as e:  # noqa
        return ("err", err_name(e))
    end = buf.tell()
    out = buf.getvalue()
    if out[:len(lead)] != lead:
        return ("err", "Other:OverwroteEarlierBytes")
    if stale and out[end:] != stale[end - len(lead):]:
        return ("err", "Other:TouchedBytesBehindTheBatch")
    return ("ok", out[len(lead):end])


def impl_read(data: bytes):
    from kio.records.readers import read_batch

    buf = io.BytesIO(data)
    try:
        b = read_batch(buf)
    except Exception as e:  # noqa
        return ("err", err_name(e))
    return ("ok", abs_batch(b), data[buf.tell():])


def coq_res(r, f):
    if r[0] == "ok":
        return f"(Ok {f(r)})"
    n = r[1]
    return f"(Err {n})" if not n.startswith("Other:") else "(Err EAssert)"


HEADER = """From Coq Require Import ZArith List Bool String.
From KioV Require Import Base.Res Records.Crc Records.Batch Records.Check.
Import ListNotations.
Open Scope Z_scope.
"""
