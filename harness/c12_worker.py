"""Child process of C12's int-subclass probe: membership and constructor behaviour of the interval types for values
that are instances of SUBCLASSES of int (IntEnum members, a plain subclass) - in a child so that a check that does not
terminate is a reported outcome, not a stuck verification run.  Input: [[type name, z, kind]]; output: [[isinstance,
constructor outcome]]."""
import enum
import json
import sys


class Sub(int):
    pass


def main():
    from kio.static import primitive as P

    out = []
    for tname, z, kind in json.load(sys.stdin):
        t = getattr(P, tname)
        if kind == "enum":
            v = enum.IntEnum("Probe", {"member": z}).member
        else:
            v = Sub(z)
        try:
            inst = isinstance(v, t)
        except Exception as e:  # noqa
            inst = f"raised {type(e).__name__}"
        try:
            r = t(v)
            ctor = "same" if r is v else "different"
        except TypeError:
            ctor = "TypeError"
        except Exception as e:  # noqa
            ctor = f"raised {type(e).__name__}"
        out.append([inst, ctor])
        sys.stdout.write(json.dumps([inst, ctor]) + "\n")
        sys.stdout.flush()


if __name__ == "__main__":
    main()
