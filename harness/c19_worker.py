"""Worker for the C19 check: executes a history of reader/writer creations and uses in THIS
(fresh) interpreter and prints one JSON result per operation.  argv[1] = build dir (classes.json)."""
import io
import json
import sys
import threading

sys.path.insert(0, "/verif")
from harness import common  # noqa: E402

common.use_tree()
from harness import codec_corr as cc  # noqa: E402
from harness.values import from_json, from_py, to_json, to_py  # noqa: E402


class FaultySink:
    def __init__(self, fail_at):
        self.chunks, self.n, self.fail_at = [], 0, fail_at

    def write(self, b):
        if self.n == self.fail_at:
            self.n += 1
            raise OSError("injected write fault")
        self.n += 1
        self.chunks.append(bytes(b))
        return len(b)

    # a long-lived sink offers more than write(): record whether a writer ever uses any of it (closing, seeking,
    # truncating or inspecting the caller's stream is not "appending through sequential write calls")
    def _touch(self, name):
        self.__dict__.setdefault("touched", []).append(name)

    def close(self):
        self._touch("close")

    def flush(self):
        self._touch("flush")

    def seek(self, *a):
        self._touch("seek")
        return 0

    def tell(self):
        self._touch("tell")
        return 0

    def truncate(self, *a):
        self._touch("truncate")
        return 0

    def getvalue(self):
        self._touch("getvalue")
        return b""

    def getbuffer(self):
        self._touch("getbuffer")
        return memoryview(b"")

    def writelines(self, lines):
        self._touch("writelines")


class FaultySource:
    def __init__(self, data, fail_at):
        self.data, self.pos, self.n, self.fail_at = data, 0, 0, fail_at

    def read(self, k=-1):
        if self.n == self.fail_at:
            self.n += 1
            raise OSError("injected read fault")
        self.n += 1
        out = self.data[self.pos:self.pos + k]
        self.pos += len(out)
        return out


def main():
    from pathlib import Path

    import importlib

    spec = json.load(sys.stdin)

    class Lazy(dict):
        def __missing__(self, i):
            mod, qual = spec["classes"][str(i)]
            obj = importlib.import_module(mod)
            for part in qual.split("."):
                obj = getattr(obj, part)
            self[i] = obj
            return obj

    classes = Lazy()
    from kio.serial import entity_reader, entity_writer

    def do(op):
        kind = op[0]
        cls = classes[op[1]]
        if kind == "mkw":
            entity_writer(cls, op[2]); return ["ok"]
        if kind == "mkr":
            entity_reader(cls, op[2]); return ["ok"]
        if kind == "w":
            try:
                inst = to_py(cls, from_json(op[2]))
            except Exception as e:  # noqa  an ill-typed value may already be refused when the instance is built
                return ["err", cc.err_name(e), ""]
            sink = FaultySink(op[3] if len(op) > 3 and op[3] is not None else -1)
            try:
                entity_writer(cls)(sink, inst)
                out = ["ok", b"".join(sink.chunks).hex(), sink.n]
            except OSError:
                out = ["fault", b"".join(sink.chunks).hex(), sink.n]
            except Exception as e:  # noqa
                out = ["err", cc.err_name(e), b"".join(sink.chunks).hex()]
            if getattr(sink, "touched", None):
                return ["touched-sink", sorted(set(sink.touched)), out[0]]
            return out
        if kind == "r":
            data = bytes.fromhex(op[2])
            src = FaultySource(data, op[3] if len(op) > 3 and op[3] is not None else -1)
            try:
                obj = entity_reader(cls)(src)
                return ["ok", to_json(from_py(obj)), src.pos, src.n, type(obj) is cls]
            except OSError:
                return ["fault", src.pos, src.n]
            except Exception as e:  # noqa
                return ["err", cc.err_name(e)]
        raise ValueError(kind)

    if spec.get("threads"):
        import sys as _s
        _s.setswitchinterval(1e-6)
        n = spec["threads"]
        results = [None] * n
        barrier = threading.Barrier(n)
        # import the schema modules up front, in this thread: concurrent FIRST imports of sibling modules are
        # CPython's import machinery (it may raise _DeadlockError), not the readers and writers under test
        for ops in spec["per_thread"]:
            for op in ops:
                classes[op[1]]

        def run(i):
            barrier.wait()
            out = []
            for op in spec["per_thread"][i]:
                try:
                    out.append(do(op))
                except BaseException as e:  # noqa  - reported as this operation's outcome, never lost
                    import traceback
                    out.append(["crash", f"{type(e).__name__}: {e}", traceback.format_exc()[-1500:]])
            results[i] = out

        ts = [threading.Thread(target=run, args=(i,)) for i in range(n)]
        for t in ts:
            t.start()
        for t in ts:
            t.join()
        json.dump(results, sys.stdout)
    else:
        json.dump([do(op) for op in spec["ops"]], sys.stdout)


if __name__ == "__main__":
    main()
