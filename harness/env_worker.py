"""Child process of harness/envprobe.py: decodes (class, bytes) cases with the implementation inside an interpreter
started with the flags / environment under test and prints the observations as JSON.  No assert statements here
(they would vanish under -O)."""
import json
import sys

sys.path.insert(0, str(__import__("pathlib").Path(__file__).resolve().parent.parent))


def main():
    import importlib

    from harness import codec_corr as cc
    from harness.values import to_json

    spec = json.load(sys.stdin)
    cache = {}

    def cls_of(i):
        if i not in cache:
            mod, qual = spec["classes"][str(i)]
            obj = importlib.import_module(mod)
            for part in qual.split("."):
                obj = getattr(obj, part)
            cache[i] = obj
        return cache[i]

    out = []
    for i, hx in spec["cases"]:
        dec = cc.impl_decode(cls_of(i), bytes.fromhex(hx))
        out.append(["ok", to_json(dec[1]), len(dec[2])] if dec[0] == "ok" else ["err", dec[1]])
    json.dump(out, sys.stdout)


if __name__ == "__main__":
    main()
