"""Child process of harness/envprobe.py: decodes (class, bytes) cases with the implementation inside an interpreter
started with the flags / environment under test and prints the observations as JSON.  No assert statements here
(they would vanish under -O)."""
import json
import sys

sys.path.insert(0, str(__import__("pathlib").Path(__file__).resolve().parent.parent))


def main():
    import importlib

    from harness import codec_corr as cc
    from harness.values import to_json

    spec = json.load(sys.stdin)
    cache = {}

    def cls_of(i):
        if i not in cache:
            mod, qual = spec["classes"][str(i)]
            obj = importlib.import_module(mod)
            for part in qual.split("."):
                obj = getattr(obj, part)
            cache[i] = obj
        return cache[i]

    out = []
    if spec.get("mode") == "alloc":
        # memory: an address-space cap (so that a runaway allocation fails here instead of hurting the machine) and the
        # traced peak of each decode
        import resource
        import time
        import tracemalloc

        for i, hx in spec["cases"]:
            cls_of(i)
        cap = int(spec.get("cap", 3 * 2**30))
        resource.setrlimit(resource.RLIMIT_AS, (cap, cap))
        tracemalloc.start()
        for i, hx in spec["cases"]:
            data = bytes.fromhex(hx)
            tracemalloc.reset_peak()
            base = tracemalloc.get_traced_memory()[0]
            t0 = time.perf_counter()
            dec = cc.impl_decode(cls_of(i), data)
            dt = time.perf_counter() - t0
            peak = tracemalloc.get_traced_memory()[1] - base
            out.append([dec[0], dec[1] if dec[0] == "err" else "value", peak, round(dt, 4)])
        json.dump(out, sys.stdout)
        return
    for i, hx in spec["cases"]:
        dec = cc.impl_decode(cls_of(i), bytes.fromhex(hx))
        out.append(["ok", to_json(dec[1]), len(dec[2])] if dec[0] == "ok" else ["err", dec[1]])
    json.dump(out, sys.stdout)


if __name__ == "__main__":
    main()
