"""./check Cxx --replay FILE: re-runs the recorded cases of a replay file on the implementation and
on the model and prints both observations.  Exit 1 if the recorded violation still reproduces
(the property fails on the implementation, or model and implementation still disagree)."""
from __future__ import annotations

import json

from . import codec_corr as cc
from .values import from_json, to_json, to_py


def run(ctx, path) -> int:
    rep = json.loads(open(path).read())
    print(f"replay of {path}: kind={rep.get('kind')} what={rep.get('what', rep.get('observation'))}")
    cases = [c for c in rep.get("cases", []) if isinstance(c, dict) and "cls" in c and "input" in c]
    if not cases:
        print("this replay names configurations / theorems rather than byte-level cases; re-running the whole check")
        import importlib

        mod = importlib.import_module(f"harness.props.{ctx['prop'].lower()}")
        res = mod.run(dict(ctx, replay=None))
        for v in res.get("violations", []):
            print("still violated:", json.dumps(v, default=str)[:1500])
        return 1 if res.get("violations") else 0
    classes = cc.load_classes(ctx["build"])
    model_cases = []
    still = 0
    for c in cases:
        cls = classes[c["cls"]]
        data = bytes.fromhex(c["input"])
        h = c.get("history")
        if h:   # the recorded failed operation that preceded this case
            hcls = classes[h["cls"]]
            if "val" in h:
                try:
                    out = cc.impl_encode(hcls, to_py(hcls, from_json(h["val"])))
                except Exception as e:  # noqa
                    out = ("err", cc.err_name(e))
            else:
                out = cc.impl_decode(hcls, bytes.fromhex(h["input"]))
            print(f"- history: {h['kind']} of {hcls.__module__}:{hcls.__qualname__} -> {out[1] if out[0] != 'ok' else 'ok'}")
        dec = cc.impl_decode(cls, data)
        print(f"- class {cls.__module__}:{cls.__qualname__}")
        print(f"  input            {c['input'][:200]}")
        print(f"  recorded decode  {json.dumps(c.get('dec'))[:300]}")
        now = ["ok", to_json(dec[1]), dec[2].hex()] if dec[0] == "ok" else list(dec)
        print(f"  decode now       {json.dumps(now)[:300]}")
        if "val" in c:
            val = from_json(c["val"])
            enc = cc.impl_encode(cls, to_py(cls, val))
            print(f"  encode now       {enc[1].hex()[:200] if enc[0] == 'ok' else enc[1]}")
            model_cases.append({"cls": c["cls"], "val": val, "enc": enc, "input": data, "dec": dec})
            if enc[0] == "ok" and not (dec[0] == "ok" and dec[1] == val):
                pass
        else:
            model_cases.append({"cls": c["cls"], "input": data, "dec": dec})
    with_val = [m for m in model_cases if "val" in m]
    without = [m for m in model_cases if "val" not in m]
    failing = []
    if with_val:
        f, errs = cc.run_coq_cases(ctx["build"], "Replay", with_val)
        failing += f
        print("  model evaluation errors:", errs[:1]) if errs else None
    if without:
        f, errs = cc.run_coq_cases(ctx["build"], "ReplayD", without, kind="dcase")
        failing += f
    print(f"model agrees with the implementation on {len(model_cases) - len(failing)} of {len(model_cases)} replayed cases")
    return 1 if failing else 0
