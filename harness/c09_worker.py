"""Child process of C09's cold-start probe: in a FRESH interpreter (no schema module imported yet) several
unsynchronised threads resolve the same index entries through the public loaders; every lookup must return
the module / class whose names the entry states.  Input: {"entries": [[name, key|null, version, type], ...],
"threads": n}; output: list of failures."""
import json
import sys
import threading


def main():
    spec = json.load(sys.stdin)
    from kio import index
    from kio.static.constants import EntityType

    sys.setswitchinterval(1e-5)
    fails = []
    lock = threading.Lock()

    def check(name, key, ver, ty):
        et = EntityType[ty]
        want_mod = f"kio.schema.{name}.v{ver}.{ty}"
        try:
            got = [index.load_entity_schema(name, ver, et), index.load_entity_module(name, ver, et)]
            if key is not None and ty in ("request", "response"):
                got.append((index.load_request_schema if ty == "request" else index.load_response_schema)(key, ver))
                got.append(index.load_payload_module(key, ver, et))
        except BaseException as e:  # noqa
            if type(e).__name__ == "_DeadlockError":
                return None      # CPython's import system refusing a circular wait between first imports: inconclusive
            return f"{type(e).__name__}: {e}"[:200]
        cls, mod = got[0], got[1]
        if mod.__name__ != want_mod or cls.__module__ != want_mod or getattr(mod, cls.__name__, None) is not cls:
            return f"resolved to {getattr(cls, '__module__', '?')}.{getattr(cls, '__name__', '?')} / {mod.__name__}"
        if len(got) == 4 and (got[2] is not cls or got[3] is not mod):
            return "lookup by key and by name disagree"
        return None

    def work(offset):
        es = spec["entries"]
        n = len(es)
        for k in range(n):
            e = es[(k + offset) % n] if offset % 2 == 0 else es[(offset - k) % n]
            why = check(*e)
            if why:
                with lock:
                    fails.append({"entry": e, "what": why})

    nt = spec.get("threads", 4)
    ts = [threading.Thread(target=work, args=(i * 3,)) for i in range(nt)]
    for i, t in enumerate(ts):
        t.start()          # no barrier: staggered arrival is what matters
    for t in ts:
        t.join()
    json.dump(fails[:20], sys.stdout)


if __name__ == "__main__":
    main()
