"""Entry point of every check:  ./check Cxx [--tier quick|thorough] [--replay FILE]

Protocol (DESIGN.md section 2.3): build the generic Coq theory and the per-tree instance data,
recompile the property's theorem file (capturing Print Assumptions), evaluate the instance
theorems, run the correspondence between model and implementation, then decide."""
from __future__ import annotations

import argparse
import importlib
import json
import os
import sys
import time
import traceback

from . import common


def main():
    ap = argparse.ArgumentParser()
    ap.add_argument("prop")
    ap.add_argument("--tier", default=os.environ.get("VERIF_TIER", "quick"))
    ap.add_argument("--replay", default=None)
    args = ap.parse_args()
    prop = args.prop.upper()
    tier = os.environ.get("VERIF_TIER", args.tier)
    if tier not in ("quick", "thorough"):
        tier = "quick"
    seed = int(os.environ.get("VERIF_SEED", "0") or 0)
    t0 = time.time()
    violations: list[dict] = []
    coverage: dict = {}
    assumptions = list(common.TRUSTED_BASE)
    known_lines: list[str] = []

    def finish():
        wall = time.time() - t0
        for line in known_lines:
            print(line)
        for v in violations:
            path = common.write_replay(prop, v)
            suffix = "" if v.get("failing_input_found", False) else " no-failing-input-found"
            print(f"VIOLATION property={prop} replay={path}{suffix}")
        cov = dict(coverage)
        cov.setdefault("obligations", 1)
        cov.setdefault("discharged", 0)
        cov.setdefault("checker_cmd", "make -C /verif/coq && coqc (see harness/common.py)")
        cov.setdefault("trusted_base", assumptions)
        cov.setdefault("samples", [])
        common.write_evidence(prop, tier, seed, cov, wall, len(violations), assumptions)
        sys.exit(1 if violations else 0)

    try:
        bad = common.grep_forbidden()
        if bad:
            violations.append({"kind": "theorem", "what": "forbidden construct in the Coq development", "where": bad})
            finish()
        mod = importlib.import_module(f"harness.props.{prop.lower()}")
        d, err = common.build_instance()
        if d is None:
            violations.append({"kind": "build", "what": "translation or build failed: the property is no longer shown",
                               "detail": err})
            finish()
        common.use_tree()
        rep = common.props_report(prop)
        coverage["theorems"] = rep["theorems"]
        coverage["print_assumptions_closed"] = rep["closed"]
        coverage["axioms_reported"] = rep["assumptions"]
        n_thm = len(rep["theorems"])
        if not rep["ok"]:
            violations.append({"kind": "theorem", "what": f"coq/Props/{prop}.v no longer compiles",
                               "detail": rep["output"]})
        ctx = {"prop": prop, "tier": tier, "seed": seed, "build": d, "replay": args.replay}
        if args.replay:
            from . import replay as _replay

            sys.exit(_replay.run(ctx, args.replay))
        # two runs of the same property against the same tree share generated file names in the
        # build directory: serialise them
        with common.Lock(d / f".lock.run.{prop}"):
            res = mod.run(ctx)
        obligations = n_thm + res.get("instance_obligations", 0)
        discharged = (n_thm if rep["ok"] else 0) + res.get("instance_discharged", 0)
        coverage.update(res.get("coverage", {}))
        coverage["obligations"] = max(obligations, 1)
        coverage["discharged"] = discharged
        coverage["checker_cmd"] = (
            f"make -C /verif/coq -j16  &&  coqc -Q /verif/coq KioV Props/{prop}.v  &&  "
            f"coqc -Q /verif/coq KioV -Q {d} KioG <instance and case files>")
        tb = list(common.TRUSTED_BASE)
        tb.append("Print Assumptions: " + (
            f"{rep['closed']} of {n_thm} theorems 'Closed under the global context'"
            + ("; axioms: " + " | ".join(a.strip() for a in rep["assumptions"]) if rep["assumptions"] else "")))
        tb.extend(res.get("trusted_base", []))
        coverage["trusted_base"] = tb
        assumptions[:] = tb
        violations.extend(res.get("violations", []))
        known_lines.extend(res.get("known", []))
    except SystemExit:
        raise
    except Exception as e:  # a crash of the machinery is never silently a pass
        traceback.print_exc()
        violations.append({"kind": "harness", "what": f"check crashed: {type(e).__name__}: {e}",
                           "trace": traceback.format_exc()[-3000:]})
    finish()


if __name__ == "__main__":
    main()
