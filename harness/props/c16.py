"""C16 - the generator translates any well-formed message definition faithfully."""
from __future__ import annotations

import builtins
import json
import re
import shutil

from .. import common, defgen, gentree


def parse_range(s):
    if s is None:
        return None
    if s == "none":
        return (1, 0)
    if s.endswith("+"):
        return (int(s[:-1]), 10**9)
    if "-" in s:
        a, b = s.split("-", 1)
        return (int(a), int(b))
    return (int(s), int(s))


def inr(rng, v):
    return rng is not None and rng[0] <= v <= rng[1]


def snake(name):
    # the naming convention, written independently of codegen/case.py
    out = []
    for i, ch in enumerate(name):
        prev = name[i - 1] if i else ""
        nxt = name[i + 1] if i + 1 < len(name) else ""
        if i and ch.isupper() and (prev.islower() or ((prev.isupper() or prev.isdigit()) and nxt.islower())):
            out.append("_")
        out.append(ch.lower())
    s = "".join(out)
    return s + "_" if s in dir(builtins) else s


TIME_D = {"timeoutMs", "TimeoutMs", "ThrottleTimeMs", "MaxWaitMs", "SessionLifetimeMs", "TransactionTimeoutMs", "MaxLifetimeMs",
          "SessionTimeoutMs", "RebalanceTimeoutMs", "ExpiryTimePeriodMs", "RenewPeriodMs", "RetentionTimeMs", "HeartbeatIntervalMs",
          "PushIntervalMs"}
TIME_T = {"IssueTimestampMs", "ExpiryTimestampMs", "MaxTimestampMs", "TransactionStartTimeMs", "LogAppendTimeMs"}
NUMERIC = {"int8", "int16", "int32", "int64", "uint16", "uint32", "uint64", "float64"}
PRIM = set(defgen.PRIMS) | {"error_code", "timedelta_i32", "timedelta_i64", "datetime_i64"}


def expected_module(d, v):
    """An independent reading of the definition: class name -> list of expected field facts."""
    commons = {c["name"]: c for c in d.get("commonStructs", [])}
    flexible = inr(parse_range(d["flexibleVersions"]), v)
    out = {}

    def visit(name, fields):
        if name in out:
            return
        exp = []
        for f in fields:
            versions = parse_range(f.get("versions", f.get("taggedVersions")))
            if not inr(versions, v):
                continue
            ty = f["type"]
            nm = f["name"]
            if nm in ("ErrorCode", "PartitionErrorCode"):
                ty = "error_code"
            if nm in TIME_D:
                ty, nm = ("timedelta_i32" if ty == "int32" else "timedelta_i64"), nm[:-2]
            elif nm in TIME_T:
                ty, nm = "datetime_i64", nm[:-2]
            tag = f.get("tag") if inr(parse_range(f.get("taggedVersions")), v) else None
            nullable_v = inr(parse_range(f.get("nullableVersions")), v)
            fact = {"name": snake(nm), "tag": tag}
            if ty in PRIM:
                fact["kind"] = "prim"; fact["kafka"] = ty
                fact["optional"] = (ty not in NUMERIC) and (
                    (tag is not None and f.get("ignorable", False) and f.get("default") is None) or nullable_v
                    or (ty == "datetime_i64" and f.get("default") == "-1")) or (ty == "uuid" and "entityType" not in f)
            elif ty.startswith("[]") and ty[2:] in PRIM:
                fact["kind"] = "primarr"; fact["kafka"] = ty[2:]; fact["optional"] = False
            else:
                arr = ty.startswith("[]")
                sname = ty[2:] if arr else ty
                sub = f.get("fields")
                if sub is None:
                    sub = commons[sname]["fields"]
                    inline = False
                else:
                    inline = True
                visit(sname, sub)
                fact["kind"] = "structarr" if arr else "struct"; fact["struct"] = sname
                members = [m for m in sub if inr(parse_range(m.get("versions", m.get("taggedVersions"))), v)]
                if inline and not arr and tag is not None and "default" not in f and not nullable_v and members and all("default" in m for m in sub):
                    # (all members of ALL versions: the generator's test is not version-filtered - a documented oddity, DESIGN section 5)
                    fact["_default_is_struct_of_member_defaults"] = True      # "defaults as the definition states"
                fact["optional"] = nullable_v if (arr or inline) else False
            exp.append(fact)
        out[name] = exp

    visit(d["name"], d["fields"])
    # a class is emitted after the classes it refers to; only the set matters here
    return out, flexible


def observed_fact(f):
    a = f["ann"]
    fact = {"name": f["name"], "tag": f["metadata"].get("tag")}
    opt = False
    if isinstance(a, list) and a[0] == "union" and a[-1] == "None":
        opt, a = True, a[1]
    if isinstance(a, str):
        fact.update(kind="prim", kafka=f["metadata"].get("kafka_type"), optional=opt)
    elif isinstance(a, dict):
        fact.update(kind="struct", struct=a["class"].split(":")[1], optional=opt)
    elif a[0] == "tuple" and isinstance(a[1], dict):
        fact.update(kind="structarr", struct=a[1]["class"].split(":")[1], optional=opt)
    elif a[0] == "tuple":
        fact.update(kind="primarr", kafka=f["metadata"].get("kafka_type"), optional=opt)
    else:
        fact.update(kind="?")
    return fact


def _read_def(path):
    """a definition file as written below: JSON with whole-line // comments"""
    return json.loads("\n".join(ln for ln in path.read_text().split("\n") if not ln.lstrip().startswith("//")))


def run(ctx):
    quick = ctx["tier"] == "quick"
    g = defgen.DefGen(ctx["seed"])
    defs = []
    n_fam = 40 if quick else 400
    corpus = common.VERIF / "corpus" / "c16_defs.json"
    if corpus.exists():
        defs += json.loads(corpus.read_text())
    defs += defgen.systematic(ctx["tier"] == "thorough")
    for i in range(n_fam):
        defs += g.definition(i)
    scratch = ctx["build"] / f"c16_{ctx['seed']}_{ctx['tier']}"
    ddir = scratch / "defs"
    if scratch.exists():
        shutil.rmtree(scratch)
    ddir.mkdir(parents=True)
    # the files are written the way upstream writes them: a licence header and version-history notes as // comment lines
    # (which the generator strips before parsing), and "about" texts on messages and fields - some citing a URL, so that
    # "//" also occurs INSIDE JSON strings, where it is not a comment
    import random as _random
    dr = _random.Random(ctx["seed"] * 7919 + 17)
    ABOUTS = ["The broker ID.", "See https://kafka.apache.org/protocol#protocol_messages for details.", "The topic name (or null).",
              "Duration in ms; -1 means none.", "Either http://host:port or a bare host // legacy form.", "Each entry: key=value."]
    LICENCE = ["// Licensed to the Apache Software Foundation (ASF) under one or more", "// contributor license agreements.  See https://www.apache.org/licenses/LICENSE-2.0",
               "//", "// Unless required by applicable law or agreed to in writing, software"]

    def with_abouts(fields):
        out = []
        for f in fields:
            f = dict(f)
            if dr.random() < 0.3:
                f["about"] = dr.choice(ABOUTS)
            if "fields" in f:
                f["fields"] = with_abouts(f["fields"])
            out.append(f)
        return out

    for d in defs:
        dd = dict(d, fields=with_abouts(d["fields"]))
        if "commonStructs" in dd:
            dd["commonStructs"] = [dict(c, fields=with_abouts(c["fields"])) for c in dd["commonStructs"]]
        if dr.random() < 0.5:
            dd["about"] = dr.choice(ABOUTS)
        lines = json.dumps(dd, indent=1).split("\n")
        text = []
        if dr.random() < 0.7:
            text += LICENCE + [""]
        for ln in lines:
            if dr.random() < 0.04:
                text.append(" " * dr.choice([0, 2, 6]) + dr.choice(["// Version 1 adds this field.", "//", "// Versions 2+ are flexible; see https://cwiki.apache.org/KIP-482"]))
            text.append(ln)
        (ddir / f"{d['name']}.json").write_text("\n".join(text) + "\n")
    viol = []
    src, err = gentree.build(ddir, scratch / "tree")
    canon = None
    if src is None:
        # which definition? each file through the tree's own parser alone (cheap), to name the failing input
        import subprocess
        probe = ("import sys, pathlib, json\nsys.path.insert(0, %r)\nimport codegen.parser as p\nbad = {}\n"
                 "for f in sorted(pathlib.Path(%r).glob('*.json')):\n"
                 "    try:\n        p.parse_file(f)\n    except BaseException as e:\n        bad[f.name] = type(e).__name__ + ': ' + str(e)[:200]\n"
                 "print(json.dumps(bad))\n") % (str(common.REPO), str(ddir))
        culprits = {}
        try:
            pr = subprocess.run([common.PY, "-c", probe], capture_output=True, text=True, timeout=600, env=common.child_env(), cwd=str(scratch))
            culprits = json.loads(pr.stdout.strip().splitlines()[-1]) if pr.returncode == 0 and pr.stdout.strip() else {}
        except Exception:  # noqa
            culprits = {}
        v = {"kind": "property" if culprits else "correspondence", "what": "the generator failed on a well-formed definition set",
             "detail": err[-2500:], "failing_input_found": bool(culprits)}
        if culprits:
            first = sorted(culprits)[0]
            v["definitions_rejected_by_the_parser"] = dict(list(sorted(culprits.items()))[:5])
            v["definition_file"] = (ddir / first).read_text()[:3000]
        viol.append(v)
    else:
        ok, out = gentree.canonical(src, scratch / "canon.json")
        if not ok:
            viol.append({"kind": "correspondence", "what": "the generated package cannot be imported", "detail": out[-2500:],
                         "failing_input_found": False})
        else:
            canon = json.loads((scratch / "canon.json").read_text())
    cases, prop_bad, meta = [], [], []
    n_modules = 0
    if canon is not None:
        by_module = {}
        for key, c in canon["classes"].items():
            by_module.setdefault(key.split(":")[0], {})[key] = c
        for d in defs:
            pkg = snake(d["name"])
            for suf in ("_response", "_request"):
                if pkg.endswith(suf):
                    pkg = pkg[: -len(suf)]
            lo, hi = parse_range(d["validVersions"])
            for v in range(lo, hi + 1):
                n_modules += 1
                mod = f"kio.schema.{pkg}.v{v}.{d['type']}"
                classes = by_module.get(mod, {})
                try:
                    terms = [defgen.g_class(k, c) for k, c in classes.items()]
                    expect = "(Some [" + "; ".join(terms) + "])" if classes else "None"
                except defgen.NotExpressible as e:
                    prop_bad.append({"definition": d["name"], "version": v, "what": f"generated class outside the model: {e}"})
                    continue
                cases.append(f"{{| g_def := {defgen.coq_defn(d)}; g_version := {defgen.cz(v)}; g_package := {defgen.cstr(pkg)}; "
                             f"g_expect := {expect} |}}")
                meta.append((d["name"], v))
                # the property, evaluated on the generated classes by an independent reading
                exp, flexible = expected_module(d, v)
                got = {k.split(":")[1]: c for k, c in classes.items()}
                if set(exp) != set(got):
                    prop_bad.append({"definition": d["name"], "version": v, "what": "classes of the module differ from the structures "
                                     "visible in that version", "expected": sorted(exp), "generated": sorted(got)})
                    continue
                for cname, facts in exp.items():
                    c = got[cname]
                    obs = [observed_fact(f) for f in c["fields"]]
                    for fct, fobs in zip(facts, c["fields"]):
                        if fct.pop("_default_is_struct_of_member_defaults", False) and fct["name"] == fobs["name"]:
                            dv = fobs.get("default")
                            nested = got.get(fct["struct"])
                            want_fields = None if nested is None else [m["default"] for m in nested["fields"]]
                            if not (isinstance(dv, dict) and dv.get("instance_of", "").endswith(":" + fct["struct"]) and dv.get("fields") == want_fields):
                                prop_bad.append({"definition": d["name"], "version": v, "class": cname, "field": fobs["name"],
                                                 "what": "every member of this tagged struct has a default in the definition, so the field's default "
                                                         "is the struct of the member defaults", "generated_default": dv, "member_defaults": want_fields})
                    facts = [{k: x for k, x in fct.items() if not k.startswith("_")} for fct in facts]
                    if obs != facts:
                        diff = [(o, e) for o, e in zip(obs, facts) if o != e][:2] or [("field count", len(obs), len(facts))]
                        prop_bad.append({"definition": d["name"], "version": v, "class": cname,
                                         "what": "fields differ from the definition's fields valid for this version",
                                         "first_differences": diff})
                    if c["flexible"] != flexible or c["version"] != v:
                        prop_bad.append({"definition": d["name"], "version": v, "class": cname, "what": "flexibility/version differ"})
                    if d["type"] in ("request", "response"):
                        if c["api_key"] != d["apiKey"]:
                            prop_bad.append({"definition": d["name"], "version": v, "class": cname, "what": "api key differs"})
                        hv = ((0 if (d["apiKey"] == 7 and v == 0) else 2 if flexible else 1) if d["type"] == "request"
                              else (0 if d["apiKey"] == 18 else 1 if flexible else 0))
                        want = f"kio.schema.{d['type']}_header.v{hv}.header:{d['type'].capitalize()}Header"
                        if c["header"] != want:
                            prop_bad.append({"definition": d["name"], "version": v, "class": cname, "what": f"header {c['header']} != {want}"})
        # the generated index lists exactly the generated modules
        listed = {p.split(":")[0] for vm in canon["schema_name_map"].values() for tm in vm.values() for p in tm.values()}
        generated = {k.split(":")[0] for k, c in canon["classes"].items() if c["type"] != "nested"}
        gen_new = {m for m in generated if not m.startswith("kio.schema.request_header") and not m.startswith("kio.schema.response_header")}
        if not gen_new <= listed or not (listed - generated) == set():
            prop_bad.append({"what": "the generated index does not list exactly the generated modules",
                             "unlisted": sorted(gen_new - listed)[:5], "stale": sorted(listed - generated)[:5]})
    # wire: instances of the generated classes, encoded by kio inside the overlay, vs the model
    # encoder over the plans read off the definition (which must be well-formed)
    wire_failing, wire_cases, wire_meta, outside_wf = [], [], [], set()
    if canon is not None and src is not None:
        import subprocess
        from ..values import from_json, to_coq, coq_bytes
        mods = sorted({m for m in by_module if m.split(".")[2] not in ("request_header", "response_header")})
        env = common.child_env()
        env["PYTHONPATH"] = str(src)
        p = subprocess.run([common.PY, str(common.VERIF / "harness" / "c16_worker.py")],
                           input=json.dumps({"modules": mods, "seed": ctx["seed"], "per_class": 3}),
                           capture_output=True, text=True, env=env, timeout=900)
        if p.returncode != 0:
            viol.append({"kind": "correspondence", "what": "instances of generated classes could not be built/encoded",
                         "detail": p.stderr[-2000:], "failing_input_found": False})
        else:
            dmap = {}
            for dd in defs:
                pkg = snake(dd["name"])
                for suf in ("_response", "_request"):
                    if pkg.endswith(suf):
                        pkg = pkg[: -len(suf)]
                dmap[(pkg, dd["type"])] = dd
            for rec in json.loads(p.stdout):
                parts = rec["module"].split(".")
                dd = dmap.get((parts[2], parts[4]))
                if dd is None:
                    continue
                v = int(parts[3][1:])
                enc = rec["enc"]
                bytes_term = f"(Ok {coq_bytes(bytes.fromhex(enc[1]))})" if enc[0] == "ok" else f"(Err {enc[1] if not enc[1].startswith('Other') else 'EAssert'})"
                wire_cases.append(f"{{| wc_def := {defgen.coq_defn(dd)}; wc_version := {defgen.cz(v)}; wc_class := {defgen.cstr(rec['qualname'])}; "
                                  f"wc_val := {to_coq(from_json(rec['value']))}; wc_bytes := {bytes_term} |}}")
                wire_meta.append((dd["name"], v, rec["qualname"], rec["value"], enc))
    failing = []
    if wire_cases:
        blt0 = "[" + "; ".join(defgen.cstr(b) for b in sorted(dir(builtins))) + "]"
        per = 400
        import subprocess
        procs = []
        for n, start in enumerate(range(0, len(wire_cases), per)):
            nm = f"CorrC16w_{ctx['seed']}_{n}"
            (ctx["build"] / f"{nm}.v").write_text(
                "From Coq Require Import ZArith List Bool String.\nFrom KioV Require Import Base.Res Codec.Value Gen.Gen Gen.GenCheck.\n"
                "Import ListNotations.\nOpen Scope string_scope.\n" f"Definition blt : list string := {blt0}.\n"
                "Definition cases : list wirecase := [\n" + ";\n".join(wire_cases[start:start + per]) + "\n].\n"
                "Eval vm_compute in wirecase_codes blt cases.\n")
            procs.append((nm, start, subprocess.Popen(["timeout", "1200", "coqc", *common.COQ_ARGS, "-Q", str(ctx["build"]), "KioG", f"{nm}.v"],
                                                      cwd=ctx["build"], stdout=subprocess.PIPE, stderr=subprocess.STDOUT, text=True)))
        for nm, start, p in procs:
            rc, out = common.coq_result(ctx["build"], nm, p)
            if rc != 0:
                viol.append({"kind": "correspondence", "what": "wire model does not evaluate", "detail": out[-1200:]})
            else:
                codes = [int(x) for x in re.findall(r"(?<![\w.])(\d)(?![\w.])", out.split(": list Z")[0].split("=", 1)[1])]
                if len(codes) != len(wire_cases[start:start + per]):
                    viol.append({"kind": "correspondence", "what": "wire model output not understood", "detail": out[-600:]})
                for i, c in enumerate(codes):
                    if c in (1, 2):
                        wire_failing.append(start + i)
                    elif c == 3:
                        outside_wf.add(wire_meta[start + i][:2])
            for ext in (".v", ".vo", ".vok", ".vos", ".glob"):
                (ctx["build"] / f"{nm}{ext}").unlink(missing_ok=True)
    if cases:
        blt = "[" + "; ".join(defgen.cstr(b) for b in sorted(dir(builtins))) + "]"
        text = ("From Coq Require Import ZArith List Bool String.\nFrom KioV Require Import Base.Res Gen.Gen Gen.GenCheck.\n"
                "Import ListNotations.\nOpen Scope string_scope.\n"
                f"Definition blt : list string := {blt}.\n"
                "Definition cases : list gcase := [\n" + ";\n".join(cases) + "\n].\n"
                "Eval vm_compute in gfailing_from blt 0 cases.\n")
        rc, out, dt = common.run_generated(ctx["build"], f"CorrC16_{ctx['seed']}", text, timeout=1500)
        if rc != 0:
            viol.append({"kind": "correspondence", "what": "generator model does not evaluate", "detail": out[-1500:]})
        else:
            failing = common.parse_nat_list(out)
    # how many (definition, version) modules are covered by the THEOREM defn_ok -> def_wf (Props/C16.v), and does the
    # boolean agree with the evaluated well-formedness
    thm = {"covered_by_theorem": 0, "wf_but_not_covered": 0, "neither": 0, "covered_but_not_wf": 0}
    if meta:
        pairs = []
        seen_dv = set()
        for d in defs:
            lo, hi = parse_range(d["validVersions"])
            for v in range(lo, hi + 1):
                if (d["name"], v) in seen_dv:
                    continue
                seen_dv.add((d["name"], v))
                try:
                    pairs.append(f"({defgen.coq_defn(d)}, {defgen.cz(v)})")
                except Exception:  # noqa
                    pass
        blt = "[" + "; ".join(defgen.cstr(b) for b in sorted(dir(builtins))) + "]"
        text = ("From Coq Require Import ZArith List Bool String.\nFrom KioV Require Import Base.Res Gen.Gen Gen.GenPlan Gen.GenWf.\n"
                "Import ListNotations.\nOpen Scope string_scope.\n"
                f"Definition blt : list string := {blt}.\n"
                "Definition pairs : list (defn * Z) := [\n" + ";\n".join(pairs) + "\n].\n"
                "Definition tally (acc : Z * Z * Z * Z) (p : defn * Z) : Z * Z * Z * Z :=\n"
                "  match acc with (a, b, c, e) =>\n"
                "  match defn_ok blt (fst p) (snd p), def_wf blt (fst p) (snd p) with\n"
                "  | true, true => (a + 1, b, c, e) | false, true => (a, b + 1, c, e) | false, false => (a, b, c + 1, e)\n"
                "  | true, false => (a, b, c, e + 1) end end%Z.\n"
                "Eval vm_compute in fold_left tally pairs (0, 0, 0, 0)%Z.\n")
        rc3, out3, _ = common.run_generated(ctx["build"], f"CorrC16t_{ctx['seed']}", text, timeout=1500)
        m3 = re.search(r"\(\s*(\d+),\s*(\d+),\s*(\d+),\s*(\d+)\)", out3.replace("%Z", "")) if rc3 == 0 else None
        if not m3:
            viol.append({"kind": "correspondence", "what": "defn_ok / def_wf do not evaluate", "detail": out3[-1200:],
                         "failing_input_found": False})
        else:
            a, b, c, e = (int(x) for x in m3.groups())
            thm = {"covered_by_theorem": a, "wf_but_not_covered": b, "neither": c, "covered_but_not_wf": e}
            if e:   # impossible by c16_supported_definitions_are_well_formed
                viol.append({"kind": "theorem", "what": "defn_ok holds but def_wf does not: contradicts the theorem", "failing_input_found": False})
    if prop_bad:
        viol.append({"kind": "property", "what": "a generated module does not reflect its definition",
                     "failing_input_found": True, "n_failing": len(prop_bad), "cases": prop_bad[:4],
                     "definitions_dir": str(ddir)})
    elif wire_failing:
        viol.append({"kind": "correspondence", "observation": "C16: bytes kio encodes for instances of generated classes vs the model "
                     "encoder over the plans read off the definition (and their well-formedness)",
                     # the plans read off the definition ARE the independent reading of the wire clause (Gen/GenPlan.v, equal to the
                     # wire specification by c16_supported_definitions_encode_to_spec): each disagreement is an instance whose bytes
                     # are not the prescribed ones
                     "failing_input_found": True, "n_disagreements": len(wire_failing),
                     "cases": [{"definition": wire_meta[i][0], "version": wire_meta[i][1], "class": wire_meta[i][2],
                                "instance": wire_meta[i][3], "bytes_written_by_kio": str(wire_meta[i][4])[:300]} for i in wire_failing[:5]],
                     "definitions": [_read_def(ddir / f"{n}.json") for n in sorted({wire_meta[i][0] for i in wire_failing})[:2]]})
    elif failing:
        bad_defs = sorted({meta[i][0] for i in failing})[:3]
        viol.append({"kind": "correspondence", "observation": "C16: classes emitted by codegen vs Gen/Gen.v gen_module",
                     "failing_input_found": False, "n_disagreements": len(failing),
                     "cases": [{"definition": meta[i][0], "version": meta[i][1]} for i in failing[:5]],
                     "definitions": [_read_def(ddir / f"{n}.json") for n in bad_defs][:2]})
    shutil.rmtree(scratch / "tree", ignore_errors=True)
    cov = {
        "programs": len(defs), "evaluations": n_modules, "distinct_nontrivial": n_modules,
        "traces_validated_against_impl": len(cases) - len(failing),
        "rule": "seeded random well-formed definitions (request/response pairs, headers, data; primitive, array, inline struct, "
                "nested, common-struct fields; every version-range spelling; nullable/tagged/flexible versions; defaults in "
                "several spellings; entityType; special time/error names) + the corner-case corpus, run through the tree's "
                "generator; every (definition, version) module compared with the Gallina model and with an independent reading",
        "feature_counts": g.stats, "wire_cases": len(wire_cases), "wire_disagreements": len(wire_failing),
        "modules_outside_wf_env": len(outside_wf),
        "well_formedness_by_theorem": thm,
        "samples": [defs[0]] if defs else [],
        "property_failures_on_implementation": len(prop_bad), "correspondence_disagreements": len(failing),
    }
    return {"violations": viol, "coverage": cov}
