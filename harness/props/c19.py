"""C19 - readers and writers are stateless: history, failures and threads do not matter."""
import ast
import json
import subprocess

from .. import codec_corr as cc
from .. import common
from ..values import describe, to_json, to_py
from . import _codec


def worker(ctx, spec, flags=(), env_extra=None, cwd=None):
    spec = dict(spec, classes=ctx["c19_classes"])
    env = common.child_env()
    env.update(env_extra or {})
    p = subprocess.run([common.PY, *flags, str(common.VERIF / "harness" / "c19_worker.py"), str(ctx["build"])],
                       input=json.dumps(spec), capture_output=True, text=True, env=env, timeout=900, cwd=cwd)
    if p.returncode != 0:
        raise RuntimeError(p.stderr[-2000:])
    return json.loads(p.stdout)


def static_scan():
    """module-level mutable objects and closure-captured mutable objects in the codec modules"""
    findings = []
    for name in ("_parse.py", "_serialize.py", "writers.py", "readers.py", "_implicit_defaults.py", "_introspect.py"):
        path = common.REPO / "src" / "kio" / "serial" / name
        tree = ast.parse(path.read_text())
        for node in tree.body:
            if isinstance(node, (ast.Assign, ast.AnnAssign)):
                val = node.value
                if isinstance(val, (ast.List, ast.Dict, ast.Set, ast.ListComp, ast.DictComp, ast.SetComp)):
                    findings.append(f"{name}:{node.lineno} module-level mutable literal")
                if isinstance(val, ast.Call) and isinstance(val.func, (ast.Name, ast.Attribute)):
                    fn = val.func.id if isinstance(val.func, ast.Name) else val.func.attr
                    if fn in ("BytesIO", "dict", "list", "set", "bytearray", "defaultdict", "deque"):
                        findings.append(f"{name}:{node.lineno} module-level {fn}()")
        for fn in ast.walk(tree):
            if isinstance(fn, ast.FunctionDef):
                inner = [n for n in fn.body if isinstance(n, ast.FunctionDef)]
                if not inner:
                    continue
                for st in fn.body:
                    if isinstance(st, ast.Assign) and isinstance(st.value, ast.Call):
                        f = st.value.func
                        nm = f.id if isinstance(f, ast.Name) else getattr(f, "attr", "")
                        if nm in ("BytesIO", "bytearray", "list", "set"):
                            findings.append(f"{name}:{st.lineno} {nm}() created in {fn.name} outside the per-call closure")
    return findings


def run(ctx):
    classes, n_schema, gen = _codec.setup(ctx)
    r = gen.r
    quick = ctx["tier"] == "quick"
    tagged = [i for i in range(n_schema) if any(d.tag is not None for d in describe(classes[i]))]
    others = [i for i in range(n_schema) if i not in set(tagged)]
    # classes with SEVERAL tagged fields first (state left behind inside a tagged section needs a second entry to fail on)
    multi = [i for i in tagged if sum(1 for d in describe(classes[i]) if d.tag is not None) >= 2]
    first = r.sample(multi, min(len(multi), 5 if quick else 11))
    rest_tagged = [i for i in tagged if i not in set(first)]
    pool = first + r.sample(rest_tagged, min(len(rest_tagged), 9 if quick else 30)) + r.sample(others, 10 if quick else 60)
    # values: for classes with tagged fields force non-default tagged values
    vals = {}
    for i in pool:
        vs = []
        for k in range(2):
            v = gen.entity(classes[i])
            if i in tagged and k == 0:
                for tries in range(6):
                    v = gen.entity(classes[i], want_default=False if tries < 3 else None)
                    enc = cc.impl_encode(classes[i], to_py(classes[i], v))
                    if enc[0] == "ok" and enc[1][-1:] != b"\x00":
                        break
            vs.append(v)
        vals[i] = vs
    # reference: each (class, value) in a cold interpreter that touches nothing else first
    from concurrent.futures import ThreadPoolExecutor
    ctx["c19_classes"] = {str(i): [classes[i].__module__, classes[i].__qualname__] for i in pool}
    ref = {}
    bad = []
    with ThreadPoolExecutor(12) as ex:
        outs = list(ex.map(lambda i: worker(ctx, {"ops": [["w", i, to_json(v)] for v in vals[i]]}), pool))
    for i, out in zip(pool, outs):
        for k, o in enumerate(out):
            ref[(i, k)] = o
    def corrupt(v):
        """an ill-typed variant: the LAST integer leaf becomes too large for any integer type, or the
        last string leaf becomes null (so that an encode fails part-way, after earlier writes)"""
        path = []

        def walk(x, p):
            if x[0] in ("arr", "ent"):
                for k, y in enumerate(x[1]):
                    walk(y, p + [k])
            elif x[0] in ("int", "str"):
                path.append(p)
        walk(v, [])
        if not path:
            return None

        def rebuild(x, p):
            if not p:
                return ("int", 2**70) if x[0] == "int" else ("int", 2**70)
            items = list(x[1])
            items[p[0]] = rebuild(items[p[0]], p[1:])
            return (x[0], items)
        return rebuild(v, path[-1])

    bad_vals = {i: corrupt(vals[i][0]) for i in pool}
    n_ops = 0
    # (i) histories in fresh interpreters
    n_hist = 12 if quick else 120
    hist_jobs = []
    for h in range(n_hist):
        ops, expect = [], []
        cs = r.sample(pool, r.randint(6, min(12, len(pool))))
        for _ in range(r.randint(20, 60)):
            i = r.choice(cs)
            c = r.random()
            if c < 0.15:
                ops.append(["mkw", i, r.random() < 0.3]); expect.append(None)
            elif c < 0.3:
                ops.append(["mkr", i, r.random() < 0.3]); expect.append(None)
            elif c < 0.6:
                k = r.randrange(2)
                ops.append(["w", i, to_json(vals[i][k])]); expect.append(("w", i, k))
            elif c < 0.8:
                k = r.randrange(2)
                if ref[(i, k)][0] == "ok":
                    ops.append(["r", i, ref[(i, k)][1]]); expect.append(("r", i, k))
            elif c < 0.9:
                k = r.randrange(2)
                if ref[(i, k)][0] == "ok":
                    nw = ref[(i, k)][2]
                    ops.append(["w", i, to_json(vals[i][k]), r.randrange(max(nw, 1))]); expect.append(("wf", i, k))
            elif bad_vals[i] is not None:
                ops.append(["w", i, to_json(bad_vals[i])]); expect.append(None)      # fails because of the value
        hist_jobs.append((h, ops, expect))
    with ThreadPoolExecutor(12) as ex:
        hist_outs = list(ex.map(lambda j: worker(ctx, {"ops": j[1]}), hist_jobs))
    for (h, ops, expect), out in zip(hist_jobs, hist_outs):
        n_ops += len(ops)
        for op, ex, o in zip(ops, expect, out):
            if ex is None:
                continue
            kind, i, k = ex
            want = ref[(i, k)]
            if kind == "w" and o[:2] != want[:2]:
                bad.append({"what": "encoding differs from the cold-interpreter result", "class": _codec.cls_name(classes, i),
                            "history": h, "got": o[:2], "expected": want[:2], "history_ops": len(ops)})
            if kind == "wf" and not (o[0] == "fault" and want[1].startswith(o[1])):
                bad.append({"what": "a faulted write did not leave a prefix of the fault-free bytes in the sink",
                            "class": _codec.cls_name(classes, i), "got": o, "expected_prefix_of": want[1][:200]})
            if kind == "r":
                if not (o[0] == "ok" and o[1] == to_json(vals[i][k]) and o[4]):
                    bad.append({"what": "decoding differs from the original value", "class": _codec.cls_name(classes, i),
                                "history": h, "got": str(o)[:300]})
    # (ii) a fault at every stream call, then the same cached closure reused
    fault_classes = pool[: (8 if quick else 40)]
    # a third value per class with every tagged field absent (all defaults): what a reader that kept something
    # from an aborted call would get wrong
    dflt_vals = {i: gen.entity(classes[i], want_default=True) for i in fault_classes}

    def sweep(i):
        n = 0
        for k in range(2):
            want = ref[(i, k)]
            if want[0] != "ok":
                continue
            nw = want[2]
            ops = []
            for j in range(nw):
                ops.append(["w", i, to_json(vals[i][k]), j])
                ops.append(["w", i, to_json(vals[i][k])])
                ops.append(["w", i, to_json(vals[i][1 - k])])
            if bad_vals[i] is not None:
                for _ in range(2):
                    ops.append(["w", i, to_json(bad_vals[i])])
                    ops.append(["w", i, to_json(vals[i][k])])
                    ops.append(["w", i, to_json(vals[i][1 - k])])
            data = want[1]
            # reader faults: at every read call
            probe = worker(ctx, {"ops": [["r", i, data]]})[0]
            nr = probe[3] if probe[0] == "ok" else 0
            denc = worker(ctx, {"ops": [["w", i, to_json(dflt_vals[i])]]})[0]
            for j in range(nr):
                ops.append(["r", i, data, j])
                if denc[0] == "ok":
                    ops.append(["r", i, denc[1], None, "dflt"])      # a DIFFERENT message next: retrying the same one masks leftovers
                ops.append(["r", i, data])
            out = worker(ctx, {"ops": ops})
            n += len(ops)
            for op, o in zip(ops, out):
                if o and o[0] == "touched-sink":
                    bad.append({"what": f"a writer used the caller's stream other than through write(): {o[1]} (the call ended: {o[2]})",
                                "class": _codec.cls_name(classes, i), "value": str(op[2])[:300]})
                    continue
                faulted = len(op) > 3 and op[3] is not None
                if op[0] == "w" and bad_vals[i] is not None and op[2] == to_json(bad_vals[i]):
                    continue                      # expected to fail; what matters is what follows
                if op[0] == "w":
                    kk = k if op[2] == to_json(vals[i][k]) else 1 - k
                    w2 = ref[(i, kk)]
                    if faulted:
                        if not (o[0] == "fault" and w2[1].startswith(o[1])):
                            bad.append({"what": "faulted write left something else than a prefix", "class": _codec.cls_name(classes, i),
                                        "fault_at_write": op[3], "got": o})
                    elif o[:2] != w2[:2]:
                        bad.append({"what": "encoding after an earlier failed call differs from the fault-free encoding",
                                    "class": _codec.cls_name(classes, i), "got": o[1][:300], "expected": w2[1][:300],
                                    "value": op[2]})
                elif len(op) > 4 and op[4] == "dflt":
                    if not (o[0] == "ok" and o[1] == to_json(dflt_vals[i])):
                        bad.append({"what": "decoding an all-default message after an earlier failed call differs", "class": _codec.cls_name(classes, i),
                                    "got": str(o)[:300], "expected": str(to_json(dflt_vals[i]))[:300]})
                else:
                    if not faulted and not (o[0] == "ok" and o[1] == to_json(vals[i][k])):
                        bad.append({"what": "decoding after an earlier failed call differs", "class": _codec.cls_name(classes, i),
                                    "got": str(o)[:300]})
        return n

    with ThreadPoolExecutor(12) as ex:
        n_ops += sum(ex.map(sweep, fault_classes))
    # (iii) threads: cold-cache creation and use from 8 threads at once
    n_thr_runs = 10 if quick else 80
    for t in range(n_thr_runs):
        cs = r.sample(pool, 5)
        per_thread = []
        reads_first = t % 2 == 1      # cold start: every thread's FIRST operation is a decode (lazily built tables, first imports)
        for _ in range(8):
            ops = []
            order = r.sample(cs, len(cs))
            if reads_first:
                for i in order:
                    if ref[(i, 0)][0] == "ok":
                        ops.append(["r", i, ref[(i, 0)][1]])
            for i in order:
                ops.append(["w", i, to_json(vals[i][0])])
                if ref[(i, 0)][0] == "ok" and not reads_first:
                    ops.append(["r", i, ref[(i, 0)][1]])
                ops.append(["w", i, to_json(vals[i][1])])
            per_thread.append(ops)
        out = worker(ctx, {"threads": 8, "per_thread": per_thread})
        for ops, res in zip(per_thread, out):
            n_ops += len(ops)
            for op, o in zip(ops, res):
                i = op[1]
                if op[0] == "w":
                    kk = 0 if op[2] == to_json(vals[i][0]) else 1
                    if o[:2] != ref[(i, kk)][:2]:
                        bad.append({"what": "concurrent encoding differs from the single-threaded cold result",
                                    "class": _codec.cls_name(classes, i), "got": o[:2]})
                elif not (o[0] == "ok" and o[1] == to_json(vals[i][0])):
                    bad.append({"what": "concurrent decoding differs", "class": _codec.cls_name(classes, i), "got": str(o)[:200]})
    # (iii-b) the interpreter's environment: the same operations (valid, truncated and corrupted messages) under
    # interpreter flags and settings that change nothing a correct program depends on
    env_ops = []
    for i in pool[:12]:
        for k in range(2):
            if ref[(i, k)][0] != "ok":
                continue
            data = ref[(i, k)][1]
            env_ops.append(["w", i, to_json(vals[i][k])])
            env_ops.append(["r", i, data])
            env_ops.append(["r", i, data[: max(0, len(data) - 2 - (len(data) % 4))]])
            raw = bytearray(bytes.fromhex(data))
            for pos in (0, len(raw) // 2, len(raw) - 1):
                if raw:
                    b2 = bytearray(raw); b2[pos] ^= 0xFF
                    env_ops.append(["r", i, bytes(b2).hex()])
        if bad_vals[i] is not None:
            env_ops.append(["w", i, to_json(bad_vals[i])])
    ENVS = [("python -O", ["-O"], {}, None), ("python -OO", ["-OO"], {}, None), ("python -X dev", ["-X", "dev"], {}, None),
            ("LC_ALL=C PYTHONUTF8=0", [], {"LC_ALL": "C", "LANG": "C", "PYTHONUTF8": "0"}, None),
            ("PYTHONHASHSEED=12345", [], {"PYTHONHASHSEED": "12345"}, None), ("cwd=/", [], {}, "/"),
            ("python -I -S is not used; PYTHONOPTIMIZE=2", [], {"PYTHONOPTIMIZE": "2"}, None)]
    base_out = worker(ctx, {"ops": env_ops})
    n_env = 0
    for label, flags, extra, cwd in (ENVS if not quick else ENVS[:5]):
        try:
            out = worker(ctx, {"ops": env_ops}, flags=flags, env_extra=extra, cwd=cwd)
        except Exception as e:  # noqa
            bad.append({"what": f"the worker does not run under {label}", "detail": str(e)[-300:]})
            continue
        n_env += len(env_ops)
        for op, a, b in zip(env_ops, base_out, out):
            if a != b:
                bad.append({"what": f"the result differs under {label}", "class": _codec.cls_name(classes, op[1]), "operation": op[0],
                            "default_environment": str(a)[:200], "this_environment": str(b)[:200]})
                break
    n_ops += n_env
    # (iv) deterministic line-level schedules: two threads, cold caches, at most two preemptions at
    # chosen traced lines of kio/serial/*.py (both build and use writer+reader of classes with
    # tagged fields; same class and different classes)
    n_sched = 0
    sched_pairs = []
    tg = [i for i in pool if i in tagged and ref[(i, 0)][0] == "ok"][: (3 if quick else 8)]
    for a in tg:
        for b in ([a] + [x for x in tg if x != a][:1]):
            sched_pairs.append((a, b))
    grid = [i / 10 for i in range(1, 10)] if quick else [i / 24 for i in range(1, 24)]
    scheds = [(p0, p1) for p0 in grid for p1 in grid][:: (3 if quick else 1)]

    def run_pair(pair):
        a, b = pair
        spec = {"jobs": [[a, to_json(vals[a][0]), ref[(a, 0)][1]], [b, to_json(vals[b][1] if ref[(b, 1)][0] == "ok" else vals[b][0]),
                                                                    ref[(b, 1)][1] if ref[(b, 1)][0] == "ok" else ref[(b, 0)][1]]],
                "schedules": scheds, "classes": ctx["c19_classes"]}
        p = subprocess.run([common.PY, str(common.VERIF / "harness" / "sched_worker.py")], input=json.dumps(spec),
                           capture_output=True, text=True, env=common.child_env(), timeout=1500)
        if p.returncode != 0:
            return pair, None, p.stderr[-1500:]
        return pair, json.loads(p.stdout), ""

    with ThreadPoolExecutor(8) as ex:
        sched_out = list(ex.map(run_pair, sched_pairs))
    sched_steps = []
    for (a, b), out, err in sched_out:
        if out is None:
            bad.append({"what": "deterministic scheduler failed to run", "detail": err})
            continue
        sched_steps.append(out["steps"])
        kb = 1 if ref[(b, 1)][0] == "ok" else 0
        want = [[ref[(a, 0)][1], to_json(vals[a][0]), True], [ref[(b, kb)][1], to_json(vals[b][kb]), True]]
        for sc, res in zip([None] + scheds, [out["base"]] + out["results"]):
            n_sched += 1
            if res != want:
                bad.append({"what": "a two-thread schedule with preemptions inside kio.serial changed a result",
                            "classes": [_codec.cls_name(classes, a), _codec.cls_name(classes, b)],
                            "schedule_fraction_of_traced_lines": sc, "got": str(res)[:400]})
    n_ops += n_sched * 4
    # tie to the pure model: the cold results are what Coq's encoder computes
    model_cases = []
    for (i, k), o in ref.items():
        enc = ("ok", bytes.fromhex(o[1])) if o[0] == "ok" else ("err", o[1], b"")
        data = enc[1] if enc[0] == "ok" else b""
        model_cases.append({"cls": i, "val": vals[i][k], "enc": enc, "input": data, "dec": cc.impl_decode(classes[i], data)})
    failing, errors = cc.run_coq_cases(ctx["build"], "C19", model_cases)
    static = static_scan()
    viol = []
    if errors:
        viol.append({"kind": "correspondence", "what": "model evaluation failed", "detail": errors[:2]})
    if bad:
        bad.sort(key=lambda b: len(str(b)))
        viol.append({"kind": "property", "what": "the result of encoding/decoding depends on history, an earlier failure or other threads",
                     "failing_input_found": True, "n_failing": len(bad), "cases": bad[:4], "static_scan": static})
    elif failing:
        viol.append({"kind": "correspondence", "observation": "C19: cold-interpreter results vs the pure model (check_case)",
                     "failing_input_found": False, "n_disagreements": len(failing)})
    cov = {
        "evaluations": n_ops, "distinct_nontrivial": n_hist + 2 * len(fault_classes) + n_thr_runs,
        "traces_validated_against_impl": len(model_cases) - len(failing),
        "rule": "fresh-interpreter histories (ENVIRONMENT: the same valid/truncated/corrupted operations under python -O, -OO, -X dev, LC_ALL=C, another hash seed and working directory must give identical results; after every faulted read a DIFFERENT (all-default) message of the class is decoded; classes with several tagged fields come first; random orders of creating/using readers and writers of 6-12 classes incl. "
                "faulted writes) compared with cold single-class results; a stream fault at EVERY write call and every read "
                "call followed by reuse of the cached closure; 8 threads behind a barrier with a 1 us switch interval on a cold "
                "cache; two-thread deterministic schedules with two preemptions at traced lines of kio/serial (sys.settrace); distinct = number of distinct histories / fault sweeps / thread runs",
        "histories": n_hist, "fault_sweeps": 2 * len(fault_classes), "thread_runs": n_thr_runs,
        "deterministic_schedules": n_sched, "traced_lines_per_thread": sched_steps[:3],
        "classes_with_tagged_fields_in_pool": len([i for i in pool if i in tagged]),
        "static_scan_shared_mutable_state": static,
        "samples": [{"class": _codec.cls_name(classes, pool[0]), "value": to_json(vals[pool[0]][0])}],
        "property_failures_on_implementation": len(bad), "correspondence_disagreements": len(failing),
    }
    return {"violations": viol, "coverage": cov,
            "trusted_base": ["partial: preemption below source-line granularity, the GIL and functools.cache's C implementation are sampled, not modelled"]}
