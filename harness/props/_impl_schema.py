"""Implementation-side evaluation of the configuration properties, directly on the imported
classes of the tree under verification (independent of the translator and of Coq).  Used as the
replay of instance-theorem failures and as a cross-check of the translator + predicates: the
two verdicts must agree."""
from __future__ import annotations

import dataclasses
import importlib
import pkgutil
import re
import types
import typing


def walk():
    """-> list of (module, [classes defined there]) for kio.schema.<api>.v<N>.<type> modules."""
    import kio.schema

    mods = []

    def rec(parent):
        for pkg in pkgutil.walk_packages(parent.__path__):
            mod = importlib.import_module(f"{parent.__name__}.{pkg.name}")
            if pkg.ispkg:
                rec(mod)
            else:
                mods.append(mod)

    rec(kio.schema)
    out = []
    for mod in mods:
        if mod.__name__.count(".") < 3:
            continue
        cls = [v for k, v in mod.__dict__.items()
               if not k.startswith("__") and isinstance(v, type) and getattr(v, "__module__", None) == mod.__name__]
        out.append((mod, cls))
    return out


MOD_RE = re.compile(r"^kio\.schema\.([a-z0-9_]+)\.v(0|[1-9][0-9]*)\.(request|response|header|data)$")


def c14():
    from kio.static.constants import EntityType

    bad = []
    fam: dict[tuple[str, str], dict[int, tuple[bool, object]]] = {}
    key_of_api: dict[str, set] = {}
    for mod, classes in walk():
        m = MOD_RE.match(mod.__name__)
        if not m:
            bad.append(f"module path {mod.__name__}")
            continue
        api, ver, ty = m.group(1), int(m.group(2)), m.group(3)
        tops = [c for c in classes if getattr(c, "__type__", None) is not EntityType.nested]
        if len(tops) != 1:
            bad.append(f"{mod.__name__}: {len(tops)} top-level classes")
            continue
        top = tops[0]
        if top.__type__.name != ty:
            bad.append(f"{mod.__name__}: top-level class is a {top.__type__.name}")
        for c in classes:
            if (getattr(c, "__version__", None) != ver or getattr(c, "__flexible__", None) is not top.__flexible__
                    or getattr(c, "__api_key__", None) != getattr(top, "__api_key__", None)
                    or getattr(c, "__header_schema__", None) is not getattr(top, "__header_schema__", None)):
                bad.append(f"{mod.__name__}:{c.__qualname__} differs from its module's top-level class")
        fam.setdefault((api, ty), {})[ver] = (top.__flexible__, getattr(top, "__api_key__", None))
        key_of_api.setdefault(api, set()).add(getattr(top, "__api_key__", None) if ty in ("request", "response") else "n/a")
    keys_seen: dict[object, str] = {}
    for (api, ty), vs in fam.items():
        versions = sorted(vs)
        if versions != list(range(versions[0], versions[-1] + 1)):
            bad.append(f"family {api}:{ty} versions not contiguous: {versions}")
        flex = [vs[v][0] for v in versions]
        if any(a and not b for a, b in zip(flex, flex[1:])):
            bad.append(f"family {api}:{ty} flexibility reverts")
        if ty in ("request", "response"):
            ks = {vs[v][1] for v in versions}
            if len(ks) != 1 or None in ks:
                bad.append(f"family {api}:{ty} api key not constant: {ks}")
            other = fam.get((api, "response" if ty == "request" else "request"))
            if other is None or sorted(other) != versions:
                bad.append(f"family {api}: request and response versions differ")
            for k in ks:
                if k in keys_seen and keys_seen[k] != api:
                    bad.append(f"api key {k} used by {keys_seen[k]} and {api}")
                keys_seen[k] = api
    for api, ks in key_of_api.items():
        if len(ks - {"n/a"}) > 1:
            bad.append(f"api {api} has several keys {ks}")
    # what the version PACKAGE publishes (from kio.schema.<api>.v<N> import XRequest, XResponse) is the top-level class of the
    # sibling module of that version, the very object - and nothing else
    by_pkg: dict[str, dict[str, type]] = {}
    for mod, classes in walk():
        m = MOD_RE.match(mod.__name__)
        if not m:
            continue
        tops = [c for c in classes if getattr(c, "__type__", None) is not EntityType.nested]
        if len(tops) == 1:
            by_pkg.setdefault(mod.__name__.rsplit(".", 1)[0], {})[tops[0].__name__] = tops[0]
    for pkg_name, tops in by_pkg.items():
        pkg = importlib.import_module(pkg_name)
        published = {n: getattr(pkg, n, None) for n in getattr(pkg, "__all__", ())}
        for n, obj in published.items():
            if tops.get(n) is not obj:
                bad.append(f"{pkg_name}.{n} is {getattr(obj, '__module__', '?')}.{getattr(obj, '__qualname__', '?')}, "
                           f"not the top-level class of {pkg_name}'s own modules")
        for n in tops:
            if n not in published:
                bad.append(f"{pkg_name} does not publish {n}")
    return bad


def c08():
    from kio import index
    from kio.static.constants import EntityType

    bad = []
    n = 0
    for mod, classes in walk():
        m = MOD_RE.match(mod.__name__)
        if not m:
            continue
        api, ver, ty = m.group(1), int(m.group(2)), m.group(3)
        for c in classes:
            if ty in ("request", "response"):
                n += 1
                key, flexible = c.__api_key__, c.__flexible__
                if ty == "request":
                    hv = 0 if (key == 7 and ver == 0) else (2 if flexible else 1)
                    want = f"kio.schema.request_header.v{hv}.header"
                else:
                    hv = 0 if key == 18 else (1 if flexible else 0)
                    want = f"kio.schema.response_header.v{hv}.header"
                h = getattr(c, "__header_schema__", None)
                if h is None or h.__module__ != want or h.__version__ != hv:
                    bad.append(f"header {mod.__name__}:{c.__qualname__}: {getattr(h, '__module__', None)} expected {want}")
            if c.__type__ is EntityType.request:
                try:
                    r = index.load_response_from_request(c)
                    back = index.load_request_from_response(r)
                    if (r.__type__ is not EntityType.response or r.__api_key__ != c.__api_key__
                            or r.__version__ != c.__version__ or r.__flexible__ is not c.__flexible__ or back is not c):
                        bad.append(f"pairing {mod.__name__}:{c.__qualname__}")
                except Exception as e:  # noqa
                    bad.append(f"pairing {mod.__name__}:{c.__qualname__}: {type(e).__name__}")
            if c.__type__ is EntityType.response:
                try:
                    r = index.load_request_from_response(c)
                    back = index.load_response_from_request(r)
                    if (r.__type__ is not EntityType.request or r.__api_key__ != c.__api_key__
                            or r.__version__ != c.__version__ or r.__flexible__ is not c.__flexible__ or back is not c):
                        bad.append(f"pairing {mod.__name__}:{c.__qualname__}")
                except Exception as e:  # noqa
                    bad.append(f"pairing {mod.__name__}:{c.__qualname__}: {type(e).__name__}")
    return bad


def c15_static():
    bad = []
    import kio.records.schema as rs

    classes = [c for _, cs in walk() for c in cs]
    classes += [v for v in rs.__dict__.values() if isinstance(v, type) and v.__module__ == rs.__name__
                and dataclasses.is_dataclass(v)]
    for c in classes:
        if not dataclasses.is_dataclass(c):
            bad.append(f"{c.__module__}:{c.__qualname__} is not a dataclass")
            continue
        p = c.__dataclass_params__
        if not (p.frozen and p.eq and not p.order):
            bad.append(f"{c.__module__}:{c.__qualname__} dataclass params {p}")
        if "__slots__" not in c.__dict__ or tuple(c.__slots__) != tuple(f.name for f in dataclasses.fields(c)):
            bad.append(f"{c.__module__}:{c.__qualname__} slots")
    return bad
