"""C13 - every entity is self-describing and its description is coherent."""
import dataclasses
import sys
import types
import typing
import uuid

from .. import codec_corr as cc
from .. import common
from ..values import Unmappable, default_value, describe, from_py, to_coq
from . import _data


def cstr(s):
    return '"' + s.replace('"', '""') + '"'


def res(fn, conv):
    try:
        return f"(Ok {conv(fn())})"
    except Exception as e:  # noqa
        n = cc.err_name(e)
        return f"(Err {n})" if not n.startswith("Other") else "(Err EAssert)"


def run(ctx):
    ires = _data.instance_check(ctx, "C13")
    viol = ires["violations"]
    from kio.serial import _implicit_defaults as idf
    from kio.serial import _introspect as it
    from kio.serial import entity_reader, entity_writer

    classes = cc.load_classes(ctx["build"])
    idx = {c: i for i, c in enumerate(classes)}
    n_schema = sum(1 for c in classes if hasattr(c, "__flexible__"))

    def classify_code(f):
        fc = it.classify_field(f)
        if isinstance(fc, it.PrimitiveField):
            return "(0, 0)"
        if isinstance(fc, it.PrimitiveTupleField):
            return "(1, 0)"
        if isinstance(fc, it.EntityField):
            return f"(2, {idx[fc.type_]})"
        return f"(3, {idx[fc.type_]})"

    def default_term(f):
        v = idf.get_tagged_field_default(f)
        return to_coq(from_py(v))

    prop_bad = []
    scases = []
    n_fields = 0
    def snapshot(cls):
        return [(f.name, repr(f.type), repr(f.default), sorted((k, repr(v)) for k, v in f.metadata.items())) for f in dataclasses.fields(cls)] \
            + [("__annotations__", repr(sorted((k, repr(v)) for k, v in cls.__annotations__.items())))]

    for ci in range(n_schema):
        cls = classes[ci]
        before = snapshot(cls)
        try:
            # "a reader and a writer can be derived from this description alone": deriving them (writer first for every other
            # class, nullable flavours too) must leave the description exactly as it was
            if ci % 2:
                entity_writer(cls); entity_reader(cls)
            else:
                entity_reader(cls); entity_writer(cls)
            entity_reader(cls, True); entity_writer(cls, True)
        except Exception as e:  # noqa
            prop_bad.append({"class": f"{cls.__module__}:{cls.__qualname__}", "what": f"no reader/writer can be derived: {type(e).__name__}: {e}"[:200]})
        after = snapshot(cls)
        if after != before:
            diff = [(b, a) for b, a in zip(before, after) if a != b][:2]
            prop_bad.append({"class": f"{cls.__module__}:{cls.__qualname__}", "what": "deriving a reader/writer changed the class's self-description",
                             "before_after": [[str(b)[:300], str(a)[:300]] for b, a in diff]})
        for fi, f in enumerate(dataclasses.fields(cls)):
            n_fields += 1
            tagged = "tag" in f.metadata
            d = "None"
            if tagged:
                d = "(Some " + res(lambda: default_term(f), lambda x: x) + ")"
                # the resolved default against the harness's own reading of the description (explicit default, else
                # Kafka's zero/empty value of the type; a struct's default is built from its MEMBERS' defaults)
                try:
                    dref = default_value(cls, next(x for x in describe(cls) if x.name == f.name))
                    dimp = from_py(idf.get_tagged_field_default(f))
                    if dref != dimp:
                        prop_bad.append({"class": f"{cls.__module__}:{cls.__qualname__}", "field": f.name,
                                         "what": "the default kio resolves for this tagged field is not the one its description states",
                                         "resolved": repr(idf.get_tagged_field_default(f))[:200]})
                except Exception:  # noqa  (unresolvable defaults are reported through the reader/writer construction above)
                    pass
                # class identity of resolved defaults (abstract values do not carry it)
                pass
            # the class a field's type refers to is THE class importable under that name (a module that defines a class
            # twice binds annotations to the first and the module attribute to the second)
            try:
                fc0 = it.classify_field(f)
                ft = getattr(fc0, "type_", None)
                if isinstance(fc0, (it.EntityField, it.EntityTupleField)) and ft is not None:
                    pub = getattr(sys.modules.get(ft.__module__), ft.__qualname__, None)
                    if pub is not ft:
                        prop_bad.append({"class": f"{cls.__module__}:{cls.__qualname__}", "field": f.name,
                                         "what": f"the field's type {ft.__module__}.{ft.__qualname__} is not the class importable under that name"})
            except Exception:  # noqa
                pass
            if tagged:
                # (continued)
                try:
                    dv = idf.get_tagged_field_default(f)
                    fc = it.classify_field(f)
                    if isinstance(fc, it.EntityField) and dv is not None and type(dv) is not fc.type_:
                        prop_bad.append({"class": f"{cls.__module__}:{cls.__qualname__}", "field": f.name,
                                         "what": f"resolved default is a {type(dv).__module__}.{type(dv).__qualname__}, "
                                                 f"declared type is {fc.type_.__module__}.{fc.type_.__qualname__}"})
                except Exception:  # noqa
                    pass
            scases.append(
                f"{{| sc_cls := {ci}%nat; sc_idx := {fi}%nat; "
                f"sc_optional := {res(lambda: it.is_optional(f), lambda b: 'true' if b else 'false')}; "
                f"sc_classify := {res(lambda: classify_code(f), lambda x: x)}; "
                f"sc_tag := {res(lambda: it.get_field_tag(f), lambda t: 'None' if t is None else f'(Some {int(t)})')}; "
                f"sc_kafka := {res(lambda: it.get_schema_field_type(f), cstr)}; sc_default := {d} |}}")
    # class identity again, second pass in reverse order (defaults must not depend on derivation order)
    for ci in reversed(range(n_schema)):
        cls = classes[ci]
        for f in dataclasses.fields(cls):
            if "tag" in f.metadata:
                try:
                    dv = idf.get_tagged_field_default(f)
                    fc = it.classify_field(f)
                    if isinstance(fc, it.EntityField) and dv is not None and type(dv) is not fc.type_:
                        prop_bad.append({"class": f"{cls.__module__}:{cls.__qualname__}", "field": f.name,
                                         "what": "resolved default has a foreign class (second pass, reverse order)"})
                except Exception:  # noqa
                    pass
    # synthetic annotations
    sys.path.insert(0, str(common.VERIF / "harness"))
    from ..translate import Translator

    tr = Translator()
    from kio.static import primitive as P
    from kio.schema.errors import ErrorCode

    anns = [P.i32, P.i32 | None, typing.Optional[P.i32], typing.Union[P.i32, None, str], P.i32 | str, P.i32 | str | None,
            tuple[P.i32, ...], tuple[P.i32 | None, ...], tuple[P.i32, ...] | None, tuple[P.i32], tuple[P.i32, P.i32], tuple,
            tuple[()], list[P.i32], str, str | None, None | str, uuid.UUID | None, bytes, P.Records, P.Records | None,
            typing.Optional[tuple[str, ...]], tuple[typing.Optional[str], ...], int, float, P.f64, P.TZAware | None,
            typing.Union[str, None], dict[str, int], tuple[tuple[P.i32, ...], ...], ErrorCode, ErrorCode | None, bool, uuid.UUID,
            P.i64Timedelta, P.TZAware, P.u8, P.Records]
    metas = [{"kafka_type": "int32"}, {}, {"kafka_type": 5}, {"kafka_type": "string", "tag": 0}, {"kafka_type": "string", "tag": -1},
             {"kafka_type": "string", "tag": 2**35}, {"kafka_type": "string", "tag": True}, {"kafka_type": "string", "tag": "1"},
             {"kafka_type": "string", "tag": 2**35 - 1}, {"kafka_type": "uuid", "tag": 3}, {"kafka_type": "error_code", "tag": 1},
             {"kafka_type": "records", "tag": 2}]
    fcases = []
    for a in anns:
        for m in metas:
            try:
                X = dataclasses.make_dataclass("X", [("f", a, dataclasses.field(metadata=m))])
                f = dataclasses.fields(X)[0]
                ann = tr.ann(a)
            except Exception:  # noqa
                continue
            tagged = "tag" in m
            d = "None"
            if tagged:
                d = "(Some " + res(lambda: default_term(f), lambda x: x) + ")"
            mk = m.get("kafka_type")
            mt = m.get("tag")
            field_term = (f"{{| rf_name := \"f\"; rf_ann := {ann}; rf_kafka := {'None' if mk is None else '(Some ' + tr.meta(mk) + ')'}; "
                          f"rf_tag := {'None' if 'tag' not in m else '(Some ' + tr.meta(mt) + ')'}; rf_default := None; rf_default_cls := None |}}")
            fcases.append(
                f"{{| fc_field := {field_term}; fc_cls := 0%nat; "
                f"fc_optional := {res(lambda: it.is_optional(f), lambda b: 'true' if b else 'false')}; "
                f"fc_classify := {res(lambda: classify_code(f), lambda x: x)}; "
                f"fc_tag := {res(lambda: it.get_field_tag(f), lambda t: 'None' if t is None else f'(Some {int(t)})')}; "
                f"fc_kafka := {res(lambda: it.get_schema_field_type(f), cstr)}; fc_default := {d} |}}")
    # the two dispatch tables, exhaustively: every Kafka type name (and some unknown ones) x flexible x optional
    from kio.serial import _parse as kp, _serialize as ks

    R_NAMES = {"read_int8": "PInt 1 true", "read_int16": "PInt 2 true", "read_int32": "PInt 4 true", "read_int64": "PInt 8 true",
               "read_uint8": "PInt 1 false", "read_uint16": "PInt 2 false", "read_uint32": "PInt 4 false", "read_uint64": "PInt 8 false",
               "read_float64": "PF64", "read_compact_string": "PStr true false", "read_compact_string_nullable": "PStr true true",
               "read_legacy_string": "PStr false false", "read_nullable_legacy_string": "PStr false true",
               "read_compact_string_as_bytes": "PBytes true false", "read_compact_string_as_bytes_nullable": "PBytes true true",
               "read_legacy_bytes": "PBytes false false", "read_nullable_legacy_bytes": "PBytes false true", "read_uuid": "PUuid",
               "read_boolean": "PBool", "read_error_code": "PErrorCode", "read_timedelta_i32": "PTd32", "read_timedelta_i64": "PTd64",
               "read_datetime_i64": "PDt false", "read_nullable_datetime_i64": "PDt true"}
    W_NAMES = {"write_int8": "PInt 1 true", "write_int16": "PInt 2 true", "write_int32": "PInt 4 true", "write_int64": "PInt 8 true",
               "write_uint8": "PInt 1 false", "write_uint16": "PInt 2 false", "write_uint32": "PInt 4 false", "write_uint64": "PInt 8 false",
               "write_float64": "PF64", "write_legacy_string": "PStr false false", "write_nullable_legacy_string": "PStr false true",
               "write_legacy_bytes": "PBytes false false", "write_nullable_legacy_bytes": "PBytes false true", "write_uuid": "PUuid",
               "write_boolean": "PBool", "write_error_code": "PErrorCode", "write_timedelta_i32": "PTd32", "write_timedelta_i64": "PTd64",
               "write_datetime_i64": "PDt false", "write_nullable_datetime_i64": "PDt true"}

    def dispatch_term(fn, names, kt, flex, opt):
        try:
            f = fn(kt, flex, opt)
        except NotImplementedError:
            return "(Err ENotImplemented)"
        except Exception as e:  # noqa
            return f"(Err EAssert) (* {type(e).__name__} *)"
        n = getattr(f, "__name__", "?")
        if n in ("write_compact_string", "write_nullable_compact_string"):     # one function serves str and bytes
            kind = "PStr" if kt == "string" else "PBytes"
            return f"(Ok ({kind} true {'true' if 'nullable' in n else 'false'}))"
        if n not in names or getattr(kp.readers if names is R_NAMES else ks.writers, n, None) is not f:
            return "(Err EAssert)"
        return f"(Ok ({names[n]}))"

    kts = ["int8", "int16", "int32", "int64", "uint8", "uint16", "uint32", "uint64", "float64", "string", "bytes", "records", "uuid",
           "bool", "error_code", "timedelta_i32", "timedelta_i64", "datetime_i64", "", "int128", "String", "varint", "float32", "struct"]
    dcases = []
    for kt in kts:
        for flex in (False, True):
            for opt in (False, True):
                dcases.append(f"({cstr(kt)}, {'true' if flex else 'false'}, {'true' if opt else 'false'}, "
                              f"{dispatch_term(kp.get_reader, R_NAMES, kt, flex, opt)}, {dispatch_term(ks.get_writer, W_NAMES, kt, flex, opt)})")
    header = ("From Coq Require Import ZArith List Bool String.\nFrom KioV Require Import Base.Res Codec.Value Codec.Check Schema.Raw "
              "Schema.Introspect Schema.IntrospectCheck.\nFrom KioG Require Import Shipped.\nImport ListNotations.\n"
              "Open Scope string_scope.\nOpen Scope Z_scope.\n")
    extra_prims = ("Definition sp : schema := {| s_classes := s_classes shipped; s_prims := s_prims shipped ++ ["
                   + "; ".join(f"{{| pt_name := {cstr(q)}; pt_mro := [{'; '.join(cstr(f'{k.__module__}.{k.__qualname__}') for k in t.__mro__)}] |}}"
                               for q, t in sorted(tr.prims.items())) +
                   "]; s_error_codes := s_error_codes shipped; s_api_key_map := s_api_key_map shipped; s_name_map := s_name_map shipped; "
                   "s_intervals := s_intervals shipped |}.\n")
    failing_s, failing_f, errs = [], [], []
    per = 1300
    import subprocess
    procs = []
    d = ctx["build"]
    for n, start in enumerate(range(0, len(scases), per)):
        name = f"CorrC13s_{n}"
        (d / f"{name}.v").write_text(header + "Definition cases : list scase := [\n" + ";\n".join(scases[start:start + per])
                                     + "\n].\nEval vm_compute in (failing (check_scase shipped) cases).\n")
        procs.append((name, "s", start, subprocess.Popen(["timeout", "900", "coqc", *common.COQ_ARGS, "-Q", str(d), "KioG", f"{name}.v"],
                                                         cwd=d, stdout=subprocess.PIPE, stderr=subprocess.STDOUT, text=True)))
    name = "CorrC13f"
    (d / f"{name}.v").write_text(header + extra_prims + "Definition cases : list fcase := [\n" + ";\n".join(fcases)
                                 + "\n].\nEval vm_compute in (failing (check_fcase sp) cases).\n")
    procs.append((name, "f", 0, subprocess.Popen(["timeout", "900", "coqc", *common.COQ_ARGS, "-Q", str(d), "KioG", f"{name}.v"],
                                                 cwd=d, stdout=subprocess.PIPE, stderr=subprocess.STDOUT, text=True)))
    name = "CorrC13d"
    (d / f"{name}.v").write_text(
        header + "From KioV Require Import Codec.PrimCodec.\n"
        "Definition req (a b : res pcodec) : bool := match a, b with Ok x, Ok y => pcodec_eqb x y | Err x, Err y => err_eqb x y | _, _ => false end.\n"
        "Definition dcases : list (string * bool * bool * res pcodec * res pcodec) := [\n" + ";\n".join(dcases) + "\n].\n"
        "Eval vm_compute in (failing (fun k => match k with (kt, f, o, r, w) => req (prim_codec kt f o) r && req (prim_codec kt f o) w end) dcases).\n")
    procs.append((name, "d", 0, subprocess.Popen(["timeout", "900", "coqc", *common.COQ_ARGS, "-Q", str(d), "KioG", f"{name}.v"],
                                                 cwd=d, stdout=subprocess.PIPE, stderr=subprocess.STDOUT, text=True)))
    failing_d = []
    for name, kind, start, p in procs:
        rc, out = common.coq_result(d, name, p)
        if rc != 0:
            errs.append(f"{name}: {out[-1000:]}")
        elif kind == "d":
            failing_d += common.parse_nat_list(out)
        elif kind == "s":
            failing_s += [start + i for i in common.parse_nat_list(out)]
        else:
            failing_f += common.parse_nat_list(out)
        for ext in (".v", ".vo", ".vok", ".vos", ".glob"):
            (d / f"{name}{ext}").unlink(missing_ok=True)
    if errs:
        viol.append({"kind": "correspondence", "what": "model evaluation failed", "detail": errs[:2]})
    for v in viol:
        v.setdefault("failing_input_found", bool(v.get("offending")) or bool(prop_bad))
    if prop_bad:
        viol.append({"kind": "property", "what": "a class description is incoherent on the implementation",
                     "failing_input_found": True, "n_failing": len(prop_bad), "cases": prop_bad[:5]})
    elif failing_s or failing_f or failing_d:
        viol.append({"kind": "correspondence", "observation": "C13: is_optional / classify_field / get_field_tag / get_schema_field_type / "
                     "get_tagged_field_default vs Schema/Introspect.v", "failing_input_found": False,
                     "n_disagreements": len(failing_s) + len(failing_f) + len(failing_d),
                     "cases": [scases[i][:300] for i in failing_s[:3]] + [fcases[i][:400] for i in failing_f[:3]]
                     + [{"dispatch (kafka_type, flexible, optional, get_reader, get_writer)": dcases[i]} for i in failing_d[:3]]})
    cov = {
        "exhaustive": True, "evaluations": n_fields + len(fcases), "distinct_nontrivial": n_fields + len(fcases),
        "traces_validated_against_impl": n_fields + len(fcases) - len(failing_s) - len(failing_f),
        "rule": "every field of every entity class (introspection results compared with the Gallina rendering) + synthetic "
                "annotation x metadata combinations (unions of three, typing.Optional, bare/fixed tuples, list[...], missing / "
                "non-str kafka_type, negative / huge / bool / str tags); readers and writers constructed for every class; the two "
                "dispatch tables get_reader / get_writer compared with prim_codec on every (kafka type, flexible, optional) triple "
                "incl. unknown type names (function identity by name; each named function's behaviour is C11's subject)",
        "classes": n_schema, "fields": n_fields, "synthetic_fields": len(fcases),
        "dispatch_table_triples": len(dcases), "dispatch_disagreements": len(failing_d),
        "samples": [scases[0][:200], fcases[3][:300]],
        "instance_theorem": "c13_shipped : c13_ok shipped n_schema_classes = true  [vm_compute]; includes wf_env of the derived plans",
        "property_failures_on_implementation": len(prop_bad), "correspondence_disagreements": len(failing_s) + len(failing_f) + len(failing_d),
    }
    return {"instance_obligations": 1, "instance_discharged": ires["instance_discharged"], "violations": viol, "coverage": cov}
