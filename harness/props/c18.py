"""C18 - reading a record batch is faithful and rejects damaged data."""
import json
import random

from .. import common
from .. import records_corr as rc
from .. import refbatch
from . import _records

KNOWN_ID = "C18-record-timestamp-whole-seconds"


def run(ctx):
    r = random.Random(ctx["seed"])
    quick = ctx["tier"] == "quick"
    n = 30 if quick else 600
    fixtures = [bytes.fromhex(h) for h in json.loads((common.VERIF / "corpus" / "broker_batches.json").read_text())]
    batches = []      # (label, bytes)
    for i, f in enumerate(fixtures):
        batches.append((f"broker-fixture-{i}", f))
    for i in range(n):
        nb = rc.gen_new_batch(r, canonical_ms=True)
        if any(rec["timestamp"] > 253402300799999999 for rec in nb["records"]):
            continue        # instants beyond year 9999 (UTC): outside what a reader returning datetimes can represent (DESIGN, limits)
        if i % 3 == 0:       # whole-second timestamps: the known finding cannot explain a mismatch here
            for rec in nb["records"]:
                rec["timestamp"] = (rec["timestamp"] // 1000000) * 1000000
        full = refbatch.derive(nb)
        if i % 4 == 1:      # log-compacted shape: the first record is not at the base offset
            k = r.choice([1, 2, 7])
            if full["base_offset"] >= k:
                full["base_offset"] -= k
                full["last_offset_delta"] += k
        try:
            if full["base_timestamp"] > 10**9 and i % 2 == 0:
                # LogAppendTime shape (realistic clocks only): the broker overwrote the header's max timestamp with its own
                # clock, which may be behind or ahead of the producer's - a well-formed batch either way
                lat = dict(full, attributes=(full["attributes"] | 8) & 0x7FFF,
                           max_timestamp=full["base_timestamp"] + r.choice([-5000, -60000, -1000, 250, 86400000]))
                batches.append((f"reference-{i}-logappendtime", refbatch.enc_batch(lat)))
            batches.append((f"reference-{i}", refbatch.enc_batch(full)))
            if i % 5 == 2:
                # a batch whose records were all removed by compaction: the broker keeps the (then 61-byte) batch to preserve the
                # producer's sequence state - record count 0, the other header fields as they were: well-formed
                batches.append((f"reference-{i}-emptied", refbatch.enc_batch(dict(full, records=[]))))
        except Exception:  # noqa: out-of-range delta for struct
            continue
    rcases, meta = [], []
    prop_bad, known_hits = [], []
    for label, data in batches:
        tail = bytes(r.getrandbits(8) for _ in range(r.choice([0, 0, 3])))
        out = rc.impl_read(data + tail)
        rcases.append((data + tail, out)); meta.append((label, "identity"))
        hdr, recs = refbatch.dec_batch(data)
        sub_second = any(x["timestamp"] % 1000000 for x in recs)
        if out[0] != "ok":
            prop_bad.append({"batch": label, "what": f"well-formed batch rejected: {out[1]}", "bytes": data.hex()[:400]})
        else:
            b = out[1]
            got_hdr = {k: b[k] for k in hdr}
            got_recs = [dict(x, headers=[tuple(h) for h in x["headers"]]) for x in b["records"]]
            exp_trunc = [dict(x, timestamp=(x["timestamp"] // 1000000) * 1000000) for x in recs]
            w = rc.impl_write(rc.py_batch(b))
            faithful = got_hdr == hdr and got_recs == recs and out[2] == tail
            rewrite_ok = w[0] == "ok" and w[1] == data
            if not (faithful and rewrite_ok):
                # the recorded finding explains a mismatch only if BOTH the returned records and the
                # rewritten bytes are exactly what whole-second truncation predicts
                predicted_rewrite = refbatch.enc_prepared(hdr, exp_trunc)
                explained = (got_hdr == hdr and out[2] == tail and got_recs == exp_trunc and sub_second
                             and w[0] == "ok" and w[1] == predicted_rewrite)
                if explained:
                    known_hits.append(label)
                else:
                    prop_bad.append({"batch": label, "what": "read batch differs from what is encoded / rewrite differs",
                                     "header_equal": got_hdr == hdr, "records_equal": got_recs == recs,
                                     "rewrite_equal": rewrite_ok, "bytes": data.hex()[:600]})
        # damage: single-bit flips from the CRC field on, truncations
        nbits = (len(data) - 17) * 8
        flips = range(nbits) if (len(data) <= 80 and not quick) or label.startswith("broker") and len(data) <= 90 else sorted(
            {r.randrange(nbits) for _ in range((10 if len(data) < 1500 else 3) if quick else (200 if len(data) < 1500 else 12))})
        for i in flips:
            ba = bytearray(data); ba[17 + i // 8] ^= 1 << (i % 8)
            o = rc.impl_read(bytes(ba))
            rcases.append((bytes(ba), o)); meta.append((label, f"flip@{17 + i // 8}.{i % 8}"))
            if o[0] == "ok":
                prop_bad.append({"batch": label, "what": f"bit flip at byte {17 + i // 8} bit {i % 8} accepted", "bytes": bytes(ba).hex()[:600]})
        # "any corruption of the checksum or of a checksummed byte" (c18_byte_change_rejected, c18_crc_field_corrupted,
        # c18_burst_rejected): the stored CRC replaced as a whole (neighbours, complement, byte-swapped, zero, sign bit, random),
        # one byte replaced by another value, up to four consecutive bytes replaced
        crc0 = data[17:21]
        crcv = int.from_bytes(crc0, "big")
        alts = {((crcv + 1) % 2**32), ((crcv - 1) % 2**32), crcv ^ 0xFFFFFFFF, crcv ^ 0x80000000, crcv ^ 1, 0, 0xFFFFFFFF,
                int.from_bytes(crc0[::-1], "big"), r.getrandbits(32), crcv ^ (1 << r.randrange(32)), crcv & 0x7FFFFFFF, crcv & 0xFFFF}
        variants = [(f"crc-replaced@{a:08x}", data[:17] + a.to_bytes(4, "big") + data[21:]) for a in sorted(alts) if a != crcv]
        if quick:
            variants = r.sample(variants, min(4, len(variants)))
        for _ in range(3 if quick else 6):
            k = r.randrange(21, len(data))
            x = r.choice([b for b in (0, 0xFF, data[k] ^ 0x80, (data[k] + 1) % 256, r.randrange(256)) if b != data[k]])
            variants.append((f"byte-replaced@{k}:={x:02x}", data[:k] + bytes([x]) + data[k + 1:]))
            if len(data) >= 26:
                k = r.randrange(21, len(data) - 3)
                w = bytes(r.getrandbits(8) for _ in range(4))
                if w != data[k:k + 4]:
                    variants.append((f"burst@{k}", data[:k] + w + data[k + 4:]))
        for how, damaged in (variants[:24] if len(data) < 3000 else variants[:4] + variants[-2:]):
            o = rc.impl_read(damaged)
            rcases.append((damaged, o)); meta.append((label, how))
            if o[0] == "ok":
                prop_bad.append({"batch": label, "what": f"corruption {how} accepted", "bytes": damaged.hex()[:600]})
        ba = bytearray(data); ba[16] = r.choice([0, 1, 3, 255])
        o = rc.impl_read(bytes(ba)); rcases.append((bytes(ba), o)); meta.append((label, "magic"))
        if o[0] == "ok":
            prop_bad.append({"batch": label, "what": f"magic byte {ba[16]} accepted", "bytes": bytes(ba).hex()[:200]})
        # compound damage: a corrupted checksummed byte TOGETHER WITH an input that ends before the declared batch length
        # (declared length inflated, or bytes cut off), and a patched record count together with a cut
        if len(data) > 70 and len(data) < 3000:
            for _ in range(2 if quick else 6):
                ba = bytearray(data)
                bit = r.randrange(nbits)
                ba[17 + bit // 8] ^= 1 << (bit % 8)
                how = r.choice(["length+1", "length+7", "cut1", "cut3"])
                if how.startswith("length"):
                    bl = int.from_bytes(ba[8:12], "big", signed=True) + int(how[7:])
                    ba[8:12] = bl.to_bytes(4, "big", signed=True)
                else:
                    ba = ba[: len(ba) - int(how[3:])]
                o = rc.impl_read(bytes(ba))
                rcases.append((bytes(ba), o)); meta.append((label, f"flip@{17 + bit // 8}.{bit % 8}+{how}"))
                if o[0] == "ok":
                    prop_bad.append({"batch": label, "what": f"bit flip at byte {17 + bit // 8} together with {how} accepted", "bytes": bytes(ba).hex()[:600]})
            cnt = int.from_bytes(data[57:61], "big", signed=True)
            if cnt >= 2:
                for cut in (1, 2, r.randrange(1, 40)):
                    ba = bytearray(data[: len(data) - cut])
                    ba[57:61] = (cnt - 1).to_bytes(4, "big", signed=True)
                    o = rc.impl_read(bytes(ba))
                    rcases.append((bytes(ba), o)); meta.append((label, f"count-1+cut{cut}"))
                    if o[0] == "ok":
                        prop_bad.append({"batch": label, "what": f"record count patched to {cnt - 1} together with {cut} bytes cut off accepted",
                                         "bytes": bytes(ba).hex()[:600]})
        cuts = range(len(data)) if (len(data) <= 100 and (not quick or label.startswith('broker'))) else sorted({r.randrange(len(data)) for _ in range((12 if len(data) < 1500 else 4) if quick else (40 if len(data) < 1500 else 8))} | set(range(len(data) - 6, len(data))))
        for k in cuts:
            o = rc.impl_read(data[:k])
            rcases.append((data[:k], o)); meta.append((label, f"truncate@{k}"))
            if o[0] == "ok":
                prop_bad.append({"batch": label, "what": f"truncation to {k} of {len(data)} bytes accepted", "bytes": data[:k].hex()[:600]})
    # crafted truncation witness: the last 4 bytes are chosen so that the CRC of the truncated
    # body equals the CRC of the full body
    for i in range(3 if quick else 20):
        nb = rc.gen_new_batch(r)
        nb["records"] = nb["records"][:1]
        nb["records"][0]["headers"] = [(b"h", b"AAAA" + bytes(4))]
        full = refbatch.derive(nb)
        try:
            base = refbatch.enc_batch(full)
        except Exception:  # noqa
            continue
        x = refbatch.force_crc_suffix(base[21:-4])
        nb["records"][0]["headers"] = [(b"h", b"AAAA" + x)]
        data = refbatch.enc_batch(refbatch.derive(nb))
        o = rc.impl_read(data[:-4])
        rcases.append((data[:-4], o)); meta.append((f"crc-forced-{i}", f"truncate@{len(data) - 4}"))
        if o[0] == "ok":
            prop_bad.append({"batch": f"crc-forced-{i}", "what": "truncated batch accepted (the CRC of the truncated body was "
                             "forced to match): a header value was silently shortened", "bytes": data[:-4].hex()})
    # what is read must not depend on the process's local time zone
    from .. import tzprobe
    seen, tz_ops = set(), []
    for (label, what), (data, o) in zip(meta, rcases):
        if o[0] == "ok" and label not in seen and len(data) < 3000:
            seen.add(label)
            tz_ops.append(["rbatch", data.hex()])
        if len(tz_ops) >= (12 if quick else 60):
            break
    tz_diff = tzprobe.differing(tz_ops, zones=tzprobe.ZONES[:3])
    for dd in tz_diff[:3]:
        prop_bad.append({"batch": "time zone probe", "what": "the batch read depends on the process's local time zone (TZ)", **dd})
    # prepared batches whose stored header fields are NOT the ones a new batch would derive (a different base timestamp or
    # base offset, another crc / length / last offset delta): writing copies the stored fields verbatim and encodes the
    # records relative to the stored bases - compared with the model and with the independent encoder
    pcases = []
    n_p = 0
    for (label, what), (data, o) in zip(meta, rcases):
        if what != "identity" or o[0] != "ok" or len(data) > 3000 or n_p >= (40 if quick else 400):
            continue
        n_p += 1
        b0 = o[1]
        for k in range(3):
            b = dict(b0, records=[dict(x) for x in b0["records"]])
            f = r.choice(["base_timestamp", "base_offset", "crc", "last_offset_delta", "batch_length", "max_timestamp", "producer_epoch"])
            b[f] = b[f] + r.choice([-1000, -1, 1, 5, 1000]) if f not in ("crc",) else (b[f] + 1) % 2**32
            if f == "base_offset" and b[f] < 0:
                b[f] = 0
            try:
                w = rc.impl_write(rc.py_batch(b))
            except Exception as e:  # noqa  (value not constructible)
                continue
            pcases.append((b, w))
            hdr2 = {kk: b[kk] for kk in b if kk != "records"}
            try:
                want = refbatch.enc_prepared(hdr2, [dict(x, headers=[tuple(h) for h in x["headers"]]) for x in b["records"]])
            except Exception:  # noqa  (a delta outside the encoder's widths)
                want = None
            if want is not None and not (w[0] == "ok" and w[1] == want):
                prop_bad.append({"batch": label, "what": f"writing a prepared batch whose stored {f} was changed does not copy the stored header "
                                 "fields / encode the records relative to the stored bases", "got": w[1].hex()[:300] if w[0] == "ok" else str(w[1]),
                                 "expected": want.hex()[:300]})
    res, err = _records.run_coq(ctx, "C18", rcases=rcases, pcases=pcases)
    viol, known = [], []
    failing = [] if res is None else res.get("r", [])
    failing_p = [] if res is None else res.get("p", [])
    if res is None:
        viol.append({"kind": "correspondence", "what": "model evaluation failed", "detail": err})
    kf = {f["id"]: f for f in common.known_findings()["findings"]}
    if known_hits:
        if KNOWN_ID in kf:
            known.append(f"KNOWN-FINDING: property=C18 {kf[KNOWN_ID]['what']} ({len(known_hits)} batches, e.g. {known_hits[0]})")
        else:
            prop_bad.append({"what": "record timestamps are read with whole-second precision; rewriting does not reproduce the bytes",
                             "batches": known_hits[:5]})
    if prop_bad:
        prop_bad.sort(key=lambda b: len(str(b)))
        viol.append({"kind": "property", "what": "read_batch is not faithful or accepts damaged data",
                     "failing_input_found": True, "n_failing": len(prop_bad), "cases": prop_bad[:3]})
    elif failing:
        viol.append({"kind": "correspondence", "observation": "C18: value/remainder or failure of read_batch vs Records/Batch.v",
                     "failing_input_found": False, "n_disagreements": len(failing),
                     "cases": [{"batch": meta[i][0], "damage": meta[i][1], "input": rcases[i][0].hex()[:600],
                                "impl": str(rcases[i][1])[:300]} for i in failing[:3]]})
    if failing_p and not any(v.get("kind") == "property" for v in viol):
        viol.append({"kind": "correspondence", "observation": "C18: bytes written for a prepared batch vs Records/Batch.v write_prepared_batch",
                     "failing_input_found": False, "n_disagreements": len(failing_p),
                     "cases": [{"batch": {k: v for k, v in pcases[i][0].items() if k != "records"}, "impl": str(pcases[i][1])[:300]} for i in failing_p[:3]]})
    kinds = {}
    for _, k in meta:
        kk = k.split("@")[0]
        kinds[kk] = kinds.get(kk, 0) + 1
    cov = {
        "time_zone_probe": {"operations": len(tz_ops), "differences": len(tz_diff)}, "prepared_batch_writes": len(pcases),
        "evaluations": len(rcases), "distinct_nontrivial": len({c[0] for c in rcases}),
        "traces_validated_against_impl": len(rcases) - len(failing),
        "rule": "reference-encoded batches (independent encoder) + the four real-broker fixtures x (compound damage [bit flip + inflated declared length / cut; patched record count + cut], time-zone probe, identity with trailing "
                "bytes | single-bit flips from byte 17 on (all bits for the fixtures) | wrong magic | truncations) + CRC-forced "
                "truncation witnesses; distinct by input bytes",
        "batches": len(batches), "damage_kinds": kinds, "known_finding_hits": len(known_hits),
        "samples": [{"batch": meta[i][0], "damage": meta[i][1], "input": rcases[i][0].hex()[:160]} for i in (0, 1, len(rcases) - 1)],
        "property_failures_on_implementation": len(prop_bad), "correspondence_disagreements": len(failing),
    }
    return {"violations": viol, "coverage": cov, "known": known}
