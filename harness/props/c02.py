"""C02 - encoder output is the Kafka wire format, byte for byte."""
from .. import codec_corr as cc
from . import _codec, _wire


def big_collections(ctx, classes, n_schema, gen):
    """Sizes no width of the format forbids but that are far from the generator's usual ones: arrays of 2^15 .. 2^16+1
    elements (an int32 / varint count), in legacy and flexible classes; strings and byte strings around 2^15 and 2^16 where
    the format allows them.  kio's bytes against the independent reference encoder, and the round trip - implementation
    side only (the instances are too large to print as Coq terms)."""
    import io

    from kio.serial import entity_reader
    from .. import refenc
    from ..values import describe, from_py, to_py

    r = gen.r
    bad = []
    n = 0
    want = 4 if ctx["tier"] == "quick" else 24
    picked = {True: 0, False: 0}
    order = list(range(n_schema))
    r.shuffle(order)

    def blow(v, size):
        done = [False]

        def go(x):
            if done[0]:
                return x
            if x[0] == "arr" and x[1]:
                done[0] = True
                return ("arr", [x[1][0]] * size)
            if x[0] in ("arr", "ent"):
                return (x[0], [go(y) for y in x[1]])
            return x
        out = go(v)
        return out if done[0] else None

    for idx in order:
        cls = classes[idx]
        flex = bool(cls.__flexible__)
        if picked[flex] >= want or not any(d.array and d.tag is None for d in describe(cls)):
            continue
        v = None
        for _ in range(4):
            cand = gen.entity(cls)
            if blow(cand, 2) is not None:
                v = cand
                break
        if v is None:
            continue
        picked[flex] += 1
        for size in ((32767, 32768, 40000, 65537) if ctx["tier"] == "quick" else (32767, 32768, 32769, 40000, 65535, 65536, 65537, 100000)):
            big = blow(v, size)
            inst = to_py(cls, big)
            n += 1
            want_bytes = refenc.enc_entity(refenc.decorate(gen, cls, big, 0.0, 0.0))
            got = cc.impl_encode(cls, inst)
            name = _codec.cls_name(classes, idx)
            if got[0] != "ok":
                bad.append({"class": name, "array_elements": size, "what": f"the encoder raised {got[1]}"})
                break
            if got[1] != want_bytes:
                k = next((i for i in range(min(len(got[1]), len(want_bytes))) if got[1][i] != want_bytes[i]), min(len(got[1]), len(want_bytes)))
                bad.append({"class": name, "array_elements": size, "what": f"bytes differ from the reference encoding at offset {k}",
                            "kio": got[1][max(0, k - 8):k + 8].hex(), "reference": want_bytes[max(0, k - 8):k + 8].hex()})
                break
            try:
                back = entity_reader(cls)(io.BytesIO(got[1]))
                if from_py(back) != big:
                    bad.append({"class": name, "array_elements": size, "what": "decoding the encoding does not give the instance back"})
                    break
            except Exception as e:  # noqa
                bad.append({"class": name, "array_elements": size, "what": f"decoding the encoding raised {cc.err_name(e)}"})
                break
        if all(picked[f] >= want for f in picked):
            break
    return bad, n


def run(ctx):
    classes, n_schema, gen = _codec.setup(ctx)
    per_class = 2 if ctx["tier"] == "quick" else 30
    # undecorated wire-first cases: the reference encoding IS the canonical encoding
    cases = _wire.wire_cases(ctx, classes, n_schema, gen, per_class, p_send=0.0, p_unknown=0.0)
    failing, errors = _wire.run_coq(ctx, "C02", cases)          # Coq spec_enc == reference encoder, decoder agrees
    # and the model of kio's encoder against kio
    enc_cases = [{"cls": c["cls"], "val": c["val"], "enc": c["enc"], "input": c["input"], "dec": c["dec"]} for c in cases]
    failing2, errors2 = cc.run_coq_cases(ctx["build"], "C02e", enc_cases)
    viol = []
    big_bad, n_big = big_collections(ctx, classes, n_schema, gen)
    if big_bad:
        viol.append({"kind": "property", "what": "an instance with a large array / string / byte string is not encoded as the Kafka wire "
                     "format prescribes (independent reference encoder)", "failing_input_found": True, "n_failing": len(big_bad), "cases": big_bad[:3]})
    prop_fail = [i for i, c in enumerate(cases) if not c["c02_ok"]]
    if errors or errors2:
        viol.append({"kind": "correspondence", "what": "model evaluation failed", "detail": (errors + errors2)[:3]})
    if prop_fail:
        out = []
        for i in _codec.smallest(cases, prop_fail):
            j = _wire.describe(classes, cases[i])
            j["kio_encoding"] = cases[i]["enc"][1].hex() if cases[i]["enc"][0] == "ok" else cases[i]["enc"][1]
            out.append(j)
        viol.append({"kind": "property", "what": "kio's encoder output differs from the Kafka wire format "
                     "(independent reference encoder, equal to the Coq specification on this input)",
                     "failing_input_found": True, "n_failing": len(prop_fail), "cases": out})
    elif failing or failing2:
        idx = failing or failing2
        viol.append({"kind": "correspondence",
                     "observation": "C02: Coq spec_enc = reference encoder (check_ccase) and model encoder = kio (check_case)",
                     "failing_input_found": False, "n_disagreements": len(failing) + len(failing2),
                     "cases": [_wire.describe(classes, cases[i]) for i in _codec.smallest(cases, idx)]})
    cov = {
        "evaluations": len(cases), "distinct_nontrivial": len({(c["cls"], c["ref"]) for c in cases}),
        "traces_validated_against_impl": len(cases) - len(set(failing) | set(failing2)),
        "rule": "per class, typed values over the wire domain; bytes of kio's encoder vs an independent reference "
                "encoder written from the protocol guide vs the Coq specification spec_enc (three-way); distinct by (class, bytes)",
        "large_collection_instances": n_big, "generator_stats": gen.stats, "distribution": _codec.distribution(cases, classes),
        "samples": [_wire.describe(classes, c) for c in cases[:2]],
        "property_failures_on_implementation": len(prop_fail),
        "correspondence_disagreements": len(failing) + len(failing2),
    }
    return {"violations": viol, "coverage": cov}
