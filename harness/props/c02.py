"""C02 - encoder output is the Kafka wire format, byte for byte."""
from .. import codec_corr as cc
from . import _codec, _wire


def run(ctx):
    classes, n_schema, gen = _codec.setup(ctx)
    per_class = 2 if ctx["tier"] == "quick" else 30
    # undecorated wire-first cases: the reference encoding IS the canonical encoding
    cases = _wire.wire_cases(ctx, classes, n_schema, gen, per_class, p_send=0.0, p_unknown=0.0)
    failing, errors = _wire.run_coq(ctx, "C02", cases)          # Coq spec_enc == reference encoder, decoder agrees
    # and the model of kio's encoder against kio
    enc_cases = [{"cls": c["cls"], "val": c["val"], "enc": c["enc"], "input": c["input"], "dec": c["dec"]} for c in cases]
    failing2, errors2 = cc.run_coq_cases(ctx["build"], "C02e", enc_cases)
    viol = []
    prop_fail = [i for i, c in enumerate(cases) if not c["c02_ok"]]
    if errors or errors2:
        viol.append({"kind": "correspondence", "what": "model evaluation failed", "detail": (errors + errors2)[:3]})
    if prop_fail:
        out = []
        for i in _codec.smallest(cases, prop_fail):
            j = _wire.describe(classes, cases[i])
            j["kio_encoding"] = cases[i]["enc"][1].hex() if cases[i]["enc"][0] == "ok" else cases[i]["enc"][1]
            out.append(j)
        viol.append({"kind": "property", "what": "kio's encoder output differs from the Kafka wire format "
                     "(independent reference encoder, equal to the Coq specification on this input)",
                     "failing_input_found": True, "n_failing": len(prop_fail), "cases": out})
    elif failing or failing2:
        idx = failing or failing2
        viol.append({"kind": "correspondence",
                     "observation": "C02: Coq spec_enc = reference encoder (check_ccase) and model encoder = kio (check_case)",
                     "failing_input_found": False, "n_disagreements": len(failing) + len(failing2),
                     "cases": [_wire.describe(classes, cases[i]) for i in _codec.smallest(cases, idx)]})
    cov = {
        "evaluations": len(cases), "distinct_nontrivial": len({(c["cls"], c["ref"]) for c in cases}),
        "traces_validated_against_impl": len(cases) - len(set(failing) | set(failing2)),
        "rule": "per class, typed values over the wire domain; bytes of kio's encoder vs an independent reference "
                "encoder written from the protocol guide vs the Coq specification spec_enc (three-way); distinct by (class, bytes)",
        "generator_stats": gen.stats, "distribution": _codec.distribution(cases, classes),
        "samples": [_wire.describe(classes, c) for c in cases[:2]],
        "property_failures_on_implementation": len(prop_fail),
        "correspondence_disagreements": len(failing) + len(failing2),
    }
    return {"violations": viol, "coverage": cov}
