"""C04 - the shipped schema is exactly what the generator derives from the pinned definitions."""
from __future__ import annotations

import builtins
import json
import shutil
import subprocess

from .. import common, defgen, gentree, regen_check
from .c16 import parse_range, snake


def run(ctx):
    viol = []
    d = ctx["build"]
    pinned = json.loads((common.VERIF / "pinned" / "schema_3.9.0.canon.json").read_text())
    pins = json.loads((common.VERIF / "pinned" / "api_keys.json").read_text())
    defs = [json.loads(p.read_text()) for p in sorted((common.VERIF / "pinned" / "defs").glob("*.json"))]
    # (1) the current tree's schema package, canonically
    cur_path = d / "canon_current.json"
    ok, out = gentree.canonical(common.REPO / "src", cur_path)
    if not ok:
        viol.append({"kind": "build", "what": "the schema package cannot be imported/described", "detail": out[-2000:],
                     "failing_input_found": False})
        return {"violations": viol, "coverage": {"evaluations": 1, "distinct_nontrivial": 2}}
    cur = json.loads(cur_path.read_text())
    # (2) hand edits: current vs pinned (every class, field, order, type, nullability, tag, default,
    #     flexibility, key, header, dataclass options; index maps; error codes)
    edits = regen_check.diff_canon(cur, pinned, limit=30)
    if cur["error_codes"] != pinned["error_codes"]:
        edits.append("error-code table differs from the pinned one")
    if edits:
        viol.append({"kind": "instance", "what": "the schema package differs from the pinned 3.9.0 schema",
                     "differences": edits, "failing_input_found": True})
    # (3) the CURRENT generator on the pinned definitions
    scratch = d / "c04_regen"
    gen, err = regen_check.regenerate(common.VERIF / "pinned" / "defs", scratch)
    gen_diffs = []
    if gen is None:
        viol.append({"kind": "correspondence", "what": "the generator no longer runs on the pinned definitions", "detail": err[-2500:],
                     "failing_input_found": False})
    else:
        gen_diffs = regen_check.diff_canon(gen, cur, limit=30)
        if gen_diffs:
            viol.append({"kind": "property", "what": "the current generator, run on the pinned definitions, no longer produces the "
                         "shipped schema", "differences": gen_diffs, "failing_input_found": True,
                         "replay": "python -m harness.regen_check pinned/defs"})
    shutil.rmtree(scratch / "src", ignore_errors=True)
    # (4) independent pins
    pin_bad = []
    want_keys = {int(k): snake(n) for k, n in pins["api_keys"].items()}
    have_keys = {int(k): v for k, v in cur["api_key_map"].items()}
    if want_keys != have_keys:
        pin_bad.append({"api_key_map": {str(k): [want_keys.get(k), have_keys.get(k)] for k in set(want_keys) | set(have_keys)
                                        if want_keys.get(k) != have_keys.get(k)}})
    mods = {k.split(":")[0] for k, c in cur["classes"].items() if c["type"] != "nested"}
    counts = {"api_keys": len(have_keys), "version_modules": len(mods), "classes": len(cur["classes"])}
    if counts != pins["counts"]:
        pin_bad.append({"counts": counts, "pinned": pins["counts"]})
    for k, c in cur["classes"].items():
        if c["type"] in ("request", "response"):
            api = k.split(".")[2]
            if want_keys.get(c["api_key"]) != api:
                pin_bad.append({"class": k, "api_key": c["api_key"], "pinned_name": want_keys.get(c["api_key"])})
    if pin_bad:
        viol.append({"kind": "instance", "what": "the schema disagrees with the hand-written pins (API key table, counts)",
                     "differences": pin_bad[:10], "failing_input_found": True})
    # (5) Coq: the generator MODEL on the pinned definitions equals the shipped classes, module by module
    by_module = {}
    for key, c in cur["classes"].items():
        by_module.setdefault(key.split(":")[0], {})[key] = c
    cases, meta, inexpressible = [], [], []
    for df in defs:
        pkg = snake(df["name"])
        for suf in ("_response", "_request"):
            if pkg.endswith(suf):
                pkg = pkg[: -len(suf)]
        lo, hi = parse_range(df["validVersions"])
        for v in range(lo, hi + 1):
            mod = f"kio.schema.{pkg}.v{v}.{df['type']}"
            classes = by_module.get(mod, {})
            try:
                expect = "(Some [" + "; ".join(defgen.g_class(k, c) for k, c in classes.items()) + "])" if classes else "None"
            except defgen.NotExpressible as e:
                inexpressible.append(f"{mod}: {e}")
                continue
            cases.append(f"{{| g_def := {defgen.coq_defn(df)}; g_version := {defgen.cz(v)}; g_package := {defgen.cstr(pkg)}; "
                         f"g_expect := {expect} |}}")
            meta.append(mod)
    blt = "[" + "; ".join(defgen.cstr(b) for b in sorted(dir(builtins))) + "]"
    hdr = ("From Coq Require Import ZArith List Bool String.\nFrom KioV Require Import Base.Res Gen.Gen Gen.GenCheck.\n"
           "Import ListNotations.\nOpen Scope string_scope.\n" f"Definition blt : list string := {blt}.\n")
    procs = []
    per = 45
    for n, start in enumerate(range(0, len(cases), per)):
        nm = f"InstC04_{n}"
        (d / f"{nm}.v").write_text(hdr + "Definition cases : list gcase := [\n" + ";\n".join(cases[start:start + per]) + "\n].\n"
                                   "Eval vm_compute in gfailing_from blt 0 cases.\n"
                                   "Theorem c04_generator_model_reproduces_shipped : forallb (check_gcase blt) cases = true.\n"
                                   "Proof. vm_compute. reflexivity. Qed.\nPrint Assumptions c04_generator_model_reproduces_shipped.\n")
        procs.append((nm, start, subprocess.Popen(["timeout", "1500", "coqc", *common.COQ_ARGS, "-Q", str(d), "KioG", f"{nm}.v"], cwd=d,
                                                  stdout=subprocess.PIPE, stderr=subprocess.STDOUT, text=True)))
    failing, discharged, n_files = [], 0, len(procs)
    for nm, start, p in procs:
        out = p.communicate()[0]
        failing += [start + i for i in common.parse_nat_list(out.split("Theorem")[0] if "Theorem" in out else out)]
        if p.returncode == 0 and "Closed under the global context" in out:
            discharged += 1
        for ext in (".v", ".vo", ".vok", ".vos", ".glob"):
            (d / f"{nm}{ext}").unlink(missing_ok=True)
    if failing or discharged != n_files or inexpressible:
        viol.append({"kind": "instance", "theorem": "c04_generator_model_reproduces_shipped (per-tree, vm_compute)",
                     "what": "the Gallina generator model applied to the pinned definitions does not yield the shipped classes",
                     "modules": [meta[i] for i in failing[:20]], "inexpressible": inexpressible[:10],
                     "failing_input_found": bool(failing) or bool(edits) or bool(gen_diffs)})
    cov = {
        "exhaustive": True, "programs": len(defs), "evaluations": len(cases), "distinct_nontrivial": len(cases),
        "traces_validated_against_impl": len(cases) - len(failing),
        "rule": "all 186 pinned (reconstructed) message definitions x all their versions = every version module of the package; "
                "(a) package vs pinned canonical description, (b) current generator re-run on the pinned definitions vs package, "
                "(c) hand-written API-key pins and counts, (d) Gallina generator model on the definitions vs package (Coq, vm_compute)",
        "modules": len(cases), "classes": len(cur["classes"]), "hand_edit_differences": len(edits),
        "generator_differences": len(gen_diffs), "pin_differences": len(pin_bad),
        "samples": meta[:3], "disagreements_checked": len(failing),
        "limitation": "the upstream JSON files are not available offline; pinned/defs are reconstructions validated at creation time "
                      "by regenerating all 1629 classes with the unmodified generator; equality with upstream rests on the hand-written pins",
    }
    return {"instance_obligations": n_files, "instance_discharged": discharged, "violations": viol, "coverage": cov}
