"""C14 - the versions of an API form a coherent family."""
from . import _data, _impl_schema


def run(ctx):
    res = _data.instance_check(ctx, "C14")
    impl_bad = _impl_schema.c14()
    viol = res["violations"]
    for v in viol:
        v["implementation_evaluation"] = impl_bad[:30]
        v["failing_input_found"] = bool(v.get("offending")) or bool(impl_bad)
    if impl_bad and not viol:
        viol.append({"kind": "correspondence", "what": "the property evaluated directly on the imported classes fails "
                     "while the instance theorem over the translated schema holds (translator or predicate mismatch)",
                     "implementation_evaluation": impl_bad[:30], "failing_input_found": True})
    if res["bad"] and not impl_bad:
        for v in viol:
            v["note"] = "the implementation-side evaluation found nothing: predicate and replay disagree"
    import kio.schema  # noqa
    mods = _impl_schema.walk()
    fams = {(m.__name__.split(".")[2], m.__name__.split(".")[4]) for m, _ in mods}
    cov = {
        "exhaustive": True,
        "evaluations": len(mods),
        "distinct_nontrivial": len(mods),
        "rule": "every version module of the schema package (each is one configuration); all are distinct; "
                "family checks run per (api, entity type) family",
        "modules": len(mods), "families": len(fams), "classes": sum(len(c) for _, c in mods),
        "samples": [m.__name__ for m, _ in mods[:3]] + [f"{a}:{t}" for a, t in sorted(fams)[:3]],
        "instance_theorem": "c14_shipped : c14_ok (firstn n_schema_classes (s_classes shipped)) = true  [vm_compute]",
        "implementation_evaluation_violations": len(impl_bad),
    }
    return {"instance_obligations": res["instance_obligations"], "instance_discharged": res["instance_discharged"],
            "violations": viol, "coverage": cov,
            "trusted_base": ["instance theorem evaluated by vm_compute over harness/translate.py output"]}
