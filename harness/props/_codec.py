"""Shared pieces of the codec properties (C01, C02, C03, C05, C06, C07, C10): the structured and
malformed input streams, the implementation-side evaluation of each property, and the
correspondence runs."""
from __future__ import annotations

import io
import json
import time

from .. import codec_corr as cc
from .. import common
from ..values import Gen, from_py, to_json, to_py

PERMITTED = {"EUnderflow", "EUnexpectedNull", "EOutOfBound", "EValue", "ESchema"}


def setup(ctx):
    from kio.schema.errors import ErrorCode

    classes = cc.load_classes(ctx["build"])
    import dataclasses
    from kio.static.constants import EntityType

    n_schema = sum(1 for c in classes if hasattr(c, "__flexible__"))
    gen = Gen(ctx["seed"], [int(e.value) for e in ErrorCode])
    return classes, n_schema, gen


def structured(ctx, classes, n_schema, gen, per_class):
    cases = []
    r = gen.r
    prev = None
    for idx in range(n_schema):
        cls = classes[idx]
        from ..values import describe as _describe
        has_tags = any(d.tag is not None for d in _describe(cls))
        for want_default in [None] * per_class + ([True, False] if has_tags else []):
            val = gen.entity(cls, want_default=want_default)
            inst = to_py(cls, val)
            history = None
            if prev is not None and r.random() < 0.12:
                # the property quantifies over every process state: put a FAILED operation of another
                # class in front (an encode that raises part-way / a decode of truncated bytes)
                history = perturb(classes, prev, r)
                gen.count("history:" + history["kind"])
            enc = cc.impl_encode(cls, inst)
            tail = bytes(r.getrandbits(8) for _ in range(r.choice([0, 0, 1, 3])))
            data = (enc[1] if enc[0] == "ok" else enc[2]) + tail
            dec = cc.impl_decode(cls, data)
            case = {"cls": idx, "val": val, "enc": enc, "input": data, "dec": dec, "tail": tail}
            if history:
                case["history"] = history
            if enc[0] == "ok":
                prev = (idx, val, enc[1])
            # the property, evaluated on the implementation with Python's own equality
            ok = False
            why = None
            if enc[0] != "ok":
                why = f"encoder raised {enc[1]}"
            else:
                from kio.serial import entity_reader

                buf = io.BytesIO(data)
                try:
                    obj = entity_reader(cls)(buf)
                    if obj != inst:
                        why = "decoded instance != original"
                    elif type(obj) is not cls:
                        why = "decoded object is not an instance of the class"
                    elif data[buf.tell():] != tail:
                        why = f"consumed {buf.tell()} of {len(enc[1])} encoded bytes"
                    else:
                        ok = True
                except Exception as e:  # noqa
                    why = f"decoder raised {cc.err_name(e)}"
            if ok and idx % 7 == 3:
                # the nullable flavour of the same class (what nested nullable structs use): a presence marker in front of the
                # very same encoding, and None as the one-byte null marker - also after the plain flavour was built and used
                why = nullable_flavour(cls, inst, enc[1], tail)
                ok = why is None
            case["c01_ok"] = ok
            case["c01_why"] = why
            cases.append(case)
    return cases


def nullable_flavour(cls, inst, plain: bytes, tail: bytes):
    from kio.serial import entity_reader, entity_writer

    try:
        b = io.BytesIO()
        entity_writer(cls, True)(b, inst)
        if b.getvalue() != b"\x01" + plain:
            return f"nullable writer: wrote {b.getvalue()[:12].hex()}..., expected the marker 01 followed by the plain encoding"
        b = io.BytesIO()
        entity_writer(cls, True)(b, None)
        if b.getvalue() != b"\xff":
            return f"nullable writer: None written as {b.getvalue().hex()}, expected ff"
        src = io.BytesIO(b"\x01" + plain + tail)
        back = entity_reader(cls, True)(src)
        if back != inst or src.read() != tail:
            return "nullable reader: marker 01 + encoding does not decode to the instance with exact consumption"
        src = io.BytesIO(b"\xff" + tail)
        if entity_reader(cls, True)(src) is not None or src.read() != tail:
            return "nullable reader: marker ff does not decode to None with exact consumption"
        # the two flavours stay distinct objects with distinct behaviour
        b = io.BytesIO()
        entity_writer(cls)(b, inst)
        if b.getvalue() != plain:
            return "plain writer changed after the nullable flavour was used"
        if entity_reader(cls)(io.BytesIO(plain + tail)) != inst:
            return "plain reader changed after the nullable flavour was used"
    except Exception as e:  # noqa
        return f"nullable flavour raised {cc.err_name(e)}"
    return None


def corrupt_last_leaf(v):
    """an ill-typed variant of a value: its LAST integer/string leaf becomes an integer too large for any
    wire type, so an encode fails part-way, after earlier writes.  None if there is no such leaf."""
    paths = []

    def walk(x, p):
        if x[0] in ("arr", "ent"):
            for k, y in enumerate(x[1]):
                walk(y, p + [k])
        elif x[0] in ("int", "str"):
            paths.append(p)
    walk(v, [])
    if not paths:
        return None

    def rebuild(x, p):
        if not p:
            return ("int", 2**70)
        items = list(x[1])
        items[p[0]] = rebuild(items[p[0]], p[1:])
        return (x[0], items)
    return rebuild(v, paths[-1])


def perturb(classes, prev, r, kind=None):
    """run a failing operation on the implementation; returns its description (replayable)"""
    from ..values import to_json

    idx, val, data = prev
    cls = classes[idx]
    kind = kind or r.choice(["failed-encode", "failed-decode"])
    if kind == "failed-encode":
        bad = corrupt_last_leaf(val)
        if bad is None:
            kind = "failed-decode"
        else:
            try:
                out = cc.impl_encode(cls, to_py(cls, bad))
            except Exception as e:  # noqa  (construction of the ill-typed instance itself may refuse)
                out = ("err", cc.err_name(e))
            return {"kind": kind, "cls": idx, "val": to_json(bad), "outcome": out[1] if out[0] != "ok" else "ok"}
    cut = data[: max(0, len(data) - 1 - r.randrange(3))]
    out = cc.impl_decode(cls, cut)
    return {"kind": kind, "cls": idx, "input": cut.hex(), "outcome": out[1] if out[0] != "ok" else "ok"}


def corpus_cases(prop):
    p = common.VERIF / "corpus" / f"{prop}.jsonl"
    if not p.exists():
        return []
    return [json.loads(line) for line in p.read_text().splitlines() if line.strip()]


def cls_name(classes, i):
    c = classes[i]
    return f"{c.__module__}:{c.__qualname__}"


def describe_case(classes, c):
    j = cc.case_json(c)
    j["class"] = cls_name(classes, c["cls"])
    for k in ("c01_why", "mutation", "why", "history"):
        if c.get(k):
            j[k] = c[k]
    return j


def smallest(cases, idxs, n=3):
    return sorted(idxs, key=lambda i: len(cases[i]["input"]))[:n]


def distribution(cases, classes):
    kinds = {}
    sizes = {"<16": 0, "16-127": 0, "128-1023": 0, ">=1024": 0}
    for c in cases:
        d = c["dec"]
        k = "ok" if d[0] == "ok" else d[1]
        kinds[k] = kinds.get(k, 0) + 1
        n = len(c["input"])
        sizes["<16" if n < 16 else "16-127" if n < 128 else "128-1023" if n < 1024 else ">=1024"] += 1
    return {"decode_outcomes": kinds, "input_sizes": sizes, "classes_touched": len({c["cls"] for c in cases})}


# ---- malformed stream -----------------------------------------------------------------------
def mutate(r, data: bytes):
    """One biased mutation of a valid encoding; returns (bytes, description)."""
    n = len(data)
    kind = r.choice(["trunc", "over", "over", "insert", "delete", "flipbit", "lenbias", "random", "multi", "bigvarint"])
    b = bytearray(data)
    if kind == "trunc" or n == 0:
        k = r.randrange(0, n + 1) if n else 0
        return bytes(b[:k]), f"truncate@{k}"
    if kind == "over":
        p = r.randrange(n)
        v = r.choice([0, 1, 0x7F, 0x80, 0xFF, 0xFE, r.getrandbits(8)])
        b[p] = v
        return bytes(b), f"overwrite@{p}={v}"
    if kind == "insert":
        p = r.randrange(n + 1)
        ins = bytes(r.choice([0, 0x80, 0xFF, r.getrandbits(8)]) for _ in range(r.choice([1, 1, 2, 5])))
        return bytes(b[:p] + ins + b[p:]), f"insert@{p}+{len(ins)}"
    if kind == "delete":
        p = r.randrange(n)
        k = r.choice([1, 1, 2, 4])
        return bytes(b[:p] + b[p + k:]), f"delete@{p}-{k}"
    if kind == "flipbit":
        p = r.randrange(n)
        bit = r.randrange(8)
        b[p] ^= 1 << bit
        return bytes(b), f"flip@{p}.{bit}"
    if kind == "lenbias":
        # make a byte look like a large length / count / continuation
        p = r.randrange(n)
        b[p] = r.choice([0x7F, 0xFF, 0x80, 0x81])
        if p + 1 < n and r.random() < 0.5:
            b[p + 1] = r.choice([0xFF, 0x7F, 0x80])
        return bytes(b), f"lenbias@{p}"
    if kind == "bigvarint":
        # a maximal-length varint (length prefix / count / tag near 2^35 or 2^31) at some position
        p = r.randrange(n)
        pat = r.choice([b"\xff\xff\xff\xff\x7f", b"\xff\xff\xff\xff\x08", b"\xff\xff\xff\xff\x0f", b"\x80\x80\x80\x80\x08",
                        b"\xff\xff\xff\xff\x07", b"\x81\x80\x80\x80\x10", b"\xff\xff\xff\xff\xff", b"\x7f\xff\xff\xff", b"\x80\x00\x00\x00"])
        if r.random() < 0.5:
            return bytes(b[:p] + pat + b[p + len(pat):]), f"bigvarint-over@{p}"
        return bytes(b[:p] + pat + b[p:]), f"bigvarint-insert@{p}"
    if kind == "multi":
        desc = []
        for _ in range(r.randint(2, 4)):
            p = r.randrange(n)
            b[p] = r.getrandbits(8)
            desc.append(str(p))
        return bytes(b), "multi@" + ",".join(desc)
    k = r.choice([0, 1, 2, 3, 8, 20, n])
    return bytes(r.getrandbits(8) for _ in range(k)), f"random{k}"


# same-length replacements of a valid multi-byte character inside a string payload: everything else in the message stays
# consistent, only the text is not UTF-8 any more (surrogates as CESU-8 writers emit them, overlong forms, > U+10FFFF,
# stray continuation bytes)
BAD_UTF8 = {
    2: [b"\xc0\x80", b"\xc1\xbf", b"\xc3\x28", b"\x80\x80"],
    3: [b"\xed\xa0\x80", b"\xed\xbf\xbf", b"\xed\xa0\xbd", b"\xe0\x80\x80", b"\xe0\x9f\xbf", b"\xe2\x82\x28", b"\xef\xbf\xc0"],
    4: [b"\xf4\x90\x80\x80", b"\xf0\x80\x80\x80", b"\xf0\x8f\xbf\xbf", b"\xf8\x88\x80\x80", b"\xf0\x9f\x98\x28"],
}
GOOD_UTF8 = [c.encode() for c in ("\u20ac", "\u4e2d", "\u0416", "\u00e9", "\U0001f600", "\U00010000", "\ufeff", "\u0800", "\ud7ff", "\u07ff")]


def utf8_variants(r, base: bytes, limit=3):
    out = []
    for good in GOOD_UTF8:
        pos = base.find(good)
        if pos >= 0:
            bad = r.choice(BAD_UTF8[len(good)])
            out.append((base[:pos] + bad + base[pos + len(good):], f"badutf8@{pos}:{bad.hex()}"))
        if len(out) >= limit:
            break
    return out


def neglen_variants(r, base: bytes, pad_len=40000):
    """a two- or four-byte field early in the message set to a value with the top bit set (a negative length that is not
    -1, or a huge unsigned one), followed by far more well-formed text than any such length could ask for"""
    out = []
    pad = b"k" * pad_len
    for _ in range(2):
        if len(base) < 4:
            break
        p = r.randrange(0, min(len(base) - 1, 24))
        pat = r.choice([b"\x80\x00", b"\x80\x01", b"\xc0\x00", b"\xff\xfe", b"\x80\x00\x00\x00", b"\xff\xff\xff\xfe", b"\x80\x00\x01\x00"])
        out.append((base[:p] + pat + base[p + len(pat):] + pad, f"neglen@{p}:{pat.hex()}+pad"))
    return out


def malformed(ctx, classes, n_schema, gen, per_class, base_cases=None):
    r = gen.r
    from kio.serial import entity_writer

    cases = []
    budget_violations = []
    for idx in range(n_schema):
        cls = classes[idx]
        val = gen.entity(cls)
        enc = cc.impl_encode(cls, to_py(cls, val))
        base = enc[1] if enc[0] == "ok" else b""
        # per-byte time budget measured on the valid encoding
        t0 = time.perf_counter()
        cc.impl_decode(cls, base)
        t_valid = time.perf_counter() - t0
        extra = utf8_variants(r, base)
        if cls.__name__ in ("RequestHeader", "ResponseHeader"):
            # systematically: every offset of a header, a 16-bit value with the top bit set, enough text behind it
            for p in range(0, max(0, min(len(base) - 1, 24))):
                for pat, pad_len in ((b"\x80\x00", 33000), (b"\xff\xfe", 66000)):
                    extra.append((base[:p] + pat + base[p + 2:] + b"k" * pad_len, f"neglen@{p}:{pat.hex()}+pad"))
        elif idx % 40 == 0:
            extra += neglen_variants(r, base)
        todo = [mutate(r, base) for _ in range(per_class)] + extra
        for data, desc in todo:
            t0 = time.perf_counter()
            dec = cc.impl_decode(cls, data)
            dt = time.perf_counter() - t0
            case = {"cls": idx, "input": data, "dec": dec, "mutation": desc, "base": base}
            if desc.startswith("neglen") and cls.__name__ in ("RequestHeader", "ResponseHeader"):
                case["skip_model"] = True       # dozens of 30-60 KB inputs: evaluated on the implementation only
            ok, why = True, None
            if dec[0] == "err":
                if dec[1] not in PERMITTED:
                    ok, why = False, f"forbidden error class {dec[1]}"
            else:
                consumed = len(data) - len(dec[2])
                if consumed < 0 or data[consumed:] != dec[2]:
                    ok, why = False, "unread remainder is not a suffix of the input"
                else:
                    # anything it returns can be encoded again
                    try:
                        buf = io.BytesIO()
                        entity_writer(cls)(buf, to_py(cls, dec[1]))
                    except Exception as e:  # noqa
                        ok, why = False, f"returned value cannot be re-encoded: {cc.err_name(e)}"
            if dt > 0.25 and dt > 200 * max(t_valid, 1e-4) * (1 + len(data) / max(len(base), 1)):
                # re-measure (the machine may be loaded): only a reproducibly slow decode counts
                best = dt
                for _ in range(3):
                    t0 = time.perf_counter()
                    cc.impl_decode(cls, data)
                    best = min(best, time.perf_counter() - t0)
                if best > 0.25 and best > 200 * max(t_valid, 1e-4) * (1 + len(data) / max(len(base), 1)):
                    ok, why = False, f"decode took {best:.3f}s at best of 4 (valid encoding: {t_valid:.5f}s)"
            case["c10_ok"] = ok
            case["why"] = why
            cases.append(case)
    return cases
