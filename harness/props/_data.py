"""Shared driver for the configuration properties (C08, C09, C13, C14, C15): instance theorem
over the translated schema + element-wise diagnosis + an implementation-side evaluation."""
from __future__ import annotations

import re

from .. import common


def quoted(out: str) -> list[str]:
    return re.findall(r'"((?:[^"]|"")*)"', out)


def instance_check(ctx, prop: str) -> dict:
    """Compile Diag<prop>.v (lists offending elements) and Inst<prop>.v (the theorem)."""
    d = ctx["build"]
    res = {"instance_obligations": 1, "instance_discharged": 0, "violations": [], "bad": []}
    rc, out, dt = common.compile_inst(d, f"Diag{prop}")
    if rc != 0:
        res["violations"].append({"kind": "instance", "what": f"Diag{prop}.v does not evaluate", "detail": out[-2000:]})
        return res
    bad = quoted(out)
    res["bad"] = bad
    rc2, out2, dt2 = common.compile_inst(d, f"Inst{prop}")
    closed = "Closed under the global context" in out2
    if rc2 == 0 and closed and not bad:
        res["instance_discharged"] = 1
    res["inst_seconds"] = round(dt + dt2, 2)
    res["inst_output"] = out2[-600:]
    if rc2 != 0 or bad:
        res["violations"].append({
            "kind": "instance", "theorem": f"{prop.lower()}_shipped (inst/Inst{prop}.v)",
            "what": "the instance theorem over the translated schema no longer holds",
            "offending": bad[:50], "n_offending": len(bad),
            "failing_input_found": bool(bad),
            "detail": out2[-1500:] if rc2 != 0 else ""})
    elif not closed:
        res["violations"].append({"kind": "theorem", "what": "Print Assumptions is not closed", "detail": out2[-1500:]})
    return res
