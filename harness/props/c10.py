"""C10 - malformed input fails fast with a decode error, never an internal error or hang."""
from .. import codec_corr as cc
from . import _codec


def allocation_probe(ctx, classes, n_schema, gen):
    """C10: 'never MemoryError ... time proportional to the input size'.  For every class with an array field: a valid
    message in which the element count of an array is replaced by a huge one (2^28 .. 2^32) while the data stays a few
    bytes long.  Decoded in a child process under an address-space cap with the peak allocation traced: the outcome must
    be a permitted error and the peak must stay within a few MiB."""
    from .. import envprobe
    from ..values import describe, to_py

    def with_array(v, n, k=0):
        """the k-th non-empty array (depth first) set to n copies of its first element"""
        seen = [0]
        done = [False]

        def go(x):
            if done[0]:
                return x
            if x[0] == "arr" and x[1]:
                if seen[0] == k:
                    done[0] = True
                    return ("arr", [x[1][0]] * n)
                seen[0] += 1
            if x[0] in ("arr", "ent"):
                return (x[0], [go(y) for y in x[1]])
            return x
        out = go(v)
        return out if done[0] else None

    def uvar(n):
        out = bytearray()
        while True:
            b = n & 0x7F
            n >>= 7
            out.append(b | (0x80 if n else 0))
            if not n:
                return bytes(out)

    r = gen.r
    cases = []
    seen_shapes = set()
    for idx in range(n_schema):
        cls = classes[idx]
        descs = describe(cls)
        arrays = [d for d in descs if d.array]
        if not arrays:
            continue
        shape = (cls.__flexible__, tuple(sorted((d.kafka or "struct", d.tag is not None) for d in arrays)))
        if shape in seen_shapes and r.random() > (0.05 if ctx["tier"] == "quick" else 0.5):
            continue            # one class per (flexibility, kinds of arrays) plus a sample
        seen_shapes.add(shape)
        got_k = set()
        for attempt in range(12):
            k = attempt % 4                   # every array field of the class, not only the first
            if k in got_k:
                continue
            v = gen.entity(cls, want_default=False)
            v1, v2 = with_array(v, 1, k), with_array(v, 2, k)
            if v1 is None or v2 is None:
                continue
            try:
                e1, e2 = cc.impl_encode(cls, to_py(cls, v1)), cc.impl_encode(cls, to_py(cls, v2))
            except Exception:  # noqa
                continue
            if e1[0] != "ok" or e2[0] != "ok":
                continue
            a, b = e1[1], e2[1]
            p = next((i for i in range(min(len(a), len(b))) if a[i] != b[i]), None)
            if p is None:
                continue
            if cls.__flexible__ and a[p] == 2 and b[p] == 3:            # compact count: uvarint(count + 1)
                for cnt in (2**28, 2**31 - 2, 2**32 - 2):
                    cases.append({"cls": idx, "input": a[:p] + uvar(cnt + 1) + a[p + 1:], "what": f"compact array count {cnt} at byte {p}"})
                got_k.add(k)
                continue
            if not cls.__flexible__ and p >= 3 and a[p - 3:p + 1] == b"\x00\x00\x00\x01":   # legacy count: int32
                for cnt in (2**28, 2**31 - 1):
                    cases.append({"cls": idx, "input": a[:p - 3] + cnt.to_bytes(4, "big") + a[p + 1:], "what": f"legacy array count {cnt} at byte {p - 3}"})
                got_k.add(k)
                continue
    return envprobe.allocation_probe(classes, cases) if cases else []


def scaling_probe(ctx, classes, n_schema, gen):
    """The time clause, beyond the per-input budget: the same message shape at size n and at size 8n (the first
    array, the first string and the first bytes field blown up; valid, cut in the middle, and with a corrupted
    tail) must take time proportional to the size.  Verdict super-linear only when the larger input takes more
    than 0.4 s AND more than 4 x 8 times the smaller one, best of three runs each (a loaded machine slows both)."""
    import time
    from ..values import describe, to_py

    def blow(v, n):
        """first array -> n copies of its first item; else first str/bytes -> n bytes"""
        done = [False]

        def go(x, allow_scalar):
            if done[0]:
                return x
            if x[0] == "arr" and x[1]:
                done[0] = True
                return ("arr", [x[1][0]] * n)
            if allow_scalar and x[0] in ("str", "bytes") and x[1]:
                done[0] = True
                return (x[0], b"k" * n if x[0] == "str" else (x[1] * (n // len(x[1]) + 1))[:n])
            if x[0] in ("arr", "ent"):
                return (x[0], [go(y, allow_scalar) for y in x[1]])
            return x
        out = go(v, False)
        if not done[0]:
            out = go(v, True)
        return out if done[0] else None

    def linear_reference(factor):
        """time(factor * n) / (factor * time(n)) of a linear pure-Python workload that allocates like a decoder (a tuple of small
        objects per element): 1.0 on a quiet machine, more when large allocations are being slowed down from outside"""
        import gc

        def work(n):
            t = 1e9
            for _ in range(3):
                gc.collect(); gc.disable()
                try:
                    t0 = time.perf_counter()
                    acc = tuple((i, str(i), bytes(8)) for i in range(n))
                    t = min(t, time.perf_counter() - t0)
                    del acc
                finally:
                    gc.enable()
            return t
        n = 40000
        a, b = work(n), work(n * factor)
        return b / (factor * max(a, 1e-6))

    def best(cls, data, reps=3):
        import gc
        t = 1e9
        for _ in range(reps):
            gc.collect()
            gc.disable()        # the collector's passes over the growing result are CPython's cost, not the decoder's
            try:
                t0 = time.perf_counter()
                cc.impl_decode(cls, data, limit_s=60.0)
                t = min(t, time.perf_counter() - t0)
            finally:
                gc.enable()
        return t

    r = gen.r
    out = []
    want = 5 if ctx["tier"] == "quick" else 40       # classes
    order = list(range(n_schema))
    r.shuffle(order)
    # at least two flexible classes without tagged fields of their own first (they take the unknown-tags shape)
    pref = [i for i in order if getattr(classes[i], "__flexible__", False) and any(d.array for d in describe(classes[i]))
            and not any(d.tag is not None for d in describe(classes[i]))][:2]
    # ... and two NON-flexible classes with arrays (the legacy array reader is a different function)
    pref += [i for i in order if not getattr(classes[i], "__flexible__", False) and any(d.array for d in describe(classes[i]))][:2]
    order = pref + [i for i in order if i not in set(pref)]
    for idx in order:
        if len(out) >= 3 * want:
            break
        cls = classes[idx]
        if not any(d.array or (len(out) % 12 == 9 and d.kafka in ("string", "bytes", "records")) for d in describe(cls)):
            continue
        val = None
        for _ in range(4):
            v = gen.entity(cls, want_default=False)
            small, large = blow(v, 4000), blow(v, 32000)
            if small is not None and large is not None:
                val = v
                break
        if val is None:
            continue
        try:
            es, el = cc.impl_encode(cls, to_py(cls, small)), cc.impl_encode(cls, to_py(cls, large))
        except Exception:  # noqa  (value not constructible: not this probe's business)
            continue
        if es[0] != "ok" or el[0] != "ok" or len(el[1]) < 4 * len(es[1]):
            continue
        def uvar(n):
            out = bytearray()
            while True:
                b = n & 0x7F
                n >>= 7
                out.append(b | (0x80 if n else 0))
                if not n:
                    return bytes(out)

        def with_unknown_tags(b):
            """a forward-compatible message: the (empty) top-level tagged section replaced by len/16 unknown, ascending,
            zero-size tagged fields - large content followed by many unknown tags"""
            k = max(8, len(b) // 16)
            return b[:-1] + uvar(k) + b"".join(uvar(100000 + j) + b"\x00" for j in range(k))

        shapes = [("valid", lambda b: b), ("cut", lambda b: b[: len(b) // 2]), ("corrupt-tail", lambda b: b[:-3] + b"\xff\xff\xff")]
        if getattr(cls, "__flexible__", False) and es[1].endswith(b"\x00") and el[1].endswith(b"\x00") and not any(
                d.tag is not None for d in describe(cls)):
            shapes.append(("unknown-tags", with_unknown_tags))
        for shape, f in shapes:
            ds, dl = f(es[1]), f(el[1])
            ts, tl = best(cls, ds), best(cls, dl)
            env = 1.0
            verdict = "super-linear" if (tl > 0.4 and tl > 32 * max(ts, 1e-4)) else "linear"
            if verdict == "super-linear":
                # a loaded machine (other processes competing for cores, caches and memory) makes LARGE allocations slower per
                # unit than small ones: re-measure several times, and scale the threshold by what a plainly linear workload of
                # the same allocation pattern shows at the same two sizes at the same moment
                for _ in range(3 if tl < 5.0 else 0):        # (bounded: slow cases are decided by the calibration alone)
                    time.sleep(0.5)
                    ts, tl = min(ts, best(cls, ds, reps=1)), min(tl, best(cls, dl, reps=1))
                env = max(1.0, linear_reference(len(dl) // max(len(ds), 1)))
                verdict = "super-linear" if (tl > 0.4 and tl > 32 * env * max(ts, 1e-4)) else "linear"
            out.append({"class": _codec.cls_name(classes, idx), "shape": shape, "bytes": [len(ds), len(dl)],
                        "seconds": [round(ts, 5), round(tl, 5)], "verdict": verdict, "environment_nonlinearity": round(env, 2)})
    return out


def run(ctx):
    classes, n_schema, gen = _codec.setup(ctx)
    per_class = 6 if ctx["tier"] == "quick" else 120
    cases = _codec.malformed(ctx, classes, n_schema, gen, per_class)
    # forward-compatible messages (unknown tagged fields) damaged at the end: truncations and
    # inflated size prefixes of the unknown entries
    from . import _wire
    import io
    from kio.serial import entity_reader, entity_writer
    from ..values import to_py
    wire = _wire.wire_cases(ctx, classes, n_schema, gen, 1, p_send=0.3, p_unknown=1.0)
    rr = gen.r
    for c in wire[:: (2 if ctx["tier"] == "quick" else 1)]:
        base = c["ref"]
        if not base:
            continue
        variants = []
        for k in range(max(0, len(base) - 6), len(base)):
            variants.append((base[:k], f"truncate@{k}"))
        b = bytearray(base)
        for _ in range(3):
            p = rr.randrange(max(0, len(b) - 8), len(b))
            b2 = bytearray(base); b2[p] = rr.choice([0x7F, 0x20, 0x05, 0x02, 0xFF])
            variants.append((bytes(b2), f"lenbias@{p}"))
        for data, desc in variants:
            dec = cc.impl_decode(classes[c["cls"]], data)
            case = {"cls": c["cls"], "input": data, "dec": dec, "mutation": "fwdcompat-" + desc, "base": base}
            ok, why = True, None
            if dec[0] == "err":
                if dec[1] not in _codec.PERMITTED:
                    ok, why = False, f"forbidden outcome {dec[1]}"
            else:
                try:
                    entity_writer(classes[c["cls"]])(io.BytesIO(), to_py(classes[c["cls"]], dec[1]))
                except Exception as e:  # noqa
                    ok, why = False, f"returned value cannot be re-encoded: {cc.err_name(e)}"
            case["c10_ok"], case["why"] = ok, why
            cases.append(case)
    modelled = [i for i, c in enumerate(cases) if not c.get("skip_model")]
    failing_m, errors = cc.run_coq_cases(ctx["build"], "C10", [cases[i] for i in modelled], kind="dcase")
    failing = [modelled[i] for i in failing_m]
    viol = []
    alloc = allocation_probe(ctx, classes, n_schema, gen)
    greedy = [a for a in alloc if a["outcome"] not in _codec.PERMITTED and a["outcome"] != "ok" or a["peak"] > 4 * 2**20 + 64 * a["input_bytes"]
              or a["seconds"] > 2.0]
    if greedy:
        viol.append({"kind": "property", "what": "a short malformed input with an inflated element count makes the decoder allocate or "
                     "compute far beyond the input size, or fail with a forbidden error", "failing_input_found": True,
                     "n_failing": len(greedy), "cases": greedy[:3]})
    scaling = scaling_probe(ctx, classes, n_schema, gen)
    slow = [x for x in scaling if x["verdict"] == "super-linear"]
    if slow:
        viol.append({"kind": "property", "what": "decoding time grows faster than the input size", "failing_input_found": True,
                     "n_failing": len(slow), "cases": slow[:3]})
    prop_fail = [i for i, c in enumerate(cases) if not c["c10_ok"]]
    from .. import envprobe
    env_diffs, n_env = envprobe.decode_differences(classes, cases, sample=300 if ctx["tier"] == "quick" else 3000, rnd=gen.r)
    if env_diffs:
        viol.append({"kind": "property", "what": "the outcome of decoding malformed input depends on how the interpreter was started",
                     "failing_input_found": True, "n_failing": len(env_diffs), "cases": env_diffs[:3]})
    if errors:
        viol.append({"kind": "correspondence", "what": "model evaluation failed", "detail": errors[:3]})
    if prop_fail:
        viol.append({
            "kind": "property", "what": "decoding malformed input gave a forbidden outcome on the implementation",
            "failing_input_found": True, "n_failing": len(prop_fail),
            "cases": [_codec.describe_case(classes, cases[i]) for i in _codec.smallest(cases, prop_fail)]})
    elif failing:
        viol.append({
            "kind": "correspondence", "observation": "C10: outcome class / value and unread remainder (Codec/Check.v check_dcase)",
            "what": "model and implementation disagree on malformed input; no input with a forbidden outcome was found",
            "failing_input_found": False, "n_disagreements": len(failing),
            "cases": [_codec.describe_case(classes, cases[i]) for i in _codec.smallest(cases, failing)]})
    kinds = {}
    for c in cases:
        k = c["mutation"].split("@")[0].rstrip("0123456789")
        kinds[k] = kinds.get(k, 0) + 1
    cov = {
        "evaluations": len(cases), "distinct_nontrivial": len({(c["cls"], c["input"]) for c in cases if c["input"] != c["base"]}),
        "traces_validated_against_impl": len(modelled) - len(failing), "implementation_only_cases": len(cases) - len(modelled),
        "rule": "per class one valid encoding mutated (truncate, overwrite, insert, delete, bit flip, length/continuation "
                "bias, multi-byte, random bytes); non-trivial = differs from the valid encoding; distinct by (class, bytes)",
        "time_scaling_probes": scaling, "allocation_probes": len(alloc), "allocation_probe_max_peak_bytes": max([a["peak"] for a in alloc] or [0]), "decodes_repeated_under_other_interpreter_settings": n_env, "mutation_kinds": kinds, "distribution": _codec.distribution(cases, classes),
        "samples": [_codec.describe_case(classes, c) for c in cases[:2]],
        "property_failures_on_implementation": len(prop_fail), "correspondence_disagreements": len(failing),
    }
    return {"violations": viol, "coverage": cov}
