"""C10 - malformed input fails fast with a decode error, never an internal error or hang."""
from .. import codec_corr as cc
from . import _codec


def run(ctx):
    classes, n_schema, gen = _codec.setup(ctx)
    per_class = 6 if ctx["tier"] == "quick" else 120
    cases = _codec.malformed(ctx, classes, n_schema, gen, per_class)
    # forward-compatible messages (unknown tagged fields) damaged at the end: truncations and
    # inflated size prefixes of the unknown entries
    from . import _wire
    import io
    from kio.serial import entity_reader, entity_writer
    from ..values import to_py
    wire = _wire.wire_cases(ctx, classes, n_schema, gen, 1, p_send=0.3, p_unknown=1.0)
    rr = gen.r
    for c in wire[:: (2 if ctx["tier"] == "quick" else 1)]:
        base = c["ref"]
        if not base:
            continue
        variants = []
        for k in range(max(0, len(base) - 6), len(base)):
            variants.append((base[:k], f"truncate@{k}"))
        b = bytearray(base)
        for _ in range(3):
            p = rr.randrange(max(0, len(b) - 8), len(b))
            b2 = bytearray(base); b2[p] = rr.choice([0x7F, 0x20, 0x05, 0x02, 0xFF])
            variants.append((bytes(b2), f"lenbias@{p}"))
        for data, desc in variants:
            dec = cc.impl_decode(classes[c["cls"]], data)
            case = {"cls": c["cls"], "input": data, "dec": dec, "mutation": "fwdcompat-" + desc, "base": base}
            ok, why = True, None
            if dec[0] == "err":
                if dec[1] not in _codec.PERMITTED:
                    ok, why = False, f"forbidden outcome {dec[1]}"
            else:
                try:
                    entity_writer(classes[c["cls"]])(io.BytesIO(), to_py(classes[c["cls"]], dec[1]))
                except Exception as e:  # noqa
                    ok, why = False, f"returned value cannot be re-encoded: {cc.err_name(e)}"
            case["c10_ok"], case["why"] = ok, why
            cases.append(case)
    failing, errors = cc.run_coq_cases(ctx["build"], "C10", cases, kind="dcase")
    viol = []
    prop_fail = [i for i, c in enumerate(cases) if not c["c10_ok"]]
    if errors:
        viol.append({"kind": "correspondence", "what": "model evaluation failed", "detail": errors[:3]})
    if prop_fail:
        viol.append({
            "kind": "property", "what": "decoding malformed input gave a forbidden outcome on the implementation",
            "failing_input_found": True, "n_failing": len(prop_fail),
            "cases": [_codec.describe_case(classes, cases[i]) for i in _codec.smallest(cases, prop_fail)]})
    elif failing:
        viol.append({
            "kind": "correspondence", "observation": "C10: outcome class / value and unread remainder (Codec/Check.v check_dcase)",
            "what": "model and implementation disagree on malformed input; no input with a forbidden outcome was found",
            "failing_input_found": False, "n_disagreements": len(failing),
            "cases": [_codec.describe_case(classes, cases[i]) for i in _codec.smallest(cases, failing)]})
    kinds = {}
    for c in cases:
        k = c["mutation"].split("@")[0].rstrip("0123456789")
        kinds[k] = kinds.get(k, 0) + 1
    cov = {
        "evaluations": len(cases), "distinct_nontrivial": len({(c["cls"], c["input"]) for c in cases if c["input"] != c["base"]}),
        "traces_validated_against_impl": len(cases) - len(failing),
        "rule": "per class one valid encoding mutated (truncate, overwrite, insert, delete, bit flip, length/continuation "
                "bias, multi-byte, random bytes); non-trivial = differs from the valid encoding; distinct by (class, bytes)",
        "mutation_kinds": kinds, "distribution": _codec.distribution(cases, classes),
        "samples": [_codec.describe_case(classes, c) for c in cases[:2]],
        "property_failures_on_implementation": len(prop_fail), "correspondence_disagreements": len(failing),
    }
    return {"violations": viol, "coverage": cov}
