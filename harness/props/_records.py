"""Shared by C17/C18: running the record-batch model on generated cases (sharded over parallel coqc
processes: one big file used to dominate the wall time of both checks)."""
import subprocess

from .. import common
from .. import records_corr as rc
from ..values import coq_bytes


def _shards(terms, max_chars=600_000, max_items=150):
    """consecutive chunks of the terms, bounded in text size and item count; yields (start, chunk)"""
    start, cur, size = 0, [], 0
    for i, t in enumerate(terms):
        if cur and (size + len(t) > max_chars or len(cur) >= max_items):
            yield start, cur
            start, cur, size = i, [], 0
        cur.append(t)
        size += len(t)
    if cur:
        yield start, cur


def run_coq(ctx, name, wcases=(), rcases=(), pcases=()):
    """wcases: (new_batch, impl write result); rcases: (bytes, impl read result); pcases: (batch, impl write).
    Returns ({"w": failing indices, "r": ..., "p": ...}, error text)."""
    d = ctx["build"]
    groups = []
    if wcases:
        groups.append(("w", "wcase", "check_wcase", [
            f"{{| w_nb := {rc.coq_new_batch(nb)}; w_out := {rc.coq_res(out, lambda o: coq_bytes(o[1]))} |}}" for nb, out in wcases]))
    if rcases:
        groups.append(("r", "rcase", "check_rcase", [
            f"{{| rd_in := {coq_bytes(b)}; rd_out := {rc.coq_res(out, lambda o: '(' + rc.coq_batch(o[1]) + ', ' + coq_bytes(o[2]) + ')')} |}}"
            for b, out in rcases]))
    if pcases:
        groups.append(("p", "pcase", "check_pcase", [
            f"{{| p_b := {rc.coq_batch(b)}; p_out := {rc.coq_res(out, lambda o: coq_bytes(o[1]))} |}}" for b, out in pcases]))
    files = []
    for tag, ty, fn, terms in groups:
        for n, (start, chunk) in enumerate(_shards(terms)):
            fname = f"{name}{tag}_{n}"
            (d / f"{fname}.v").write_text(rc.HEADER + f"Definition cases : list {ty} := [\n" + ";\n".join(chunk)
                                          + f"].\nEval vm_compute in failing {fn} cases.\n")
            files.append((fname, tag, start))
    res = {tag: [] for tag, *_ in groups}
    errors = []
    running, pending = [], list(files)
    while pending or running:
        while pending and len(running) < 14:
            fname, tag, start = pending.pop(0)
            running.append((fname, tag, start, subprocess.Popen(
                ["timeout", "1500", "coqc", *common.COQ_ARGS, "-Q", str(d), "KioG", f"{fname}.v"], cwd=d,
                stdout=subprocess.PIPE, stderr=subprocess.STDOUT, text=True)))
        fname, tag, start, p = running.pop(0)
        rcode, out = common.coq_result(d, fname, p)
        for ext in (".v", ".vo", ".vok", ".vos", ".glob"):
            (d / f"{fname}{ext}").unlink(missing_ok=True)
        if rcode != 0:
            errors.append(f"{fname}: {out[-1200:]}")
        else:
            res[tag] += [start + i for i in common.parse_nat_list(out)]
    if errors:
        return None, "\n".join(errors[:3])
    return res, ""
