"""Shared by C17/C18: running the record-batch model on generated cases."""
from .. import common
from .. import records_corr as rc
from ..values import coq_bytes


def run_coq(ctx, name, wcases=(), rcases=(), pcases=()):
    """wcases: (new_batch, impl write result); rcases: (bytes, impl read result); pcases: (batch, impl write)."""
    txt = rc.HEADER
    parts = []
    if wcases:
        txt += "Definition wcases : list wcase := [\n" + ";\n".join(
            f"{{| w_nb := {rc.coq_new_batch(nb)}; w_out := {rc.coq_res(out, lambda o: coq_bytes(o[1]))} |}}"
            for nb, out in wcases) + "].\nEval vm_compute in failing check_wcase wcases.\n"
        parts.append("w")
    if rcases:
        txt += "Definition rcases : list rcase := [\n" + ";\n".join(
            f"{{| rd_in := {coq_bytes(d)}; rd_out := {rc.coq_res(out, lambda o: '(' + rc.coq_batch(o[1]) + ', ' + coq_bytes(o[2]) + ')')} |}}"
            for d, out in rcases) + "].\nEval vm_compute in failing check_rcase rcases.\n"
        parts.append("r")
    if pcases:
        txt += "Definition pcases : list pcase := [\n" + ";\n".join(
            f"{{| p_b := {rc.coq_batch(b)}; p_out := {rc.coq_res(out, lambda o: coq_bytes(o[1]))} |}}"
            for b, out in pcases) + "].\nEval vm_compute in failing check_pcase pcases.\n"
        parts.append("p")
    rcode, out, dt = common.run_generated(ctx["build"], name, txt, timeout=1500)
    if rcode != 0:
        return None, out[-1500:]
    chunks = out.split(": list nat")
    res = {}
    for tag, chunk in zip(parts, chunks):
        res[tag] = common.parse_nat_list(chunk)
    return res, ""
