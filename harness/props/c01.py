"""C01 - encode then decode is the identity (exact consumption)."""
from .. import codec_corr as cc
from . import _codec


def huge_payload_roundtrips(ctx, classes, n_schema, gen):
    """No width of the format limits a record set to a 'reasonable' size: one instance per flavour (legacy / compact) whose
    bytes/records field holds 2^27 + 3 bytes (beyond any 1 MiB / 64 MiB / 100 MiB / 128 MiB constant an implementation might
    pick), encoded and decoded on the implementation only."""
    import io

    from kio.serial import entity_reader, entity_writer
    from ..values import describe, to_py

    bad = []
    done = {True: False, False: False}
    size = 2**27 + 3
    payload = None
    for idx in range(n_schema):
        cls = classes[idx]
        flex = bool(cls.__flexible__)
        if done[flex]:
            continue
        descs = describe(cls)
        pos = next((k for k, d in enumerate(descs) if d.kafka in ("bytes", "records") and not d.array and d.tag is None and d.ent is None), None)
        if pos is None:
            continue
        done[flex] = True
        if payload is None:
            payload = (bytes(range(256)) * (size // 256 + 1))[:size]
        v = gen.entity(cls)
        v[1][pos] = ("bytes", b"")
        inst = to_py(cls, v)
        import dataclasses
        inst = dataclasses.replace(inst, **{descs[pos].name: (type(getattr(inst, descs[pos].name)) if getattr(inst, descs[pos].name) is not None else bytes)(payload)})
        name = _codec.cls_name(classes, idx)
        try:
            buf = io.BytesIO()
            entity_writer(cls)(buf, inst)
            n = buf.tell()
            buf.write(b"\xde\xad")
            buf.seek(0)
            back = entity_reader(cls)(buf)
            if back != inst or buf.tell() != n or buf.read() != b"\xde\xad":
                bad.append({"class": name, "payload_bytes": size, "what": "decode(encode(x)) != x or the decoder did not consume exactly the encoding"})
        except Exception as e:  # noqa
            bad.append({"class": name, "payload_bytes": size, "what": f"raised {cc.err_name(e)}: {str(e)[:120]}"})
        if all(done.values()):
            break
    return bad


def run(ctx):
    classes, n_schema, gen = _codec.setup(ctx)
    per_class = 3 if ctx["tier"] == "quick" else 40
    cases = _codec.structured(ctx, classes, n_schema, gen, per_class)
    failing, errors = cc.run_coq_cases(ctx["build"], "C01", cases)
    viol = []
    huge = huge_payload_roundtrips(ctx, classes, n_schema, gen)
    if huge:
        viol.append({"kind": "property", "what": "an instance with a very large byte-string field does not round-trip",
                     "failing_input_found": True, "n_failing": len(huge), "cases": huge[:3]})
    prop_fail = [i for i, c in enumerate(cases) if not c["c01_ok"]]
    if errors:
        viol.append({"kind": "correspondence", "what": "model evaluation failed", "detail": errors[:3]})
    if prop_fail:
        viol.append({
            "kind": "property", "what": "decode(encode(x)) != x, or the decoder did not consume exactly the encoding, "
            "on the implementation", "failing_input_found": True,
            "n_failing": len(prop_fail),
            "cases": [_codec.describe_case(classes, cases[i]) for i in _codec.smallest(cases, prop_fail)],
            "model_agrees_with_implementation": not bool(set(prop_fail) & set(failing))})
    elif failing:
        viol.append({
            "kind": "correspondence", "observation": "C01: encoded bytes, decoded value, unread tail (Codec/Check.v check_case)",
            "what": "model and implementation disagree; no input violating the property itself was found in the stream",
            "failing_input_found": False, "n_disagreements": len(failing),
            "cases": [_codec.describe_case(classes, cases[i]) for i in _codec.smallest(cases, failing)]})
    distinct = len({(c["cls"], c["input"]) for c in cases})
    cov = {
        "evaluations": len(cases), "distinct_nontrivial": distinct,
        "traces_validated_against_impl": len(cases) - len(failing),
        "rule": "per class, generated typed canonical instances (null/empty/one/many arrays, null/non-null "
                "nullable fields, default/non-default tagged fields, boundary primitives); a case is non-trivial "
                "always (every instance exercises a full encode+decode); distinct by (class, encoded bytes)",
        "huge_payload_roundtrips": "2 instances with a 2^27+3 byte field (legacy and compact)", "generator_stats": gen.stats, "distribution": _codec.distribution(cases, classes),
        "samples": [_codec.describe_case(classes, c) for c in cases[:2]],
        "property_failures_on_implementation": len(prop_fail), "correspondence_disagreements": len(failing),
    }
    return {"violations": viol, "coverage": cov}
