"""C01 - encode then decode is the identity (exact consumption)."""
from .. import codec_corr as cc
from . import _codec


def run(ctx):
    classes, n_schema, gen = _codec.setup(ctx)
    per_class = 3 if ctx["tier"] == "quick" else 40
    cases = _codec.structured(ctx, classes, n_schema, gen, per_class)
    failing, errors = cc.run_coq_cases(ctx["build"], "C01", cases)
    viol = []
    prop_fail = [i for i, c in enumerate(cases) if not c["c01_ok"]]
    if errors:
        viol.append({"kind": "correspondence", "what": "model evaluation failed", "detail": errors[:3]})
    if prop_fail:
        viol.append({
            "kind": "property", "what": "decode(encode(x)) != x, or the decoder did not consume exactly the encoding, "
            "on the implementation", "failing_input_found": True,
            "n_failing": len(prop_fail),
            "cases": [_codec.describe_case(classes, cases[i]) for i in _codec.smallest(cases, prop_fail)],
            "model_agrees_with_implementation": not bool(set(prop_fail) & set(failing))})
    elif failing:
        viol.append({
            "kind": "correspondence", "observation": "C01: encoded bytes, decoded value, unread tail (Codec/Check.v check_case)",
            "what": "model and implementation disagree; no input violating the property itself was found in the stream",
            "failing_input_found": False, "n_disagreements": len(failing),
            "cases": [_codec.describe_case(classes, cases[i]) for i in _codec.smallest(cases, failing)]})
    distinct = len({(c["cls"], c["input"]) for c in cases})
    cov = {
        "evaluations": len(cases), "distinct_nontrivial": distinct,
        "traces_validated_against_impl": len(cases) - len(failing),
        "rule": "per class, generated typed canonical instances (null/empty/one/many arrays, null/non-null "
                "nullable fields, default/non-default tagged fields, boundary primitives); a case is non-trivial "
                "always (every instance exercises a full encode+decode); distinct by (class, encoded bytes)",
        "generator_stats": gen.stats, "distribution": _codec.distribution(cases, classes),
        "samples": [_codec.describe_case(classes, c) for c in cases[:2]],
        "property_failures_on_implementation": len(prop_fail), "correspondence_disagreements": len(failing),
    }
    return {"violations": viol, "coverage": cov}
