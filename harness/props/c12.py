"""C12 - primitive value types denote exactly their wire domains."""
import datetime
import io
import json
import random
import struct

from .. import codec_corr as cc
from .. import common
from ..values import EPOCH, coq_bytes, coq_z
from . import _data

US = datetime.timedelta(microseconds=1)


def py_of(v):
    k = v[0]
    if k == "none":
        return None
    if k == "other":
        import decimal
        import fractions
        return {"bytearray": bytearray(b"ab"), "memoryview": memoryview(b"ab"), "list": [1], "tuple": (1,), "decimal": decimal.Decimal(1),
                "fraction": fractions.Fraction(1), "complex": complex(1), "date": datetime.date(2024, 1, 1), "time": datetime.time(1, 2)}[v[1]]
    if k in ("bool", "int"):
        return v[1]
    if k == "float":
        return struct.unpack(">d", struct.pack(">Q", v[1]))[0]
    if k == "str":
        return v[1].decode()
    if k == "bytes":
        return v[1]
    if k == "td":
        return datetime.timedelta(microseconds=v[1])
    if k == "dt":
        aware, us, tz = v[1], v[2], v[3]
        # via the local wall time: near datetime.min / datetime.max the instant itself (us, in UTC) may lie outside
        # the years 1..9999 while the local time in a zone with an offset is representable
        local = datetime.datetime(1970, 1, 1) + datetime.timedelta(microseconds=us + tz * 60 * 10**6)
        if not aware:
            return local
        return local.replace(tzinfo=datetime.timezone(datetime.timedelta(minutes=tz)))
    raise ValueError(v)


def coq_of(v):
    k = v[0]
    if k in ("none", "other"):
        return "PyNone"         # for the model: an object of no relevant type
    if k == "bool":
        return f"(PyBool {'true' if v[1] else 'false'})"
    if k == "int":
        return f"(PyInt {coq_z(v[1])})"
    if k == "float":
        return f"(PyFloat {v[1]})"
    if k == "str":
        return f"(PyStr {coq_bytes(v[1])})"
    if k == "bytes":
        return f"(PyBytes {coq_bytes(v[1])})"
    if k == "td":
        return f"(PyTimedelta {coq_z(v[1])})"
    if k == "dt":
        return f"(PyDatetime {'true' if v[1] else 'false'} {coq_z(v[2])})"
    raise ValueError(v)


DOC_INT = {"i8": (-128, 127), "i16": (-2**15, 2**15 - 1), "i32": (-2**31, 2**31 - 1), "i64": (-2**63, 2**63 - 1),
           "u8": (0, 2**8 - 1), "u16": (0, 2**16 - 1), "u32": (0, 2**32 - 1), "u64": (0, 2**64 - 1),
           "uvarint": (0, 2**35 - 1), "uvarlong": (0, 2**70 - 1), "svarint": (-2**34, 2**34 - 1), "svarlong": (-2**69, 2**69 - 1)}
_TD_MIN = datetime.timedelta.min // US
_TD_MAX = datetime.timedelta.max // US


def doc_member(name, v):
    """The documented domain of a primitive type, written down here independently of kio and of the Coq
    model (from the class docstrings / Kafka's wire widths).  None where this table passes no judgement
    (cross-kind values such as bool-for-int, whose treatment only the model fixes)."""
    k = v[0]
    if name in DOC_INT:
        return (DOC_INT[name][0] <= v[1] <= DOC_INT[name][1]) if k == "int" else (None if k == "bool" else False)
    if name == "f64":
        return ((v[1] >> 52) & 0x7FF) != 0x7FF if k == "float" else False
    if name == "i32Timedelta":
        return -(2**31) * 1000 <= v[1] <= (2**31 - 1) * 1000 if k == "td" else False
    if name == "i64Timedelta":
        return _TD_MIN <= v[1] <= _TD_MAX - 86400 * 10**6 if k == "td" else False
    if name == "TZAwareMicros":
        return (v[1] and v[2] >= 0) if k == "dt" else False
    if name == "TZAware":
        return (v[1] and v[2] >= 0 and v[2] % 1000 == 0) if k == "dt" else False
    if name == "Records":
        return k == "bytes"          # immutable byte strings only
    return None


def run(ctx):
    res = _data.instance_check(ctx, "C12")
    viol = res["violations"]
    from kio.static import primitive as P
    from kio.serial import readers, writers

    r = random.Random(ctx["seed"])
    quick = ctx["tier"] == "quick"
    intervals = {n: t for n, t in vars(P).items() if isinstance(t, type) and issubclass(t, P.Interval) and t is not P.Interval}
    TYPES = []   # (python type, coq ptype, name)
    for n, t in intervals.items():
        TYPES.append((t, f"(TInterval {coq_z(t.__low__)} {coq_z(t.__high__)})", n))
    TYPES += [(P.f64, "TF64", "f64"), (P.i32Timedelta, "TTd32", "i32Timedelta"), (P.i64Timedelta, "TTd64", "i64Timedelta"),
              (P.TZAware, "TTzAware", "TZAware"), (P.TZAwareMicros, "TTzAwareMicros", "TZAwareMicros"), (P.Records, "TRecords", "Records")]
    TD_MIN = datetime.timedelta.min // US
    TD_MAX = datetime.timedelta.max // US
    DT_MAX = (datetime.datetime.max.replace(tzinfo=datetime.UTC) - EPOCH) // US

    def int_vals():
        out = set()
        for t in intervals.values():
            for b in (t.__low__, t.__high__):
                out |= {b - 2, b - 1, b, b + 1, b + 2}
        for p in range(0, 75, 3):
            out |= {2**p, -(2**p), 2**p - 1}
        for _ in range(20 if quick else 300):
            out.add(r.randint(-2**72, 2**72))
        return [("int", z) for z in sorted(out)]

    vals = int_vals()
    vals += [("bool", True), ("bool", False), ("none",), ("str", b""), ("str", b"12"), ("bytes", b""), ("bytes", b"\x00\x01")]
    # objects of unrelated (but tempting) types: members of nothing
    vals += [("other", k) for k in ("bytearray", "memoryview", "list", "tuple", "decimal", "fraction", "complex", "date", "time")]
    for bits in (0, 1 << 63, 0x3FF0000000000000, 0x7FF0000000000000, 0xFFF0000000000000, 0x7FF8000000000000, 0x7FF0000000000001,
                 0x7FEFFFFFFFFFFFFF, 1, 0x000FFFFFFFFFFFFF, 0x4059000000000000):
        vals.append(("float", bits))
    for _ in range(10 if quick else 200):
        vals.append(("float", r.getrandbits(64)))
    td_pts = set()
    for base in (-(2**31) * 1000, (2**31 - 1) * 1000, TD_MIN, TD_MAX, TD_MAX - 86400000000, 0):
        for d in (-1001, -1000, -999, -501, -500, -499, -1, 0, 1, 499, 500, 501, 999, 1000, 1001):
            if TD_MIN <= base + d <= TD_MAX:
                td_pts.add(base + d)
    for _ in range(20 if quick else 300):
        td_pts.add(r.randint(TD_MIN, TD_MAX)); td_pts.add(r.randint(-2**32 * 1000, 2**32 * 1000))
    for _ in range(120 if quick else 3000):       # exact half-millisecond ties, both signs, many magnitudes
        k = r.choice([r.randrange(0, 5000), r.randrange(0, 2**22), r.randrange(0, 2**31 - 1)])
        td_pts.add(r.choice([1, -1]) * (k * 1000 + 500))
    vals += [("td", u) for u in sorted(td_pts)]
    dt_pts = set()
    for base in (0, 1000, 1500000, 1700000000123000, DT_MAX, DT_MAX - 999, -1, -1000, -62135596800000000):
        for d in (-1000, -1, 0, 1, 500, 999, 1000):
            if -62135596800000000 <= base + d <= DT_MAX:
                dt_pts.add(base + d)
    for _ in range(20 if quick else 300):
        dt_pts.add(r.randint(-62135596800000000, DT_MAX))
    for u in sorted(dt_pts):
        vals.append(("dt", True, u, 0))
        if 86400000000 < u < DT_MAX - 86400000000:
            vals.append(("dt", True, u, r.choice([60, -300, 330, 765])))
            vals.append(("dt", False, u, 0))
    # aware datetimes whose LOCAL time is at the ends of the datetime range in zones with an offset: the instant is
    # before year 1 (positive offset at datetime.min: not a member) or after year 9999 (negative offset at
    # datetime.max: a member by the documented domain, non-negative whole-millisecond instant)
    LOCAL_MIN = (datetime.datetime.min - datetime.datetime(1970, 1, 1)) // US
    LOCAL_MAX = (datetime.datetime.max - datetime.datetime(1970, 1, 1)) // US
    for tzm in (60, 765, -300, -720, 1):
        for local_us in (LOCAL_MIN, LOCAL_MIN + 1000, LOCAL_MIN + 3 * 3600 * 10**6, LOCAL_MAX, LOCAL_MAX - 999, LOCAL_MAX - 999999,
                         LOCAL_MAX - 3 * 3600 * 10**6 - 999):
            vals.append(("dt", True, local_us - tzm * 60 * 10**6, tzm))
    cases = []
    prop_bad = []
    known_hits = []
    WRITERS = {"i8": ("write_int8", "read_int8"), "i16": ("write_int16", "read_int16"), "i32": ("write_int32", "read_int32"),
               "i64": ("write_int64", "read_int64"), "u8": ("write_uint8", "read_uint8"), "u16": ("write_uint16", "read_uint16"),
               "u32": ("write_uint32", "read_uint32"), "u64": ("write_uint64", "read_uint64"), "f64": ("write_float64", "read_float64"),
               "i32Timedelta": ("write_timedelta_i32", "read_timedelta_i32"), "i64Timedelta": ("write_timedelta_i64", "read_timedelta_i64"),
               "TZAware": ("write_datetime_i64", "read_datetime_i64")}
    n_members = 0
    for v in vals:
        py = py_of(v)
        for t, coq_t, name in TYPES:
            try:
                inst = isinstance(py, t)
            except Exception as e:  # noqa
                inst = f"raised {type(e).__name__}"
            try:
                out = t(py)
                call_ok = out is py or (out == py and type(out) is type(py))
                if not call_ok:
                    prop_bad.append({"type": name, "value": repr(py)[:80], "what": "constructor did not return the value unchanged"})
            except TypeError:
                call_ok = False
            except Exception as e:  # noqa
                call_ok = False
                prop_bad.append({"type": name, "value": repr(py)[:80], "what": f"constructor raised {type(e).__name__} instead of TypeError"})
            if inst is not True and inst is not False:
                prop_bad.append({"type": name, "value": repr(py)[:80], "what": f"isinstance {inst}"})
                continue
            doc = doc_member(name, v)
            if doc is not None and doc != inst:
                prop_bad.append({"type": name, "value": repr(py)[:80],
                                 "what": f"isinstance is {inst} but the documented domain says {doc}"})
            if inst != call_ok:
                prop_bad.append({"type": name, "value": repr(py)[:80], "what": f"isinstance={inst} but constructor accepted={call_ok}"})
            cases.append((coq_t, v, inst, call_ok, name))
            # members are accepted by the matching writer and read back equal
            if inst and name in WRITERS:
                n_members += 1
                wn, rn = WRITERS[name]
                buf = io.BytesIO()
                try:
                    getattr(writers, wn)(buf, py)
                    back = getattr(readers, rn)(io.BytesIO(buf.getvalue()))
                except Exception as e:  # noqa
                    if (name == "TZAware" and v[0] == "dt" and v[2] > DT_MAX and buf.getvalue()
                            and int.from_bytes(buf.getvalue(), "big", signed=True) == v[2] // 1000
                            and isinstance(e, (OverflowError, ValueError))):
                        # recorded finding: written correctly, but the reader cannot build a UTC datetime beyond year 9999
                        known_hits.append(repr(py)[:80])
                        continue
                    prop_bad.append({"type": name, "value": repr(py)[:80], "what": f"member not written/read: {cc.err_name(e)}"})
                    continue
                if name.endswith("Timedelta"):
                    q, rem = divmod(py // US, 1000)
                    if rem > 500 or (rem == 500 and q % 2):
                        q += 1
                    expect = datetime.timedelta(milliseconds=q)
                else:
                    expect = py
                same = back == expect and (name != "f64" or struct.pack(">d", back) == struct.pack(">d", py))
                if not same:
                    prop_bad.append({"type": name, "value": repr(py)[:80], "what": f"member read back as {back!r}"[:160]})
    # aware datetimes in DST-observing zones (zoneinfo), in and around the repeated and the skipped hour, both folds: members
    # exactly when the instant is non-negative (and, for TZAware, on a whole millisecond); the constructor returns them unchanged
    import zoneinfo as _zi
    for zname, y, mo, d in (("America/New_York", 2024, 11, 3), ("Europe/Berlin", 2023, 10, 29), ("Europe/London", 2024, 3, 31),
                            ("Europe/Berlin", 1969, 12, 31), ("Pacific/Auckland", 2024, 4, 7)):
        z = _zi.ZoneInfo(zname)
        for hh in (0, 1, 2, 3, 23):
            for fold in (0, 1):
                for us in (0, 250000, 250500):
                    v = datetime.datetime(y, mo, d, hh, 30, 7, us, tzinfo=z, fold=fold)
                    inst_us = (v.astimezone(datetime.timezone.utc) - EPOCH) // US
                    for t, name, want in ((P.TZAware, "TZAware", inst_us >= 0 and inst_us % 1000 == 0), (P.TZAwareMicros, "TZAwareMicros", inst_us >= 0)):
                        try:
                            got = isinstance(v, t)
                        except Exception as e:  # noqa
                            got = f"raised {type(e).__name__}"
                        try:
                            ctor = "same" if t(v) is v else "different"
                        except TypeError:
                            ctor = "TypeError"
                        except Exception as e:  # noqa
                            ctor = f"raised {type(e).__name__}"
                        if got is not want or ctor != ("same" if want else "TypeError"):
                            prop_bad.append({"type": name, "value": f"{v!r} (fold={fold})",
                                             "what": f"isinstance={got}, constructor={ctor}; the documented domain says member={want}"})
    # values that are instances of SUBCLASSES of int (IntEnum members - the library's own ErrorCode is one - and a plain
    # subclass): members exactly when their integer value is in range, returned unchanged by the constructor
    import subprocess as _sp
    sub_ops = []
    for tname in DOC_INT:
        lo, hi = DOC_INT[tname]
        for z in sorted({lo, hi, lo - 1, hi + 1, 0, -1, 1, 5}):
            sub_ops.append([tname, z, "enum" if (z + len(tname)) % 2 else "sub"])
    pr = _sp.Popen([common.PY, str(common.VERIF / "harness" / "c12_worker.py")], stdin=_sp.PIPE, stdout=_sp.PIPE, stderr=_sp.PIPE,
                   text=True, env=common.child_env())
    try:
        so, se = pr.communicate(json.dumps(sub_ops), timeout=60)
    except _sp.TimeoutExpired:
        pr.kill()
        so, se = pr.communicate()
    sub_out = [json.loads(line) for line in so.splitlines() if line.strip()]
    for k, op in enumerate(sub_ops):
        want = DOC_INT[op[0]][0] <= op[1] <= DOC_INT[op[0]][1]
        if k >= len(sub_out):
            prop_bad.append({"type": op[0], "value": f"{op[2]} int subclass instance with value {op[1]}",
                             "what": "isinstance / the constructor did not return within 60 s (or the probe died): " + se[-200:]})
            break
        inst, ctor = sub_out[k]
        if inst is not want or ctor != ("same" if want else "TypeError"):
            prop_bad.append({"type": op[0], "value": f"{op[2]} int subclass instance with value {op[1]}",
                             "what": f"isinstance={inst}, constructor={ctor}; the documented domain says member={want}"})
    # membership must not depend on the process's local time zone
    from .. import tzprobe
    tz_ops = []
    for v in vals:
        if v[0] == "dt" and (abs(v[2]) < 10**7 or v[2] > DT_MAX - 10**10 or len(tz_ops) < 60):
            tz_ops.append(["isinst", "TZAware", v[2], v[3], v[1]]); tz_ops.append(["isinst", "TZAwareMicros", v[2], v[3], v[1]])
    tz_ops = tz_ops[:160]
    tz_diff = tzprobe.differing(tz_ops, zones=tzprobe.ZONES[:3])
    for dd in tz_diff[:3]:
        prop_bad.append({"type": dd["operation"][1], "value": str(dd["operation"][2:]), "what": "membership depends on the process's local time zone (TZ)", **dd})
    # nesting on the implementation
    chain_i = [P.i8, P.i16, P.i32, P.i64]
    chain_u = [P.u8, P.u16, P.u32, P.u64]
    for v in vals:
        if v[0] not in ("int", "bool"):
            continue
        for ch in (chain_i, chain_u):
            flags = [isinstance(v[1], t) for t in ch]
            if any(a and not b for a, b in zip(flags, flags[1:])):
                prop_bad.append({"value": v[1], "what": "integer types do not nest by range", "membership": flags})
    body = ";\n".join(f"{{| t_type := {c[0]}; t_val := {coq_of(c[1])}; t_isinstance := {'true' if c[2] else 'false'}; "
                      f"t_call_ok := {'true' if c[3] else 'false'} |}}" for c in cases)
    text = ("From Coq Require Import ZArith List Bool String.\nFrom KioV Require Import Base.Res Types.Phantom Codec.Check.\n"
            "Import ListNotations.\nOpen Scope Z_scope.\n"
            f"Definition cases : list tcase := [\n{body}\n].\nEval vm_compute in (failing check_tcase cases).\n")
    rc, out, dt = common.run_generated(ctx["build"], "CorrC12", text, timeout=900)
    failing = []
    if rc != 0:
        viol.append({"kind": "correspondence", "what": "model evaluation failed", "detail": out[-1200:]})
    else:
        failing = common.parse_nat_list(out)
    for v in viol:
        v.setdefault("failing_input_found", bool(prop_bad) or bool(v.get("offending")))
    if prop_bad:
        viol.append({"kind": "property", "what": "a primitive type does not denote its documented domain on the implementation",
                     "failing_input_found": True, "n_failing": len(prop_bad), "cases": prop_bad[:5]})
    elif failing:
        viol.append({"kind": "correspondence", "observation": "C12: isinstance / constructor acceptance vs Types/Phantom.v",
                     "failing_input_found": False, "n_disagreements": len(failing),
                     "cases": [{"type": cases[i][4], "value": repr(py_of(cases[i][1]))[:80], "impl_isinstance": cases[i][2],
                                "impl_call_ok": cases[i][3]} for i in failing[:5]]})
    cov = {
        "evaluations": len(cases), "distinct_nontrivial": len({(c[4], str(c[1])) for c in cases}),
        "traces_validated_against_impl": len(cases) - len(failing),
        "rule": "every primitive type x (zone-shifted datetimes at the ends of the datetime range, hundreds of half-millisecond ties, a time-zone probe; integers at every range limit +-2, powers of two, random to 2^72; bool; None; str; bytes; "
                "float classes by bit pattern incl. inf/nan/-0.0/denormals; durations around the i32/i64 limits at sub-millisecond "
                "offsets; timestamps around 0, the datetime limits and sub-millisecond offsets, in UTC and other zones, naive and aware)",
        "members_written_and_read_back": n_members, "types": len(TYPES),
        "samples": [{"type": c[4], "value": repr(py_of(c[1]))[:60], "isinstance": c[2]} for c in cases[:3]],
        "instance_theorem": "c12_shipped : c12_ok shipped = true  [vm_compute]",
        "property_failures_on_implementation": len(prop_bad), "correspondence_disagreements": len(failing),
    }
    # integers far beyond every range (more decimal digits than CPython converts to text by default): still "everything else",
    # to be rejected with TypeError by isinstance (False) and by the constructor
    huge_hits = []
    for t, _coq_t, name in TYPES:
        if not hasattr(t, "__low__"):
            continue
        for v in (10**4300, -(10**4300), 10**5000, 1 << 20000):
            try:
                member = isinstance(v, t)
            except Exception as e:  # noqa
                prop_bad_late = {"type": name, "value": f"integer of {v.bit_length()} bits", "what": f"isinstance raised {type(e).__name__}"}
                viol.append({"kind": "property", "what": "a primitive type does not denote its documented domain", "failing_input_found": True,
                             "n_failing": 1, "cases": [prop_bad_late]})
                continue
            try:
                t(v)
                outcome = "accepted"
            except TypeError:
                outcome = "TypeError"
            except ValueError as e:
                outcome = "ValueError-digits" if "integer string conversion" in str(e) else f"ValueError: {e}"[:80]
            except Exception as e:  # noqa
                outcome = f"{type(e).__name__}: {e}"[:80]
            if member is False and outcome == "TypeError":
                continue
            if member is False and outcome == "ValueError-digits":
                huge_hits.append(f"{name}(integer of {v.bit_length()} bits)")
                continue
            viol.append({"kind": "property", "what": "a primitive type does not denote its documented domain", "failing_input_found": True,
                         "n_failing": 1, "cases": [{"type": name, "value": f"integer of {v.bit_length()} bits", "isinstance": member, "constructor": outcome}]})
    known = []
    HUGE_ID = "C12-huge-int-constructor-valueerror"
    if huge_hits:
        kf = {f["id"]: f for f in common.known_findings()["findings"]}
        if HUGE_ID in kf:
            known.append(f"KNOWN-FINDING: property=C12 {kf[HUGE_ID]['what']} ({len(huge_hits)} calls, e.g. {huge_hits[0]})")
        else:
            viol.append({"kind": "property", "what": "the constructor of an integer type rejects a non-member with ValueError instead of TypeError",
                         "failing_input_found": True, "n_failing": len(huge_hits), "cases": huge_hits[:3]})
    cov["huge_integer_probes"] = {"known_finding_hits": len(huge_hits)}
    KNOWN_ID = "C12-timestamp-beyond-utc-max"
    if known_hits:
        kf = {f["id"]: f for f in common.known_findings()["findings"]}
        if KNOWN_ID in kf:
            known.append(f"KNOWN-FINDING: property=C12 {kf[KNOWN_ID]['what']} ({len(known_hits)} values, e.g. {known_hits[0]})")
        else:
            viol.append({"kind": "property", "what": "a member of TZAware is written but cannot be read back", "failing_input_found": True,
                         "n_failing": len(known_hits), "cases": [{"type": "TZAware", "value": x} for x in known_hits[:3]]})
    cov["known_finding_hits"] = len(known_hits)
    cov["time_zone_probe"] = {"operations": len(tz_ops), "differences": len(tz_diff)}
    return {"instance_obligations": 1, "instance_discharged": res["instance_discharged"], "violations": viol, "coverage": cov,
            "known": known}
