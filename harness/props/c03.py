"""C03 - the decoder accepts every conforming encoding, including forward-compatible ones."""
from . import _codec, _wire


def run(ctx):
    classes, n_schema, gen = _codec.setup(ctx)
    gen.null_arrays = True       # the null form of arrays is part of the wire domain
    per_class = 2 if ctx["tier"] == "quick" else 30
    # a peer that also SENDS: for every other class the writer (both flavours) is derived before its reader ever is -
    # what the decoder accepts must not depend on that order
    from kio.serial import entity_writer
    for i in range(1, n_schema, 2):
        try:
            entity_writer(classes[i]); entity_writer(classes[i], True)
        except Exception:  # noqa: derivability is C13's subject
            pass
    cases = _wire.wire_cases(ctx, classes, n_schema, gen, per_class, p_send=0.5, p_unknown=0.6)
    failing, errors = _wire.run_coq(ctx, "C03", cases)
    viol = []
    prop_fail = [i for i, c in enumerate(cases) if not c["c03_ok"]]
    from .. import envprobe
    env_diffs, n_env = envprobe.decode_differences(classes, [c for c in cases if c["decorated"]], sample=250 if ctx["tier"] == "quick" else 2000, rnd=gen.r)
    if env_diffs:
        viol.append({"kind": "property", "what": "decoding a conforming encoding depends on how the interpreter was started",
                     "failing_input_found": True, "n_failing": len(env_diffs), "cases": env_diffs[:3]})
    if errors:
        viol.append({"kind": "correspondence", "what": "model evaluation failed", "detail": errors[:3]})
    if prop_fail:
        viol.append({"kind": "property", "what": "a conforming encoding was not decoded to the values on the wire",
                     "failing_input_found": True, "n_failing": len(prop_fail),
                     "cases": [_wire.describe(classes, cases[i]) for i in _codec.smallest(cases, prop_fail)]})
    elif failing:
        viol.append({"kind": "correspondence",
                     "observation": "C03: reference encoding = Coq spec_enc; conforming; decoded value and remainder (check_ccase)",
                     "failing_input_found": False, "n_disagreements": len(failing),
                     "cases": [_wire.describe(classes, cases[i]) for i in _codec.smallest(cases, failing)]})
    n_dec = sum(1 for c in cases if c["decorated"])
    cov = {
        "evaluations": len(cases), "distinct_nontrivial": len({(c["cls"], c["input"]) for c in cases if c["decorated"]}),
        "traces_validated_against_impl": len(cases) - len(failing),
        "rule": "per class, typed values over the wire domain, decorated with explicitly sent defaults (p=0.5 per tagged "
                "field, incl. explicit nulls) and 1-3 unknown tagged fields (p=0.6 per flexible entity, at every nesting "
                "level), encoded by the independent reference encoder; for every other class the writer is derived before the reader; non-trivial = carries at least one decoration",
        "decorated_cases": n_dec, "decodes_repeated_under_other_interpreter_settings": n_env, "generator_stats": gen.stats, "distribution": _codec.distribution(cases, classes),
        "samples": [_wire.describe(classes, c) for c in [c for c in cases if c["decorated"]][:2]],
        "property_failures_on_implementation": len(prop_fail), "correspondence_disagreements": len(failing),
    }
    return {"violations": viol, "coverage": cov}
