"""C05 - decoding is lossless: re-encoding reproduces the original bytes."""
import io

from .. import codec_corr as cc
from ..values import from_py
from . import _codec, _wire


def run(ctx):
    from kio.serial import entity_reader, entity_writer

    classes, n_schema, gen = _codec.setup(ctx)
    gen.null_arrays = True       # the null form of arrays is part of the wire domain
    per_class = 2 if ctx["tier"] == "quick" else 30
    gen.allow_nan = True        # the full wire domain of float64: every bit pattern, incl. NaN payloads
    cases = _wire.wire_cases(ctx, classes, n_schema, gen, per_class, p_send=0.0, p_unknown=0.0)
    from ..values import describe as _describe

    def has_float(cls, depth=0):
        return any(d.kafka == "float64" or (d.ent is not None and depth < 3 and has_float(d.ent, depth + 1)) for d in _describe(cls))
    float_classes = [i for i in range(n_schema) if has_float(classes[i])]
    if float_classes:
        sub = [classes[i] for i in float_classes]
        extra = _wire.wire_cases(ctx, sub, len(sub), gen, 12 if ctx["tier"] == "quick" else 60, p_send=0.0, p_unknown=0.0)
        for c in extra:
            c["cls"] = float_classes[c["cls"]]
        cases += extra
    failing, errors = _wire.run_coq(ctx, "C05", cases)
    # accepted non-canonical inputs (decorated): decode -> encode -> decode must be stable
    deco = _wire.wire_cases(ctx, classes[:n_schema], n_schema, gen, 1, p_send=0.5, p_unknown=0.5) if ctx["tier"] == "thorough" else \
        _wire.wire_cases(ctx, classes, n_schema, gen, 1, p_send=0.5, p_unknown=0.5)[::3]
    idem_bad = []
    for c in deco:
        cls = classes[c["cls"]]
        try:
            o1 = entity_reader(cls)(io.BytesIO(c["ref"]))
            b1 = io.BytesIO(); entity_writer(cls)(b1, o1)
            o2 = entity_reader(cls)(io.BytesIO(b1.getvalue()))
            b2 = io.BytesIO(); entity_writer(cls)(b2, o2)
            if from_py(o1) != from_py(o2) or b1.getvalue() != b2.getvalue():   # abstract values: NaN == NaN bitwise
                idem_bad.append((c, "decode-then-encode is not idempotent"))
        except Exception as e:  # noqa
            idem_bad.append((c, f"decoder output not accepted by the encoder: {cc.err_name(e)}"))
    viol = []
    prop_fail = [i for i, c in enumerate(cases) if not c["c05_ok"]]
    if errors:
        viol.append({"kind": "correspondence", "what": "model evaluation failed", "detail": errors[:3]})
    if prop_fail or idem_bad:
        out = [_wire.describe(classes, cases[i]) for i in _codec.smallest(cases, prop_fail)]
        for c, why in idem_bad[:2]:
            j = _wire.describe(classes, c); j["why"] = why; out.append(j)
        viol.append({"kind": "property", "what": "re-encoding a decoded entity does not reproduce the bytes / is not stable",
                     "failing_input_found": True, "n_failing": len(prop_fail) + len(idem_bad), "cases": out})
    elif failing:
        viol.append({"kind": "correspondence", "observation": "C05: Coq spec_enc = reference encoder; decoded value (check_ccase)",
                     "failing_input_found": False, "n_disagreements": len(failing),
                     "cases": [_wire.describe(classes, cases[i]) for i in _codec.smallest(cases, failing)]})
    cov = {
        "evaluations": len(cases) + len(deco), "distinct_nontrivial": len({(c["cls"], c["ref"]) for c in cases + deco}),
        "traces_validated_against_impl": len(cases) - len(failing),
        "rule": "canonical encodings generated wire-first by the reference encoder over the wire domain (boundary "
                "timestamps/durations incl. > 2^53 ms, all float64 bit patterns incl. -0.0, infinities and NaN payloads, max-length strings) -> "
                "decode -> encode must reproduce the bytes; plus decorated (non-canonical but accepted) inputs for idempotence",
        "idempotence_cases": len(deco), "generator_stats": gen.stats, "distribution": _codec.distribution(cases, classes),
        "samples": [_wire.describe(classes, c) for c in cases[:2]],
        "property_failures_on_implementation": len(prop_fail) + len(idem_bad), "correspondence_disagreements": len(failing),
    }
    return {"violations": viol, "coverage": cov}
