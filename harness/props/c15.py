"""C15 - entities are immutable, hashable value objects."""
import copy
import dataclasses
import datetime
import enum
import pickle
import random
import uuid

from .. import codec_corr as cc
from .. import common
from .. import records_corr as rc
from ..values import Gen, describe, from_py, to_coq, to_py
from . import _codec, _data, _impl_schema

IMMUTABLE = (int, str, bytes, float, bool, type(None), uuid.UUID, datetime.timedelta, datetime.datetime, enum.Enum)


def deep_immutable(o):
    if isinstance(o, tuple):
        return all(deep_immutable(x) for x in o)
    if dataclasses.is_dataclass(o) and not isinstance(o, type):
        return o.__dataclass_params__.frozen and all(deep_immutable(getattr(o, f.name)) for f in dataclasses.fields(o))
    return isinstance(o, IMMUTABLE)


def perturb(r, v):
    """a different value of the same Python type, as close as possible"""
    if v is None:
        return None
    if isinstance(v, bool):
        return not v
    if isinstance(v, enum.Enum):
        members = list(type(v))
        return members[(members.index(v) + 1) % len(members)]
    if isinstance(v, int):
        return type(v)(v + 1) if type(v) is int else v + 1
    if isinstance(v, float):
        return v + 1.0 if v == v and abs(v) < 1e300 else 0.0
    if isinstance(v, str):
        return v + "x"
    if isinstance(v, bytes):
        return v + b"\x00"
    if isinstance(v, uuid.UUID):
        return uuid.UUID(int=(v.int + 1) % 2**128)
    if isinstance(v, datetime.timedelta):
        try:
            return v + datetime.timedelta(microseconds=1)
        except OverflowError:       # timedelta.max
            return v - datetime.timedelta(microseconds=1)
    if isinstance(v, datetime.datetime):
        step = datetime.timedelta(microseconds=r.choice([1, 1, 999, 1000]))
        try:
            return v + step
        except OverflowError:       # datetime.max
            return v - step
    if isinstance(v, tuple):
        if v:
            p = perturb(r, v[0])
            return (p,) + v[1:] if p is not None or v[0] is None else v + v[:1]
        return None
    if dataclasses.is_dataclass(v):
        for f in dataclasses.fields(v):
            p = perturb(r, getattr(v, f.name))
            if p is not None:
                try:
                    return dataclasses.replace(v, **{f.name: p})
                except Exception:  # noqa
                    return None
        return None
    return None


def run(ctx):
    res = _data.instance_check(ctx, "C15")
    viol = res["violations"]
    static_bad = _impl_schema.c15_static()
    classes, n_schema, gen = _codec.setup(ctx)
    r = gen.r
    per_class = 1 if ctx["tier"] == "quick" else 6
    prop_bad = []
    eqcases = []
    n_inst = 0
    ops = {"setattr": 0, "delattr": 0, "copy": 0, "deepcopy": 0, "replace": 0, "pickle": 0, "eq_pairs": 0}

    def build(cls, val):
        return to_py(cls, val)

    instances = []
    for ci in range(n_schema):
        cls = classes[ci]
        for _ in range(per_class):
            val = gen.entity(cls)
            instances.append((cls, lambda cls=cls, val=val: build(cls, val)))
    # instances RETURNED BY THE DECODER (the property is about every entity instance, and most instances a
    # user holds come from entity_reader): a sample of all classes, plus every class with a bytes/records
    # field carrying a payload larger than any internal chunk size one might choose (70 000 bytes)
    import io
    from kio.serial import entity_reader, entity_writer

    def enlarge(v):
        """the first bytes leaf becomes 70 000 bytes; None if there is none"""
        if v[0] == "bytes":
            return ("bytes", bytes(r.getrandbits(8) for _ in range(64)) * 1094)
        if v[0] in ("arr", "ent"):
            for k, x in enumerate(v[1]):
                y = enlarge(x)
                if y is not None:
                    items = list(v[1]); items[k] = y
                    return (v[0], items)
        return None

    def decoded(cls, val):
        buf = io.BytesIO()
        entity_writer(cls)(buf, to_py(cls, val))
        buf.seek(0)
        return entity_reader(cls)(buf)

    n_decoded = 0
    no_model = set()     # indices of instances too large to print as Coq terms: evaluated on the implementation only
    for ci in range(n_schema):
        cls = classes[ci]
        cands = []
        if ci % (6 if ctx["tier"] == "quick" else 1) == 0:
            cands.append((gen.entity(cls), False))
        if any(d.kafka in ("bytes", "records") for d in describe(cls)) and (ctx["tier"] != "quick" or ci % 3 == 0):
            for _ in range(4):
                big = enlarge(gen.entity(cls, want_default=False))
                if big is not None:
                    cands.append((big, True))
                    break
        for val, is_big in cands:
            try:
                decoded(cls, val)
            except Exception:  # noqa  (not encodable: C01's business)
                continue
            n_decoded += 1
            if is_big:
                no_model.add(len(instances))
            instances.append((cls, lambda cls=cls, val=val: decoded(cls, val)))
    # the record classes
    rr = random.Random(ctx["seed"] + 1)
    for _ in range(20 if ctx["tier"] == "quick" else 200):
        nb = rc.gen_new_batch(rr, canonical_ms=False)
        instances.append((None, lambda nb=nb: rc.py_new_batch(nb)))
        instances.append((None, lambda nb=nb: rc.py_new_batch(nb).records[0]))
        if nb["records"][0]["headers"]:
            instances.append((None, lambda nb=nb: rc.py_new_batch(nb).records[0].headers[0]))
        out = rc.impl_write(rc.py_new_batch(nb))
        if out[0] == "ok":
            rd = rc.impl_read(out[1])
            if rd[0] == "ok":
                instances.append((None, lambda b=rd[1]: rc.py_batch(b)))
    for inst_idx, (cls, make) in enumerate(instances):
        with_model = inst_idx not in no_model
        a = make()
        b = make()
        cls = type(a)
        name = f"{cls.__module__}:{cls.__qualname__}"
        n_inst += 1

        def bad(what):
            prop_bad.append({"class": name, "what": what, "instance": repr(a)[:300]})
        # "holds only immutable field values": every leaf is one of the immutable value types of the library
        import datetime as _dt
        import uuid as _uuid

        def foreign_leaves(o, path="", out=None):
            out = [] if out is None else out
            if dataclasses.is_dataclass(o) and not isinstance(o, type):
                for f in dataclasses.fields(o):
                    foreign_leaves(getattr(o, f.name), f"{path}.{f.name}", out)
            elif isinstance(o, tuple):
                for j, x in enumerate(o):
                    foreign_leaves(x, f"{path}[{j}]", out)
            elif not (o is None or isinstance(o, (bool, int, float, str, bytes, _uuid.UUID, _dt.datetime, _dt.timedelta))):
                out.append(f"{path.lstrip('.')}: {type(o).__module__}.{type(o).__qualname__}")
            return out
        foreign = foreign_leaves(a)
        if foreign:
            bad(f"holds field values that are not immutable library values: {foreign[:3]}")
            continue
        before = from_py(a)
        # immutability
        for f in dataclasses.fields(a):
            ops["setattr"] += 1
            try:
                setattr(a, f.name, getattr(a, f.name))
                bad(f"attribute assignment to field {f.name} succeeded")
            except (dataclasses.FrozenInstanceError, AttributeError, TypeError):
                pass
            ops["delattr"] += 1
            try:
                delattr(a, f.name)
                bad(f"attribute deletion of field {f.name} succeeded")
            except (dataclasses.FrozenInstanceError, AttributeError, TypeError):
                pass
        try:
            setattr(a, "verif_fresh_name", 1)
            bad("assignment to a fresh attribute name succeeded")
        except (dataclasses.FrozenInstanceError, AttributeError, TypeError):
            pass
        if hasattr(a, "__dict__"):
            bad("instance has a __dict__")
        if not deep_immutable(a):
            bad("a field holds a mutable value")
        # equality and hashing against a structurally equal rebuild
        ops["eq_pairs"] += 1
        py_eq = (a == b)
        try:
            h_eq = hash(a) == hash(b)
        except TypeError:
            h_eq = False
            bad("instance is not hashable")
        if with_model:
            eqcases.append((before, from_py(b), py_eq, h_eq))
        if not py_eq:
            bad("structurally equal instances compare unequal")
        # single-field perturbations: equal exactly when all fields are equal
        for f in dataclasses.fields(a):
            p = perturb(r, getattr(a, f.name))
            if p is None:
                continue
            try:
                c = dataclasses.replace(a, **{f.name: p})
            except Exception as e:  # noqa
                bad(f"dataclasses.replace({f.name}=...) raised {type(e).__name__}")
                continue
            ops["replace"] += 1
            ops["eq_pairs"] += 1
            all_fields_equal = all(getattr(a, g.name) == getattr(c, g.name) for g in dataclasses.fields(a))
            va, vc = before, from_py(c)
            peq = (a == c)
            try:
                heq = hash(a) == hash(c)
            except TypeError:
                heq = False
            if with_model:
                eqcases.append((va, vc, peq, heq))
            if peq != all_fields_equal:
                bad(f"== is {peq} but all-fields-equal is {all_fields_equal} after changing {f.name}")
            if peq and not heq:
                bad(f"equal instances hash differently after changing {f.name}")
            try:
                if len({a, c}) != (1 if peq else 2):
                    bad("set membership inconsistent with ==")
            except TypeError:
                pass        # unhashable: reported above
        # copies
        for opname, fn in (("copy", copy.copy), ("deepcopy", copy.deepcopy), ("replace", dataclasses.replace),
                           ("pickle", lambda x: pickle.loads(pickle.dumps(x))),
                           *((f"pickle-protocol-{pr}", lambda x, pr=pr: pickle.loads(pickle.dumps(x, protocol=pr)))
                             for pr in range(0, pickle.HIGHEST_PROTOCOL + 1))):
            ops[opname.split("-")[0]] += 1
            try:
                c = fn(a)
            except Exception as e:  # noqa
                bad(f"{opname} raised {type(e).__name__}: {e}"[:200])
                continue
            try:
                same = c == a and type(c) is type(a) and hash(c) == hash(a)
            except TypeError:
                same = c == a and type(c) is type(a)     # unhashable: reported above
            if not same:
                bad(f"{opname} produced an unequal instance")
            elif from_py(c) != before and opname not in ("pickle-protocol-0", "pickle-protocol-1", "pickle-protocol-2", "pickle-protocol-3"):
                # (CPython's datetime pickles carry `fold` only from protocol 4 on: below that a fold=1 timestamp comes
                #  back equal by == yet denoting the other instant - the interpreter's behaviour, not the entity's)
                bad(f"{opname} produced an instance whose field values differ from the original's")
        if from_py(a) != before:
            bad("the original instance changed")
    # model comparison of equality
    body = ";\n".join(f"{{| e_a := {to_coq(x[0])}; e_b := {to_coq(x[1])}; e_py_eq := {'true' if x[2] else 'false'}; "
                      f"e_hash_eq := {'true' if x[3] else 'false'} |}}" for x in eqcases)
    failing, errs = [], []
    import subprocess
    d = ctx["build"]
    per = 600
    procs = []
    hdr = ("From Coq Require Import ZArith List Bool.\nFrom KioV Require Import Base.Res Codec.Value Codec.Check Obj.Dataclass.\n"
           "Import ListNotations.\nOpen Scope Z_scope.\n")
    lines = [f"{{| e_a := {to_coq(x[0])}; e_b := {to_coq(x[1])}; e_py_eq := {'true' if x[2] else 'false'}; "
             f"e_hash_eq := {'true' if x[3] else 'false'} |}}" for x in eqcases]
    for n, start in enumerate(range(0, len(lines), per)):
        nm = f"CorrC15_{n}"
        (d / f"{nm}.v").write_text(hdr + "Definition cases : list eqcase := [\n" + ";\n".join(lines[start:start + per])
                                   + "\n].\nEval vm_compute in (failing check_eqcase cases).\n")
        procs.append((nm, start, subprocess.Popen(["timeout", "900", "coqc", *common.COQ_ARGS, "-Q", str(d), "KioG", f"{nm}.v"],
                                                  cwd=d, stdout=subprocess.PIPE, stderr=subprocess.STDOUT, text=True)))
    for nm, start, p in procs:
        coq_rc, out = common.coq_result(d, nm, p)
        if coq_rc != 0:
            errs.append(f"{nm}: {out[-800:]}")
        else:
            failing += [start + i for i in common.parse_nat_list(out)]
        for ext in (".v", ".vo", ".vok", ".vos", ".glob"):
            (d / f"{nm}{ext}").unlink(missing_ok=True)
    if errs:
        viol.append({"kind": "correspondence", "what": "model evaluation failed", "detail": errs[:2]})
    for v in viol:
        v.setdefault("failing_input_found", bool(v.get("offending")) or bool(prop_bad))
        v["implementation_evaluation"] = static_bad[:10]
    if prop_bad or static_bad:
        viol.append({"kind": "property", "what": "an entity instance is not an immutable, hashable value object",
                     "failing_input_found": True, "n_failing": len(prop_bad) + len(static_bad),
                     "cases": prop_bad[:4] + [{"what": s} for s in static_bad[:4]]})
    elif failing:
        viol.append({"kind": "correspondence", "observation": "C15: Python == / hash agreement vs structural equality (Obj/Dataclass.v)",
                     "failing_input_found": False, "n_disagreements": len(failing),
                     "cases": [{"a": to_coq(eqcases[i][0])[:300], "b": to_coq(eqcases[i][1])[:300], "py_eq": eqcases[i][2],
                                "hash_eq": eqcases[i][3]} for i in failing[:3]]})
    cov = {
        "evaluations": n_inst, "distinct_nontrivial": n_inst,
        "traces_validated_against_impl": len(eqcases) - len(failing),
        "decoded_instances": n_decoded,
        "rule": "instances returned by entity_reader (a sample of all classes + 70 000-byte bytes/records payloads), generated instances of every entity class and of the four record classes (incl. batches returned by "
                "read_batch): setattr/delattr on every field and a fresh name, __dict__ absence, deep immutability of field "
                "values, ==/hash against an equal rebuild and against every single-field perturbation (timestamps by 1 us / "
                "1 ms), copy, deepcopy, replace, pickle, original unchanged",
        "operations": ops, "equality_pairs_compared_with_model": len(eqcases),
        "samples": [{"class": f"{type(instances[0][1]()).__module__}:{type(instances[0][1]()).__qualname__}"}],
        "instance_theorem": "c15_shipped : c15_ok shipped = true  [vm_compute] (all schema classes + the record classes)",
        "property_failures_on_implementation": len(prop_bad) + len(static_bad), "correspondence_disagreements": len(failing),
    }
    return {"instance_obligations": 1, "instance_discharged": res["instance_discharged"], "violations": viol, "coverage": cov}
