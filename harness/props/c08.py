"""C08 - header schema and request/response pairing follow the Kafka rules."""
import re

from .. import common
from . import _data, _impl_schema


def run(ctx):
    res = _data.instance_check(ctx, "C08")
    impl_bad = _impl_schema.c08()
    viol = res["violations"]
    for v in viol:
        v["implementation_evaluation"] = impl_bad[:30]
        v["failing_input_found"] = bool(v.get("offending")) or bool(impl_bad)
    # correspondence: kio.index.load_response_from_request / load_request_from_response vs the model
    from kio import index
    from kio.static.constants import EntityType
    from ..codec_corr import load_classes

    classes = load_classes(ctx["build"])
    idx = {c: i for i, c in enumerate(classes)}
    reqs = [i for i, c in enumerate(classes) if getattr(c, "__type__", None) is EntityType.request]
    resps = [i for i, c in enumerate(classes) if getattr(c, "__type__", None) is EntityType.response]

    def impl(fn, i):
        try:
            return idx.get(fn(classes[i]), -3)
        except index.UnknownAPIKey:
            return -1
        except index.UnknownEntity:
            return -2
        except Exception:  # noqa
            return -4

    impl_fwd = [impl(index.load_response_from_request, i) for i in reqs]
    impl_bwd = [impl(index.load_request_from_response, i) for i in resps]
    # the pairing functions are declared for payload INSTANCES as well as classes: same answers for a generated instance
    from kio.schema.errors import ErrorCode
    from ..values import Gen, to_py
    gen = Gen(ctx["seed"], [int(e.value) for e in ErrorCode])
    inst_bad = []

    def impl_inst(fn, i):
        inst = to_py(classes[i], gen.entity(classes[i]))
        try:
            return idx.get(fn(inst), -3)
        except index.UnknownAPIKey:
            return -1
        except index.UnknownEntity:
            return -2
        except Exception as e:  # noqa
            return f"{type(e).__name__}: {e}"[:160]

    for name, fn, ids, by_class in (("load_response_from_request", index.load_response_from_request, reqs, impl_fwd),
                                    ("load_request_from_response", index.load_request_from_response, resps, impl_bwd)):
        for i, want in zip(ids, by_class):
            got = impl_inst(fn, i)
            if got != want:
                c = classes[i]
                inst_bad.append(f"{name}(<instance of {c.__module__}:{c.__qualname__}>) = {got!r}, for the class it is "
                                f"{(classes[want].__module__ + ':' + classes[want].__qualname__) if isinstance(want, int) and want >= 0 else want}")
    impl_bad = impl_bad + inst_bad
    enc = ("fun r => match r with IOk j => Z.of_nat j | IErr UnknownAPIKey => (-1)%Z | IErr UnknownEntity => (-2)%Z "
           "| IErr ImportFailure => (-3)%Z end")
    text = ("From Coq Require Import ZArith List Bool String.\nFrom KioV Require Import Schema.Raw Schema.Coherence.\n"
            "From KioG Require Import Shipped.\nImport ListNotations.\n"
            f"Eval vm_compute in map (fun i => ({enc}) (load_response_from_request shipped i)) [{';'.join(f'{i}%nat' for i in reqs)}].\n"
            f"Eval vm_compute in map (fun i => ({enc}) (load_request_from_response shipped i)) [{';'.join(f'{i}%nat' for i in resps)}].\n")
    rc, out, dt = common.run_generated(ctx["build"], "CorrC08", text)
    corr_bad = []
    if rc != 0:
        viol.append({"kind": "correspondence", "what": "index model does not evaluate", "detail": out[-1500:]})
    else:
        parts = out.split(": list Z")
        lists = [[int(x) for x in re.findall(r"-?\d+", p.split("=", 1)[1])] if "=" in p else [] for p in parts[:2]]
        for name, ids, mine, theirs in (("load_response_from_request", reqs, lists[0], impl_fwd),
                                        ("load_request_from_response", resps, lists[1], impl_bwd)):
            if len(mine) != len(theirs):
                corr_bad.append({"function": name, "what": "length mismatch", "model": len(mine), "impl": len(theirs)})
                continue
            for i, a, b in zip(ids, mine, theirs):
                if a != b:
                    c = classes[i]
                    corr_bad.append({"function": name, "class": f"{c.__module__}:{c.__qualname__}", "model": a, "impl": b})
    if corr_bad:
        viol.append({"kind": "correspondence", "observation": "kio.index pairing functions vs Schema/Coherence.v",
                     "disagreements": corr_bad[:20], "implementation_evaluation": impl_bad[:30],
                     "failing_input_found": bool(impl_bad)})
    if impl_bad and not viol:
        viol.append({"kind": "correspondence", "what": "property fails on the imported classes although the instance theorem holds",
                     "implementation_evaluation": impl_bad[:30], "failing_input_found": True})
    cov = {
        "exhaustive": True, "evaluations": len(reqs) + len(resps), "distinct_nontrivial": len(reqs) + len(resps),
        "rule": "every request and response class (each a distinct configuration); header rule on all classes of "
                "request/response modules incl. nested; pairing functions called on every payload class and on a generated instance of every payload class",
        "traces_validated_against_impl": len(reqs) + len(resps),
        "samples": [f"{classes[i].__module__}:{classes[i].__qualname__}" for i in (reqs[:2] + resps[:2])],
        "instance_theorem": "c08_shipped : c08_ok shipped n_schema_classes = true  [vm_compute]",
        "implementation_evaluation_violations": len(impl_bad), "correspondence_disagreements": len(corr_bad),
    }
    return {"instance_obligations": 1, "instance_discharged": res["instance_discharged"], "violations": viol,
            "coverage": cov, "trusted_base": ["instance theorem evaluated by vm_compute over harness/translate.py output"]}
