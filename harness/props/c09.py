"""C09 - the dynamic index resolves every known entity and nothing else."""
import random

from .. import common
from . import _data, _impl_schema

ET = {"request": "ETRequest", "response": "ETResponse", "header": "ETHeader", "data": "ETData", "nested": "ETNested"}


def cstr(s):
    return '"' + s.replace('"', '""') + '"'


def run(ctx):
    res = _data.instance_check(ctx, "C09")
    viol = res["violations"]
    from kio import index
    from kio.static.constants import EntityType
    from ..codec_corr import load_classes

    classes = load_classes(ctx["build"])
    idx = {c: i for i, c in enumerate(classes)}
    r = random.Random(ctx["seed"])
    # ground truth from the package walk (not from the index)
    truth = {}      # (api, version, type) -> class
    keys = {}       # api -> key
    for mod, cs in _impl_schema.walk():
        m = _impl_schema.MOD_RE.match(mod.__name__)
        if not m:
            continue
        api, ver, ty = m.group(1), int(m.group(2)), m.group(3)
        tops = [c for c in cs if c.__type__ is not EntityType.nested]
        if len(tops) == 1:
            truth[(api, ver, ty)] = tops[0]
            if ty in ("request", "response"):
                keys.setdefault(api, tops[0].__api_key__)
    key_to_api = {k: a for a, k in keys.items()}
    cases = []   # (by_key, name, key, version, type)
    names = sorted({a for a, _, _ in truth})
    for (api, ver, ty) in truth:
        for t in ("request", "response", "header", "data", "nested"):
            cases.append((False, api, 0, ver, t))
        for dv in (-1, 1):
            cases.append((False, api, 0, ver + dv, ty))
        if api in keys:
            k = keys[api]
            cases.append((True, "", k, ver, ty))
            cases.append((True, "", k, ver + 1, ty))
            cases.append((True, "", k, ver - 1, ty))
    for k in sorted(key_to_api):
        for dk in (-1, 1):
            cases.append((True, "", k + dk, 0, "request"))
    # unknown keys looked up with a version EQUAL to the key (and neighbours): which of the two documented errors is raised
    # must not depend on such a coincidence
    for k in list(range(-4, 0)) + [x for x in range(0, 130) if x not in key_to_api] + [1000, 32767]:
        for ver in (k, k + 1, k - 1):
            cases.append((True, "", k, ver, r.choice(["request", "response"])))
    for k in sorted(key_to_api):
        cases.append((True, "", k, k, "request"))
        cases.append((True, "", k, k + 100, "response"))
    # aliasing: an implementation that packs (key, version) into one number - key*M + version, key<<b | version, a hash of the
    # pair - answers a NON-existent pair with the entry it collides with.  Every valid entry is probed through the colliding
    # neighbours (key -+ a, version +- a*M) for the usual radices, and through int16/int32 wrap-arounds of key and version
    ali = []
    for (api, ver, ty) in sorted(truth):
        if api not in keys or ty not in ("request", "response"):
            continue
        k = keys[api]
        for M in (10, 100, 1000, 10000, 256, 65536, 2**31, 2**32):
            for a in (1, -1, 2):
                ali.append((True, "", k - a, ver + a * M, ty))
        for w in (2**15, 2**16, 2**31, 2**32):
            ali.append((True, "", k, ver + w, ty)); ali.append((True, "", k, ver - w, ty)); ali.append((True, "", k + w, ver, ty)); ali.append((True, "", k - w, ver, ty))
    if ctx["tier"] == "quick":
        ali = r.sample(ali, min(len(ali), 6000))
    cases += ali
    n_random = 2000 if ctx["tier"] == "quick" else 20000
    for _ in range(n_random):
        c = r.random()
        if c < 0.4:
            cases.append((True, "", r.choice([r.randint(-5, 140), r.randint(-2**31, 2**31), r.randint(0, 100)]),
                          r.randint(-2, 20), r.choice(["request", "response"])))
        else:
            name = r.choice(names) if r.random() < 0.5 else "".join(r.choice("abcdefghijklmnopqrstuvwxyz_") for _ in range(r.randint(0, 12)))
            if r.random() < 0.2:
                name = name[:-1] if name else "x"
            elif r.random() < 0.25 and name:
                # near misses a normalising lookup would accept: case, surrounding blanks, dashes, the camel-case API name
                name = r.choice([name.upper(), name.capitalize(), " " + name, name + " ", name.replace("_", "-"), name.replace("_", ""),
                                 "".join(w.capitalize() for w in name.split("_")), name + "\n", name.replace("_", "__")])
            cases.append((False, name, 0, r.randint(-2, 20), r.choice(list(ET))))

    def impl(by_key, name, key, ver, ty):
        et = EntityType[ty]

        def outcome(fn):
            try:
                return fn()
            except index.UnknownAPIKey:
                return -1
            except index.UnknownEntity:
                return -2
            except Exception:  # noqa
                return -3
        # the module lookup and the class lookup are separate public functions: each is asked on its own
        if by_key:
            mod = outcome(lambda: index.load_payload_module(key, ver, et))
            cls = outcome(lambda: (index.load_request_schema if ty == "request" else index.load_response_schema)(key, ver))
        else:
            mod = outcome(lambda: index.load_entity_module(name, ver, et))
            cls = outcome(lambda: index.load_entity_schema(name, ver, et))
        if isinstance(mod, int) or isinstance(cls, int):
            return mod if mod == cls else -6        # one of the two found something the other did not / different errors
        if cls.__module__ != mod.__name__:
            return -4
        return idx.get(cls, -5)

    def expected(by_key, name, key, ver, ty):
        if by_key:
            if key not in key_to_api:
                return -1
            name = key_to_api[key]
        c = truth.get((name, ver, ty))
        return idx[c] if c is not None else -2

    impl_res = [impl(*c) for c in cases]
    prop_bad = []
    for c, got in zip(cases, impl_res):
        want = expected(*c)
        if got != want:
            prop_bad.append({"lookup": {"by_key": c[0], "name": c[1], "key": c[2], "version": c[3], "type": c[4]},
                             "impl": got, "expected_from_package_walk": want})
    # cold start: fresh interpreters in which several threads resolve the same entries before any schema module is loaded
    import json as _json
    import subprocess as _sp
    ents = sorted(truth)
    r.shuffle(ents)
    n_cold = 0
    for rep in range(2 if ctx["tier"] == "quick" else 12):
        chunk = ents[rep * 60:(rep + 1) * 60]
        spec = {"entries": [[a, keys.get(a), v, t] for a, v, t in chunk], "threads": 4}
        p = _sp.run([common.PY, str(common.VERIF / "harness" / "c09_worker.py")], input=_json.dumps(spec), capture_output=True,
                    text=True, env=common.child_env(), timeout=600)
        n_cold += 4 * len(chunk)
        if p.returncode != 0:
            prop_bad.append({"cold_start_probe": "worker crashed", "detail": p.stderr[-400:]})
        else:
            for f in _json.loads(p.stdout)[:5]:
                prop_bad.append({"lookup": {"name": f["entry"][0], "key": f["entry"][1], "version": f["entry"][2], "type": f["entry"][3]},
                                 "impl": f["what"], "expected_from_package_walk": "the entry's own module and class",
                                 "circumstance": "fresh interpreter, 4 unsynchronised threads resolving the same entries"})
    # key <-> name one to one, every module reachable
    from kio.schema.index import api_key_map
    if len(set(api_key_map.values())) != len(api_key_map) or dict(api_key_map) != {k: a for a, k in keys.items()}:
        prop_bad.append({"api_key_map": "not the one-to-one key/name table of the package",
                         "missing": sorted(set(keys.values()) - set(api_key_map))[:5],
                         "extra": sorted(set(api_key_map) - set(keys.values()))[:5]})
    body = ";\n".join(
        f"{{| ic_by_key := {'true' if c[0] else 'false'}; ic_name := {cstr(c[1])}; ic_key := ({c[2]})%Z; "
        f"ic_version := ({c[3]})%Z; ic_type := {ET[c[4]]}; ic_expect := ({g})%Z |}}" for c, g in zip(cases, impl_res))
    text = ("From Coq Require Import ZArith List Bool String.\nFrom KioV Require Import Schema.Raw Schema.Coherence.\n"
            "From KioG Require Import Shipped.\nImport ListNotations.\nOpen Scope string_scope.\n"
            f"Definition cases : list icase := [\n{body}\n].\nEval vm_compute in ifailing_from shipped 0 cases.\n")
    rc, out, dt = common.run_generated(ctx["build"], "CorrC09", text, timeout=1200)
    corr_bad = []
    if rc != 0:
        viol.append({"kind": "correspondence", "what": "index model does not evaluate", "detail": out[-1500:]})
    else:
        for i in common.parse_nat_list(out):
            c = cases[i]
            corr_bad.append({"lookup": {"by_key": c[0], "name": c[1], "key": c[2], "version": c[3], "type": c[4]},
                             "impl": impl_res[i]})
    for v in viol:
        v["implementation_evaluation"] = prop_bad[:20]
        v["failing_input_found"] = bool(prop_bad) or bool(v.get("offending"))
    if corr_bad:
        viol.append({"kind": "correspondence", "observation": "kio.index loaders vs Schema/Coherence.v (class index or error class)",
                     "disagreements": corr_bad[:20], "implementation_evaluation": prop_bad[:20],
                     "failing_input_found": bool(prop_bad)})
    elif prop_bad and not viol:
        viol.append({"kind": "correspondence", "what": "lookups disagree with the package walk although model and implementation agree",
                     "implementation_evaluation": prop_bad[:20], "failing_input_found": True})
    kinds = {}
    for g in impl_res:
        kinds["resolved" if g >= 0 else {-1: "UnknownAPIKey", -2: "UnknownEntity"}.get(g, "other")] = kinds.get("resolved" if g >= 0 else {-1: "UnknownAPIKey", -2: "UnknownEntity"}.get(g, "other"), 0) + 1
    cov = {
        "exhaustive": False, "evaluations": len(cases), "distinct_nontrivial": len(set(cases)),
        "rule": "every (api, version, type) of the package x every entity type, cold-start probe: fresh interpreters in which 4 unsynchronised threads resolve the same 60 entries before any schema module is loaded; version +-1, by key and key +-1, plus "
                "seeded random keys/names/versions; distinct lookups counted; all index entries are covered exhaustively",
        "traces_validated_against_impl": len(cases), "outcome_distribution": kinds,
        "index_entries": len(truth), "api_keys": len(keys), "cold_start_concurrent_lookups": n_cold,
        "samples": [dict(by_key=c[0], name=c[1], key=c[2], version=c[3], type=c[4], impl=g) for c, g in list(zip(cases, impl_res))[:3] + list(zip(cases, impl_res))[-2:]],
        "instance_theorem": "c09_shipped : c09_ok shipped n_schema_classes = true  [vm_compute]",
        "correspondence_disagreements": len(corr_bad), "implementation_evaluation_violations": len(prop_bad),
    }
    return {"instance_obligations": 1, "instance_discharged": res["instance_discharged"], "violations": viol,
            "coverage": cov, "trusted_base": ["instance theorem evaluated by vm_compute over harness/translate.py output"]}
