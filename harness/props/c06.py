"""C06 - truncated input is always reported, never decoded to a value."""
from .. import codec_corr as cc
from ..values import to_py
from . import _codec


class StrictSource:
    """A source that supports nothing but read(n) with a non-negative int."""

    def __init__(self, data: bytes):
        self._data = data
        self._pos = 0
        self.calls = []

    def read(self, n=None):
        if not isinstance(n, int) or n < 0:
            self.calls.append(("bad-read", n))
            raise AssertionError(f"read({n!r}) is not an exact-size read")
        self.calls.append(n)
        out = self._data[self._pos:self._pos + n]
        self._pos += len(out)
        return out

    def __getattr__(self, name):
        raise AssertionError(f"reader used source.{name}")


def run(ctx):
    from kio.serial import entity_reader

    classes, n_schema, gen = _codec.setup(ctx)
    per_class = 1 if ctx["tier"] == "quick" else 8
    max_exhaustive = 400
    viol = []
    total_prefixes = 0
    bad = []
    sample_cases = []
    r = gen.r
    n_inst = 0
    for idx in range(n_schema):
        cls = classes[idx]
        reader = entity_reader(cls)
        for _ in range(per_class):
            val = gen.entity(cls)
            enc = cc.impl_encode(cls, to_py(cls, val))
            if enc[0] != "ok":
                continue
            data = enc[1]
            n_inst += 1
            n = len(data)
            cuts = range(n) if n <= max_exhaustive else sorted(set(
                list(range(64)) + list(range(n - 64, n)) + [r.randrange(n) for _ in range(64)]))
            for k in cuts:
                total_prefixes += 1
                src = StrictSource(data[:k])
                try:
                    obj = reader(src)
                    outcome = ("value",)
                except Exception as e:  # noqa
                    outcome = ("err", cc.err_name(e), type(e).__name__)
                if outcome[0] != "err" or outcome[1] != "EUnderflow":
                    bad.append({"class": _codec.cls_name(classes, idx), "cls": idx, "value": val, "encoding": data.hex(),
                                "cut": k, "outcome": list(outcome)})
                elif r.random() < (0.02 if n > 40 else 0.08):
                    sample_cases.append({"cls": idx, "input": data[:k], "dec": ("err", "EUnderflow")})
    # the NULLABLE flavour of the readers (what nested nullable structs use, and what a user gets from
    # entity_reader(cls, nullable=True)): every prefix of marker + encoding, the empty input included
    n_nullable = 0
    for idx in range(0, n_schema, 9 if ctx["tier"] == "quick" else 2):
        cls = classes[idx]
        val = gen.entity(cls)
        enc = cc.impl_encode(cls, to_py(cls, val))
        if enc[0] != "ok":
            continue
        data = b"\x01" + enc[1]
        nreader = entity_reader(cls, True)
        n = len(data)
        for k in sorted({0, 1, 2, n // 2, n - 1} & set(range(n))):
            total_prefixes += 1
            n_nullable += 1
            src = StrictSource(data[:k])
            try:
                nreader(src)
                outcome = ("value",)
            except Exception as e:  # noqa
                outcome = ("err", cc.err_name(e), type(e).__name__)
            if outcome[0] != "err" or outcome[1] != "EUnderflow":
                bad.append({"class": _codec.cls_name(classes, idx) + " (nullable flavour)", "cls": idx, "value": val, "encoding": data.hex(),
                            "cut": k, "outcome": list(outcome)})
    # large length-prefixed fields (beyond typical buffer sizes), in particular as the last field
    from ..values import describe
    big_targets = []
    for idx in range(n_schema):
        descs = [d for d in describe(classes[idx]) if d.tag is None]
        for pos, d in enumerate(descs):
            if d.ent is None and not d.array and d.kafka in ("bytes", "records", "string"):
                big_targets.append((idx, d.name, pos == len(descs) - 1))
    r.shuffle(big_targets)
    big_targets.sort(key=lambda t: not t[2])
    huge_quota = 6 if ctx["tier"] == "quick" else 40
    n_big = 0
    n_huge = 0
    # huge payloads where NOTHING is read after the field: the last field of a non-flexible class (a flexible class
    # reads its tagged section next and would notice the truncation there)
    def _kind(t):
        return next(d.kafka for d in describe(classes[t[0]]) if d.name == t[1])
    huge_first = [t for t in big_targets if t[2] and not classes[t[0]].__flexible__ and _kind(t) in ("bytes", "records")]
    chosen = huge_first[:huge_quota] + [t for t in big_targets if t not in set(huge_first[:huge_quota])][: (40 if ctx["tier"] == "quick" else 400)]
    for idx, fname, is_last in chosen:
        cls = classes[idx]
        val = gen.entity(cls)
        names = [d.name for d in describe(cls)]
        fi = names.index(fname)
        d = describe(cls)[fi]
        size = r.choice([8191, 8193, 10000, 16385, 20000]) if d.kafka != "string" or cls.__flexible__ else r.choice([8193, 10000, 20000])
        if is_last and n_huge < huge_quota and not cls.__flexible__ and d.kafka in ("bytes", "records"):
            # record sets beyond any plausible internal chunk size (64 KiB, 1 MiB, ...): evaluated on the implementation only
            n_huge += 1
            size = [65537, 70000, 2**20 + 5, 1_500_000, 3 * 2**20 + 17, 2**20 - 1][n_huge % 6] if ctx["tier"] == "quick" else r.choice(
                [65537, 70000, 2**20 + 5, 1_500_000, 3 * 2**20 + 17, 5_000_000])
        val[1][fi] = ("str", b"s" * size) if d.kafka == "string" else ("bytes", bytes(r.getrandbits(8) for _ in range(64)) * (size // 64) + bytes(size % 64))
        enc = cc.impl_encode(cls, to_py(cls, val))
        if enc[0] != "ok":
            continue
        data = enc[1]
        n = len(data)
        n_big += 1
        n_inst += 1
        cuts = sorted(set(list(range(0, 40)) + list(range(n - 80, n)) + [r.randrange(n) for _ in range(60)]
                         + [c for b in (8192, 16384) for c in range(b - 3, b + 40) if c < n]
                         + [n - 1 - r.randrange(min(n, 2**16)) for _ in range(20)] + [n - 1 - r.randrange(min(n, 2**20)) for _ in range(20)]
                         + [c for b in (2**16, 2**17, 2**20, 2**21, 3 * 2**20) for c in (b - 1, b, b + 1, b + 30) if c < n]))
        reader = entity_reader(cls)
        for k in cuts:
            total_prefixes += 1
            src = StrictSource(data[:k])
            try:
                reader(src)
                outcome = ("value",)
            except Exception as e:  # noqa
                outcome = ("err", cc.err_name(e), type(e).__name__)
            if outcome[0] != "err" or outcome[1] != "EUnderflow":
                bad.append({"class": _codec.cls_name(classes, idx), "cls": idx, "value": ("ent", [("str", b"<big instance>")]),
                            "encoding": data[:64].hex() + "...", "encoding_length": n, "big_field": fname, "cut": k,
                            "outcome": list(outcome)})
    # the model's verdict is constant by theorem; it is still evaluated on a sample
    sample_cases = sample_cases[:3000]
    failing, errors = cc.run_coq_cases(ctx["build"], "C06", sample_cases, kind="dcase")
    if errors:
        viol.append({"kind": "correspondence", "what": "model evaluation failed", "detail": errors[:3]})
    if bad:
        bad.sort(key=lambda b: (len(b["encoding"]), b["cut"]))
        from ..values import to_json
        for b in bad[:3]:
            b["value"] = to_json(b["value"])
        viol.append({"kind": "property", "what": "a strict prefix of an encoding did not raise BufferUnderflow",
                     "failing_input_found": True, "n_failing": len(bad), "cases": bad[:3]})
    elif failing:
        viol.append({"kind": "correspondence", "observation": "C06: error class on prefixes",
                     "failing_input_found": False,
                     "cases": [_codec.describe_case(classes, sample_cases[i]) for i in failing[:3]]})
    cov = {
        "evaluations": total_prefixes, "distinct_nontrivial": total_prefixes,
        "traces_validated_against_impl": len(sample_cases) - len(failing),
        "rule": f"every cut position 0..len-1 of each generated instance's encoding ([plus 64 KiB - 3 MiB bytes/records payloads as the last field of non-flexible classes, implementation side only] all cuts up to {max_exhaustive} bytes, "
                "128 boundary + 64 random cuts beyond) through a source object that only supports read(n); every "
                "(instance, cut) pair is distinct and non-trivial",
        "instances": n_inst, "big_field_instances": n_big, "classes": n_schema, "model_sample": len(sample_cases),
        "samples": [{"class": _codec.cls_name(classes, c["cls"]), "prefix": c["input"].hex()} for c in sample_cases[:3]],
        "property_failures_on_implementation": len(bad), "correspondence_disagreements": len(failing),
    }
    return {"violations": viol, "coverage": cov}
