"""C07 - messages are self-delimiting on a sequential stream; sink/source kind does not matter."""
import asyncio
import io
import os
import tempfile

from .. import codec_corr as cc
from ..values import to_json, to_py
from . import _codec


class WriteOnlySink:
    """socket-like: only write() works"""

    def __init__(self):
        self.chunks = []
        self.touched = set()

    def write(self, b):
        self.touched.add("write")
        if not isinstance(b, (bytes, bytearray, memoryview)):
            raise TypeError("write() needs bytes")
        self.chunks.append(bytes(b))
        return len(b)

    def __getattr__(self, name):
        self.touched.add(name)
        raise AssertionError(f"writer used sink.{name}")

    def data(self):
        return b"".join(self.chunks)


class QueueingSink(WriteOnlySink):
    """transport-like: write() queues the object it was handed (as asyncio's selector transport does
    with a backlog) and the bytes are only looked at when the queue is flushed, after the call"""

    def write(self, b):
        self.touched.add("write")
        if not isinstance(b, (bytes, bytearray, memoryview)):
            raise TypeError("write() needs bytes")
        self.chunks.append(b)
        return len(b)

    def data(self):
        return b"".join(bytes(c) for c in self.chunks)


class ReadOnlySource:
    def __init__(self, data, step=None):
        self._data, self._pos, self.touched = data, 0, set()

    def read(self, n=-1):
        self.touched.add("read")
        if not isinstance(n, int) or n < 0:
            raise AssertionError(f"read({n!r}) is not an exact-size read")
        out = self._data[self._pos:self._pos + n]
        self._pos += len(out)
        return out

    def __getattr__(self, name):
        self.touched.add(name)
        raise AssertionError(f"reader used source.{name}")


async def _stream_writer_bytes(write_all):
    """Runs write_all(writer) against an asyncio.StreamWriter over a pipe; returns the bytes."""
    loop = asyncio.get_running_loop()
    rfd, wfd = os.pipe()
    wf = os.fdopen(wfd, "wb", buffering=0)
    transport, protocol = await loop.connect_write_pipe(asyncio.streams.FlowControlMixin, wf)
    writer = asyncio.StreamWriter(transport, protocol, None, loop)
    chunks = []

    def reader_thread():
        with os.fdopen(rfd, "rb", buffering=0) as rf:
            while True:
                b = rf.read(65536)
                if not b:
                    break
                chunks.append(b)

    import threading
    t = threading.Thread(target=reader_thread)
    t.start()
    write_all(writer)
    await writer.drain()
    writer.close()
    for _ in range(400):
        if not t.is_alive():
            break
        await asyncio.sleep(0.005)
    t.join(5)
    return b"".join(chunks)


def run(ctx):
    from kio.serial import entity_reader, entity_writer
    from kio.static.constants import EntityType

    classes, n_schema, gen = _codec.setup(ctx)
    r = gen.r
    n_seq = 300 if ctx["tier"] == "quick" else 4000
    payloads = [i for i in range(n_schema) if getattr(classes[i], "__type__", None) in (EntityType.request, EntityType.response)]
    bad = []
    model_cases = []
    n_msgs = 0
    sink_kinds = {}
    samples = []
    for s in range(n_seq):
        k = r.randint(1, 8)
        msgs = []
        for _ in range(k):
            pi = r.choice(payloads)
            pcls = classes[pi]
            hcls = pcls.__header_schema__
            hi = classes.index(hcls)
            for ci, c in ((hi, hcls), (pi, pcls)):     # a header followed by its payload
                val = gen.entity(c)
                msgs.append((ci, c, val, to_py(c, val)))
        n_msgs += len(msgs)
        lead = bytes(r.getrandbits(8) for _ in range(r.choice([0, 0, 3])))
        trail = bytes(r.getrandbits(8) for _ in range(r.choice([0, 0, 1, 5])))

        def write_all(sink):
            for _, c, _, inst in msgs:
                entity_writer(c)(sink, inst)

        outputs = {}
        b = io.BytesIO(); b.write(lead); write_all(b); outputs["BytesIO"] = b.getvalue()[len(lead):]
        w = WriteOnlySink()
        try:
            write_all(w); outputs["write-only"] = w.data()
        except Exception as e:  # noqa
            bad.append({"what": f"encoding to a write-only sink (an object with write() only) failed: {type(e).__name__}: {e}", "seq": s,
                        "classes": [_codec.cls_name(classes, ci) for ci, *_ in msgs], "bytes_written_before_the_failure": len(w.data())})
        q = QueueingSink()
        try:
            write_all(q); outputs["queueing"] = q.data()
        except Exception as e:  # noqa
            bad.append({"what": f"encoding to a queueing write-only sink failed: {type(e).__name__}: {e}", "seq": s,
                        "classes": [_codec.cls_name(classes, ci) for ci, *_ in msgs]})
        if w.touched - {"write"}:
            bad.append({"what": f"writer touched {sorted(w.touched - {'write'})} on the sink", "seq": s})
        if s % 10 == 0:
            with tempfile.TemporaryFile(dir=str(ctx["build"])) as f:
                bw = io.BufferedWriter(f.raw if hasattr(f, "raw") else f)
                write_all(bw); bw.flush(); f.seek(0); outputs["BufferedWriter"] = f.read()
        if s % 25 == 0:
            try:
                outputs["asyncio.StreamWriter"] = asyncio.run(_stream_writer_bytes(write_all))
            except Exception as e:  # noqa
                bad.append({"what": f"asyncio.StreamWriter sink failed: {type(e).__name__}: {e}", "seq": s})
        for kind in outputs:
            sink_kinds[kind] = sink_kinds.get(kind, 0) + 1
        ref = outputs["BytesIO"]
        for kind, data in outputs.items():
            if data != ref:
                bad.append({"what": f"bytes written to {kind} differ from BytesIO", "seq": s,
                            "classes": [_codec.cls_name(classes, ci) for ci, *_ in msgs]})
        # per-message encodings concatenate to the stream
        singles = b"".join(cc.impl_encode(c, inst)[1] for _, c, _, inst in msgs)
        if singles != ref:
            bad.append({"what": "stream is not the concatenation of the individual encodings", "seq": s})
        # decode back to back from several sources
        stream = ref + trail
        for kind in ("BytesIO", "read-only", "BufferedReader"):
            if kind == "BytesIO":
                src = io.BytesIO(stream)
            elif kind == "read-only":
                src = ReadOnlySource(stream)
            else:
                src = io.BufferedReader(io.BytesIO(stream), buffer_size=r.choice([1, 2, 3, 5, 7, 16, 64]))
            try:
                got = [entity_reader(c)(src) for _, c, _, _ in msgs]
                rest = src.read(len(trail) + 10)
            except Exception as e:  # noqa
                bad.append({"what": f"decoding the sequence from {kind} raised {cc.err_name(e)}", "seq": s,
                            "stream": stream.hex()[:400], "classes": [_codec.cls_name(classes, ci) for ci, *_ in msgs]})
                continue
            if [g for g in got] != [inst for *_, inst in msgs] or rest != trail:
                bad.append({"what": f"sequence decoded from {kind} differs from the original values / trailing bytes",
                            "seq": s, "stream": stream.hex()[:400],
                            "classes": [_codec.cls_name(classes, ci) for ci, *_ in msgs]})
            if kind == "read-only" and src.touched - {"read"}:
                bad.append({"what": f"reader touched {sorted(src.touched)} on the source", "seq": s})
        # model: each message decodes from its offset in the stream (tail = the rest of the stream)
        off = 0
        for ci, c, val, inst in msgs[: 2 if s % 4 else len(msgs)]:
            enc = cc.impl_encode(c, inst)
            data = stream[off:]
            dec = cc.impl_decode(c, data)
            model_cases.append({"cls": ci, "val": val, "enc": enc, "input": data[:len(enc[1]) + 40] if len(data) > len(enc[1]) + 40 else data,
                                "dec": dec if len(data) <= len(enc[1]) + 40 else (dec[0], dec[1], dec[2][:40]) if dec[0] == "ok" else dec})
            off += len(enc[1])
        if len(samples) < 2:
            samples.append({"messages": [_codec.cls_name(classes, ci) for ci, *_ in msgs], "leading": lead.hex(),
                            "trailing": trail.hex(), "stream_bytes": len(ref)})
    # sequences of "twins": consecutive messages whose field values compare (and hash) equal in Python and yet are different
    # values of the Kafka type - the same wall-clock reading in a repeated DST hour with fold 0 / fold 1, and 0.0 / -0.0.
    # Each message's bytes must be those of ITS value (reference encoder), whatever was written just before.
    import dataclasses as _dc
    import datetime as _dt
    import zoneinfo as _zi
    from .. import refenc
    from ..values import describe, from_py

    def map_leaves(o, f):
        if _dc.is_dataclass(o) and not isinstance(o, type):
            return _dc.replace(o, **{fl.name: map_leaves(getattr(o, fl.name), f) for fl in _dc.fields(o)})
        if isinstance(o, tuple):
            return tuple(map_leaves(x, f) for x in o)
        return f(o)

    def has_kind(cls, kinds, depth=0):
        return any(d.kafka in kinds or (d.ent is not None and depth < 4 and has_kind(d.ent, kinds, depth + 1)) for d in describe(cls))

    twin_sets = []
    for zname, y, mo, dd, hh in (("America/New_York", 2021, 11, 7, 1), ("Europe/Berlin", 2023, 10, 29, 2), ("Australia/Lord_Howe", 2024, 4, 7, 1)):
        z = _zi.ZoneInfo(zname)
        twin_sets.append([_dt.datetime(y, mo, dd, hh, 30, 5, 250000, tzinfo=z, fold=fo) for fo in (0, 1, 0)])
        twin_sets.append([_dt.datetime(y, mo, dd, hh, 30, 5, 250000, tzinfo=z, fold=fo) for fo in (1, 0, 1)])
    float_sets = [[0.0, -0.0, 0.0], [-0.0, 0.0, -0.0]]
    twin_classes = [i for i in range(n_schema) if has_kind(classes[i], {"datetime_i64", "float64"})]
    n_twin = 0
    for rep in range(2 if ctx["tier"] == "quick" else 12):
        for ci in twin_classes:
            cls = classes[ci]
            base = None
            for _ in range(8):
                inst = to_py(cls, gen.entity(cls))
                if map_leaves(inst, lambda o: "T" if isinstance(o, (_dt.datetime, float)) and not isinstance(o, bool) else o) != inst:
                    base = inst
                    break
            if base is None:
                continue
            for ti in range(max(len(twin_sets), len(float_sets))):
                dts, fls = twin_sets[ti % len(twin_sets)], float_sets[ti % len(float_sets)]
                seq = [map_leaves(base, lambda o, j=j: dts[j] if isinstance(o, _dt.datetime) else fls[j] if isinstance(o, float) else o) for j in range(3)]
                out = io.BytesIO()
                try:
                    cuts = []
                    for m in seq:
                        entity_writer(cls)(out, m)
                        cuts.append(out.tell())
                except Exception as e:  # noqa
                    bad.append({"what": f"writing a sequence of equal-but-distinct values raised {cc.err_name(e)}", "class": _codec.cls_name(classes, ci)})
                    continue
                n_twin += 1
                data = out.getvalue()
                start = 0
                for j, m in enumerate(seq):
                    want = refenc.enc_entity(refenc.decorate(gen, cls, from_py(m), 0.0, 0.0))
                    got = data[start:cuts[j]]
                    start = cuts[j]
                    if got != want:
                        bad.append({"what": f"message {j + 1} of a sequence whose values compare equal in Python but are different Kafka values "
                                            f"was written with other bytes than its own value's encoding", "class": _codec.cls_name(classes, ci),
                                    "values": [repr(x) + f" fold={x.fold}" for x in dts[:j + 1]] if has_kind(cls, {"datetime_i64"}) else [repr(x) for x in fls[:j + 1]],
                                    "written": got.hex()[:300], "reference": want.hex()[:300]})
                        break
    failing, errors = cc.run_coq_cases(ctx["build"], "C07", model_cases)
    viol = []
    if errors:
        viol.append({"kind": "correspondence", "what": "model evaluation failed", "detail": errors[:3]})
    if bad:
        viol.append({"kind": "property", "what": "a sequence of messages on one stream was not written/read back faithfully",
                     "failing_input_found": True, "n_failing": len(bad), "cases": bad[:4]})
    elif failing:
        viol.append({"kind": "correspondence", "observation": "C07: message decoded at its stream offset with the rest of the stream as tail",
                     "failing_input_found": False, "n_disagreements": len(failing),
                     "cases": [_codec.describe_case(classes, model_cases[i]) for i in failing[:3]]})
    cov = {
        "evaluations": n_seq, "distinct_nontrivial": n_seq,
        "traces_validated_against_impl": len(model_cases) - len(failing),
        "rule": "random sequences of 1-8 (header, payload) pairs of arbitrary API classes on one stream with random leading/"
                "trailing bytes; sinks: BytesIO, write-only copying object, write-only queueing object (keeps the chunk it was handed), BufferedWriter on a file, asyncio.StreamWriter over a pipe; "
                "sources: BytesIO, read(n)-only object, BufferedReader with a 7-byte buffer; every sequence is distinct",
        "equal_but_distinct_value_sequences": n_twin, "messages": n_msgs, "sink_kinds": sink_kinds, "model_cases": len(model_cases), "samples": samples,
        "property_failures_on_implementation": len(bad), "correspondence_disagreements": len(failing),
    }
    return {"violations": viol, "coverage": cov}
