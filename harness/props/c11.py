"""C11 - primitive readers and writers implement the Kafka primitive encodings."""
from __future__ import annotations

import inspect
import io
import re
import struct

from .. import codec_corr as cc
from .. import common
from ..values import Gen, Unmappable, from_py, to_coq, to_json, leaf_to_py, coq_bytes

INT_WRITERS = {
    "write_int8": (-2**7, 2**7 - 1), "write_int16": (-2**15, 2**15 - 1), "write_int32": (-2**31, 2**31 - 1),
    "write_int64": (-2**63, 2**63 - 1), "write_uint8": (0, 2**8 - 1), "write_uint16": (0, 2**16 - 1),
    "write_uint32": (0, 2**32 - 1), "write_uint64": (0, 2**64 - 1),
    "write_legacy_array_length": (-2**31, 2**31 - 1),
}
HIGHER_ORDER = {"compact_array_writer", "legacy_array_writer", "write_tagged_field", "compact_array_reader",
                "legacy_array_reader", "write_empty_tagged_fields", "read_exact", "tz_aware_from_i64"}

ERR_CODE = {"EUnderflow": 1, "EUnexpectedNull": 2, "EOutOfBound": 3, "ESchema": 4, "EValue": 5, "EStruct": 7,
            "EType": 8, "ENotImplemented": 9, "EKey": 10, "EIndex": 11, "EAttr": 12, "EAssert": 13, "ERecursion": 14}


def call_writer(fn, pyval):
    buf = io.BytesIO()
    try:
        fn(buf, pyval)
    except Exception as e:  # noqa
        return ("err", cc.err_name(e))
    return ("ok", buf.getvalue())


def call_reader(fn, data: bytes):
    buf = io.BytesIO(data)
    try:
        obj = fn(buf)
    except Exception as e:  # noqa
        return ("err", cc.err_name(e))
    try:
        return ("ok", from_py(obj), data[buf.tell():])
    except Unmappable:
        return ("err", "Other:Unmappable")


def ser_w(r):
    if r[0] == "ok":
        return bytes([len(r[1]) % 256]) + r[1]
    return bytes([255, ERR_CODE.get(r[1], 99)])


def ser_r(r):
    if r[0] == "err":
        return bytes([255, ERR_CODE.get(r[1], 99)])
    v, rest = r[1], r[2]
    n = len(rest) % 256
    if v[0] == "int":
        return b"\x00" + (v[1] % 2**128).to_bytes(16, "big") + bytes([n])
    if v[0] == "bool":
        return bytes([1, 1 if v[1] else 0, n])
    if v[0] == "null":
        return bytes([2, n])
    if v[0] == "str":
        return b"\x03" + v[1] + bytes([n])
    if v[0] == "bytes":
        return b"\x04" + v[1] + bytes([n])
    return bytes([9, n])


def cstr(s):
    return '"' + s + '"'


def res_w(r):
    return f"(Ok {coq_bytes(r[1])})" if r[0] == "ok" else f"(Err {r[1] if not r[1].startswith('Other') else 'EAssert'})"


def res_r(r):
    if r[0] == "ok":
        return f"(Ok ({to_coq(r[1])}, {coq_bytes(r[2])}))"
    return f"(Err {r[1] if not r[1].startswith('Other') else 'EAssert'})"


def run(ctx):
    import time as _time
    _t0 = _time.time()
    phases = {}
    from crc32c import crc32c
    from kio.schema.errors import ErrorCode
    from kio.serial import readers, writers

    tier = ctx["tier"]
    gen = Gen(ctx["seed"], [int(e.value) for e in ErrorCode])
    r = gen.r
    pub_w = {n: f for n, f in vars(writers).items() if inspect.isfunction(f) and f.__module__ == writers.__name__
             and not n.startswith("_")}
    pub_r = {n: f for n, f in vars(readers).items() if (inspect.isfunction(f) and f.__module__ == readers.__name__
             and not n.startswith("_")) or n == "read_legacy_array_length"}
    # which public functions have a model counterpart (read from the Coq source, one place of truth)
    src = (common.COQ / "Prim" / "Public.v").read_text()
    modelled = set(re.findall(r'"((?:read|write)_[a-z0-9_]+)"', src))
    uncovered = sorted(n for n in list(pub_w) + list(pub_r) if n not in modelled and n not in HIGHER_ORDER)
    gone = sorted(n for n in modelled if n not in pub_w and n not in pub_r)

    wcases, rcases = [], []
    KINDS = {
        "write_boolean": "bool", "write_float64": "float64", "write_nullable_compact_string": "string?",
        "write_compact_string": "string", "write_nullable_legacy_string": "string?", "write_legacy_string": "string",
        "write_nullable_legacy_bytes": "bytes?", "write_legacy_bytes": "bytes", "write_uuid": "uuid?",
        "write_error_code": "error_code", "write_timedelta_i32": "timedelta_i32", "write_timedelta_i64": "timedelta_i64",
        "write_datetime_i64": "datetime_i64", "write_nullable_datetime_i64": "datetime_i64?",
    }
    n_rand = 40 if tier == "quick" else 600

    def int_samples(lo, hi):
        out = {lo, lo + 1, hi, hi - 1, 0, 1, -1, lo - 1, hi + 1, lo - 2**20, hi + 2**40}
        for p in range(0, 72):
            out |= {2**p - 1, 2**p, 2**p + 1, -(2**p) - 1, -(2**p), -(2**p) + 1}
        for _ in range(n_rand):
            out.add(r.randint(lo, hi))
            out.add(r.randint(lo - 2**66, hi + 2**66))
        return sorted(out)

    for name, fn in pub_w.items():
        if name not in modelled:
            continue
        if name in INT_WRITERS:
            for z in int_samples(*INT_WRITERS[name]):
                wcases.append((name, ("int", z), call_writer(fn, z)))
        elif name in ("write_unsigned_varint", "write_unsigned_varlong", "write_compact_array_length"):
            lo = -1 if name == "write_compact_array_length" else 0   # negative values never terminate in kio
            for z in int_samples(0, 2**35 - 1 if "varlong" not in name else 2**70 - 1):
                if z >= lo:
                    wcases.append((name, ("int", z), call_writer(fn, z)))
        elif name in ("write_signed_varint", "write_signed_varlong"):
            for z in int_samples(-2**31, 2**31 - 1) if name.endswith("varint") else int_samples(-2**63, 2**63 - 1):
                wcases.append((name, ("int", z), call_writer(fn, z)))
        else:
            kind = KINDS[name]
            base = kind.rstrip("?")
            vals = []
            if kind.endswith("?"):
                vals.append(("null",))
            elif base in ("string", "bytes"):
                vals.append(("null",))          # the non-nullable writers must raise TypeError
            for _ in range(n_rand):
                vals.append(gen.prim(base if base != "uuid" else "uuid"))
            if base == "string":
                vals += [("str", b"x" * n) for n in (126, 127, 128, 16383, 16384, 32767, 32768)]
                # few characters, many bytes: the limits are byte limits
                vals += [("str", "\u00e9".encode() * 16383 + b"x"), ("str", "\u00e9".encode() * 16384),
                         ("str", "\u20ac".encode() * 11000), ("str", "\U0001f600".encode() * 16383 + b"abc"),
                         ("str", "\U0001f600".encode() * 16384)]
            if base == "bytes":
                vals += [("bytes", bytes(n)) for n in (127, 128, 16384)]
            if base.startswith("timedelta"):
                for ms in (2**31 - 1, 2**31, -2**31, -2**31 - 1, 2**51 + 1, 2**53 + 1, 2**63 - 1 if False else 86399999999999):
                    vals.append(("dur", ms * 1000))
                vals += [("dur", us) for us in (1, 499, 500, 501, 1500, 2500, -500, -1500, 999, -1)]
                # every whole number of days the type can hold (i32: -24..24), whole hours, and days +- one millisecond
                day = 86400000000
                kmax = 24 if base == "timedelta_i32" else 40
                vals += [("dur", k * day) for k in range(-kmax, kmax + 1)] + [("dur", k * day + e) for k in (1, -1, 7, 24) for e in (1000, -1000)]
                vals += [("dur", h * 3600000000) for h in (1, 12, 23, 25, -1, -12)]
                if base == "timedelta_i64":
                    vals += [("dur", k * day) for k in (365, 36500, 999999998, 999999999, -999999999)]
                # exact half-millisecond ties at many magnitudes, both signs: where a float detour rounds the wrong way
                top = 2**31 if base == "timedelta_i32" else 2**53
                for _ in range(150 if tier == "quick" else 3000):
                    k = gen.r.choice([gen.r.randrange(0, 5000), gen.r.randrange(0, 2**22), gen.r.randrange(0, top - 1)])
                    vals.append(("dur", gen.r.choice([1, -1]) * (k * 1000 + 500)))
                    if gen.r.random() < 0.2:
                        vals.append(("dur", gen.r.choice([1, -1]) * (k * 1000 + gen.r.choice([499, 501, 1, 999]))))
            if base == "datetime_i64":
                vals += [("time", us) for us in (0, 1, 500, 1500, 2500, 999999, 253402300799999000, 253402300799999999)]
            for v in vals:
                py = cc.to_coq and leaf_to_py(v)
                if name == "write_error_code" and v[0] == "int":
                    py = ErrorCode(v[1])
                wcases.append((name, v, call_writer(fn, py)))
    # readers: encodings produced by the writers above, mutated / truncated, plus random strings
    enc_by_reader = {
        "read_boolean": [b"\x00", b"\x01", b"\x02", b"\xff"],
    }
    pool = [c[2][1] for c in wcases if c[2][0] == "ok"]
    for name, fn in pub_r.items():
        if name not in modelled:
            continue
        inputs = set(enc_by_reader.get(name, []))
        for _ in range(n_rand * 3):
            b = r.choice(pool) if r.random() < 0.7 else bytes(r.getrandbits(8) for _ in range(r.choice([0, 1, 2, 4, 8, 9, 16, 17])))
            if r.random() < 0.3 and b:
                b = b[:r.randrange(len(b) + 1)]
            if r.random() < 0.3:
                b = b + bytes(r.getrandbits(8) for _ in range(r.choice([1, 2, 8])))
            inputs.add(b)
        for ms in (-1, 0, 1, 1500, 253402300799999, 253402300800000, -62135596800000, -62135596800001, 2**63 - 1, -2**63):
            inputs.add(struct.pack(">q", ms))
        for b in sorted(inputs, key=lambda x: (len(x), x)):
            if len(b) > 40000:
                continue
            rcases.append((name, b, call_reader(fn, b)))

    # the property itself, evaluated on the implementation: reader after writer is the identity
    # on the domain, and range violations raise
    prop_bad = []
    # 'each reader accepts exactly the Kafka encoding of its type': an independent reading of the primitive decodings
    # (harness/refprim.py) on every reader input above, on every negative length prefix shape, and on all 65536 error codes
    from .. import refprim
    ec_set = {int(e.value) for e in ErrorCode}
    spec_inputs = [(name, b, got) for name, b, got in rcases]
    tail = b"next field or message"
    for name in ("read_legacy_string", "read_nullable_legacy_string"):
        if name in pub_r:
            for n in (-1, -2, -3, -7, -128, -129, -256, -32767, -32768, 0, 1, 21, 22):
                b = struct.pack(">h", n) + tail
                spec_inputs.append((name, b, call_reader(pub_r[name], b)))
    for name in ("read_legacy_bytes", "read_nullable_legacy_bytes"):
        if name in pub_r:
            for n in (-1, -2, -3, -7, -129, -32769, -65536, -2**31, -2**31 + 1, 0, 1, 21, 22):
                b = struct.pack(">i", n) + tail
                spec_inputs.append((name, b, call_reader(pub_r[name], b)))
    if "read_error_code" in pub_r:
        for z in range(-2**15, 2**15):
            b = struct.pack(">h", z) + b"\x5a"
            spec_inputs.append(("read_error_code", b, call_reader(pub_r["read_error_code"], b)))
    n_spec = 0
    spec_bad = []
    for name, b, got in spec_inputs:
        want = refprim.spec_read(name, b, ec_set)
        if want is None:
            continue
        n_spec += 1
        if want[0] == "reject" and got[0] == "ok":
            spec_bad.append({"function": name, "input": b.hex()[:200], "what": "accepted bytes that are not a Kafka encoding of the type",
                             "returned": str(got[1])[:120], "left_unread": len(got[2])})
        elif want[0] == "ok" and got[0] != "ok":
            spec_bad.append({"function": name, "input": b.hex()[:200], "what": f"rejected a Kafka encoding of the type with {got[1]}"})
        elif want[0] == "ok" and (got[1] != want[1] or got[2] != want[2]):
            spec_bad.append({"function": name, "input": b.hex()[:200], "what": "decoded a different value or consumed a different number of bytes",
                             "returned": str(got[1])[:120], "expected": str(want[1])[:120], "left_unread": len(got[2]), "expected_unread": len(want[2])})
    spec_bad.sort(key=lambda x: len(x["input"]))
    prop_bad += spec_bad[:6]
    # timestamps given in DST-observing zones (zoneinfo), in and around the repeated and the skipped hour, fold 0 and 1:
    # the writer emits the INSTANT's milliseconds (computed here by astimezone(UTC) and exact integer arithmetic)
    import datetime as _dt
    import zoneinfo as _zi
    _epoch_utc = _dt.datetime(1970, 1, 1, tzinfo=_dt.timezone.utc)
    for zname, y, mo, d in (("America/New_York", 2024, 11, 3), ("Europe/Berlin", 2023, 10, 29), ("Europe/London", 2024, 3, 31),
                            ("America/New_York", 2024, 3, 10), ("Australia/Lord_Howe", 2024, 4, 7)):
        z = _zi.ZoneInfo(zname)
        for hh, mm in ((0, 30), (1, 0), (1, 30), (1, 45), (2, 0), (2, 30), (3, 0), (3, 30)):
            for fold in (0, 1):
                for ms in (0, 250):
                    v = _dt.datetime(y, mo, d, hh, mm, 7, ms * 1000, tzinfo=z, fold=fold)
                    want_ms = (v.astimezone(_dt.timezone.utc) - _epoch_utc) // _dt.timedelta(milliseconds=1)
                    for wname in ("write_datetime_i64", "write_nullable_datetime_i64"):
                        if wname not in pub_w:
                            continue
                        got = call_writer(pub_w[wname], v)
                        if got != ("ok", want_ms.to_bytes(8, "big", signed=True)):
                            prop_bad.append({"function": wname, "value": f"{v!r} (fold={fold})",
                                             "what": f"wrote {got[1].hex() if got[0] == 'ok' else got[1]}, the instant is {want_ms} ms since the epoch"})
    # Kafka's BOOLEAN: one byte, zero is false, EVERY non-zero byte is true (all 256 values)
    if "read_boolean" in pub_r:
        wrong = [b0 for b0 in range(256) if call_reader(pub_r["read_boolean"], bytes([b0]))[:2] != ("ok", ("bool", b0 != 0))]
        if wrong:
            prop_bad.append({"function": "read_boolean", "value": [hex(x) for x in wrong[:8]],
                             "what": f"{len(wrong)} of the 256 byte values are not read as 'zero is false, anything else is true'"})
    PAIRS = {
        "write_int8": "read_int8", "write_int16": "read_int16", "write_int32": "read_int32", "write_int64": "read_int64",
        "write_uint8": "read_uint8", "write_uint16": "read_uint16", "write_uint32": "read_uint32",
        "write_uint64": "read_uint64", "write_unsigned_varint": "read_unsigned_varint",
        "write_unsigned_varlong": "read_unsigned_varlong", "write_signed_varint": "read_signed_varint",
        "write_signed_varlong": "read_signed_varlong", "write_boolean": "read_boolean", "write_float64": "read_float64",
        "write_nullable_compact_string": "read_compact_string_nullable", "write_compact_string": "read_compact_string",
        "write_nullable_legacy_string": "read_nullable_legacy_string", "write_legacy_string": "read_legacy_string",
        "write_nullable_legacy_bytes": "read_nullable_legacy_bytes", "write_legacy_bytes": "read_legacy_bytes",
        "write_uuid": "read_uuid", "write_error_code": "read_error_code", "write_timedelta_i32": "read_timedelta_i32",
        "write_timedelta_i64": "read_timedelta_i64", "write_datetime_i64": "read_datetime_i64",
        "write_nullable_datetime_i64": "read_nullable_datetime_i64",
    }
    DOMAIN = dict(INT_WRITERS)
    DOMAIN.update({"write_unsigned_varint": (0, 2**35 - 1), "write_unsigned_varlong": (0, 2**70 - 1),
                   "write_signed_varint": (-2**31, 2**31 - 1), "write_signed_varlong": (-2**63, 2**63 - 1)})
    for name, v, out in wcases:
        rd = PAIRS.get(name)
        if name in DOMAIN and v[0] == "int":
            lo, hi = DOMAIN[name]
            inside = lo <= v[1] <= hi
            if name in INT_WRITERS and not inside and out[0] == "ok":
                prop_bad.append({"function": name, "value": v[1], "what": "out-of-domain value was written", "bytes": out[1].hex()})
            if inside and out[0] != "ok":
                prop_bad.append({"function": name, "value": v[1], "what": f"in-domain value raised {out[1]}"})
            if not inside:
                continue
        if rd and rd in pub_r and out[0] == "ok":
            back = call_reader(pub_r[rd], out[1] + b"\x5a")
            canonical = True
            if v[0] in ("dur", "time") and v[1] % 1000 != 0:
                canonical = False
            if v[0] == "time" and v[1] < 0:
                canonical = False
            if v == ("uuid", bytes(16)):
                canonical = False
            expect = v if not (v[0] == "bytes" and "string" in name) else v
            if canonical and not (back[0] == "ok" and back[1] == expect and back[2] == b"\x5a"):
                if v[0] == "str" and "string" in name or v[0] != "str":
                    prop_bad.append({"function": name, "value": to_json(v), "bytes": out[1].hex(),
                                     "what": "reader after writer is not the identity", "read_back": str(back)[:200]})
        if name.endswith("varint") and name != "write_signed_varint" and v[0] == "int" and out[0] == "ok" and 0 <= v[1] < 2**35:
            want = max(1, -(-v[1].bit_length() // 7))
            if len(out[1]) != want or len(out[1]) > 5:
                prop_bad.append({"function": name, "value": v[1], "what": f"varint has {len(out[1])} bytes, minimal is {want}"})

    # none of this may depend on the process's local time zone
    from .. import tzprobe
    tz_ops = []
    for us in (0, 1000, 1500000, 86399999000, 1700000000123000, 253402300799999000, 4102444800000000, 5000):
        for tzm in (0, 60, -300, 765):
            tz_ops.append(["wdt", us, tzm, False]); tz_ops.append(["wdt", us, tzm, True])
        ms = us // 1000
        tz_ops.append(["rdt", ms.to_bytes(8, "big", signed=True).hex(), False]); tz_ops.append(["rdt", ms.to_bytes(8, "big", signed=True).hex(), True])
    tz_ops.append(["rdt", (-1).to_bytes(8, "big", signed=True).hex(), True])
    for us in (0, 1500, -1500, 2147483647000, 86399999913600000):
        tz_ops.append(["wtd", us, "write_timedelta_i64"]); tz_ops.append(["wtd", us, "write_timedelta_i32"])
    tz_diff = tzprobe.differing(tz_ops)
    for dd in tz_diff[:3]:
        prop_bad.append({"function": dd["operation"][0], "what": "the result depends on the process's local time zone (TZ)", **dd})
    phases["implementation_cases_s"] = round(_time.time() - _t0, 1)
    # model comparison: single cases
    d = ctx["build"]
    header = ("From Coq Require Import ZArith List Bool String.\nFrom KioV Require Import Base.Res Codec.Value Prim.Public Codec.Check.\n"
              "From KioG Require Import Env.\nImport ListNotations.\nOpen Scope Z_scope.\n")
    failing_w, failing_r, errors = [], [], []
    per = 1500
    files = []
    from ._records import _shards
    wterms = [f"{{| wp_name := {cstr(c[0])}%string; wp_val := {to_coq(c[1])}; wp_out := {res_w(c[2])} |}}" for c in wcases]
    for n, (start, chunk) in enumerate(_shards(wterms, max_chars=300_000, max_items=per)):   # by text size: a few cases are 100 KB each
        body = ";\n".join(chunk)
        files.append((f"C11w_{n}", "w", start, header + f"Definition cases : list wpcase := [\n{body}\n].\nEval vm_compute in (failing check_wpcase cases).\n"))
    rterms = [f"{{| rp_name := {cstr(c[0])}%string; rp_in := {coq_bytes(c[1])}; rp_out := {res_r(c[2])} |}}" for c in rcases]
    for n, (start, chunk) in enumerate(_shards(rterms, max_chars=300_000, max_items=per)):
        body = ";\n".join(chunk)
        files.append((f"C11r_{n}", "r", start, header + f"Definition cases : list rpcase := [\n{body}\n].\nEval vm_compute in (failing (check_rpcase EC) cases).\n"))
    phases["case_files_s"] = round(_time.time() - _t0, 1)
    # range sweeps
    sweeps = []
    for name in ("write_int8", "write_uint8"):
        sweeps.append(("w", name, -300, 900))
    for name in ("write_int16", "write_uint16"):
        sweeps.append(("w", name, -40000, 110000) if tier == "thorough" or name == "write_int16" else ("w", name, -300, 66200))
    for name in ("write_unsigned_varint", "write_signed_varint", "write_compact_array_length"):
        top = 2**21 if tier == "thorough" else 2**15
        sweeps.append(("w", name, 0 if "unsigned" in name else (-1 if "array" in name else -top // 2), top + 300))
    for name in ("read_int8", "read_uint8", "read_boolean", "read_unsigned_varint", "read_signed_varint"):
        sweeps.append(("r1", name, 0, 256))
    r2_names = ("read_int16", "read_unsigned_varint", "read_compact_string") if tier == "quick" else (
        "read_int16", "read_uint16", "read_unsigned_varint", "read_signed_varint", "read_compact_array_length",
        "read_compact_string", "read_nullable_legacy_string", "read_error_code", "read_legacy_string")
    for name in r2_names:
        for q in range(0, 256, 32):        # by first byte, 8 processes per function (the model's CRC is bit-serial)
            sweeps.append(("r2", name, q, 32))
    sweep_lines, sweep_expect = [], []
    n_sweep_evals = 0
    for kind, name, lo, n in sweeps:
        if name not in modelled or (name not in pub_w and name not in pub_r):
            continue
        if kind == "w":
            blob = b"".join(ser_w(call_writer(pub_w[name], z)) for z in range(lo, lo + n))
            sweep_lines.append(f"Eval vm_compute in sweep_write {cstr(name)}%string ({lo}) {n}%nat.")
            n_sweep_evals += n
        elif kind == "r1":
            blob = b"".join(ser_r(call_reader(pub_r[name], bytes([b0]) + b"\x07")) for b0 in range(256))
            sweep_lines.append(f"Eval vm_compute in sweep_read1 EC {cstr(name)}%string [7].")
            n_sweep_evals += 256
        else:
            blob = b"".join(ser_r(call_reader(pub_r[name], bytes([b0, b1]) + b"\x41\x42")) for b0 in range(lo, lo + n) for b1 in range(256))
            sweep_lines.append(f"Eval vm_compute in sweep_read2 EC {cstr(name)}%string {lo} {n}%nat [65; 66].")
            n_sweep_evals += 256 * n
        sweep_expect.append((kind, name, lo, n, crc32c(blob)))
    for j, line in enumerate(sweep_lines):      # one process per sweep: they dominate the wall time
        files.append((f"C11sweep_{j}", "s", j, header + line + "\n"))
    phases["implementation_sweeps_s"] = round(_time.time() - _t0, 1)
    import subprocess
    pending = list(files)
    running = []
    sweep_bad = []
    while pending or running:
        while pending and len(running) < 16:
            fname, kind, start, text = pending.pop(0)
            (d / f"{fname}.v").write_text(text)
            running.append((fname, kind, start, subprocess.Popen(
                ["timeout", "1500", "coqc", *common.COQ_ARGS, "-Q", str(d), "KioG", f"{fname}.v"], cwd=d,
                stdout=subprocess.PIPE, stderr=subprocess.STDOUT, text=True)))
        fname, kind, start, p = running.pop(0)
        rc, out = common.coq_result(d, fname, p)
        import os as _os
        for ext in (".v", ".vo", ".vok", ".vos", ".glob"):
            if ext == ".v" and _os.environ.get("VERIF_KEEP"):
                continue
            (d / f"{fname}{ext}").unlink(missing_ok=True)
        if rc != 0:
            errors.append(f"{fname}: {out[-800:]}")
            continue
        if kind == "w":
            failing_w += [start + i for i in common.parse_nat_list(out)]
        elif kind == "r":
            failing_r += [start + i for i in common.parse_nat_list(out)]
        else:
            got = [int(x) for x in re.findall(r"=\s*(\d+)\s*\n?\s*:\s*Z", out)]
            if len(got) != 1:
                errors.append(f"sweep output not understood: {out[-500:]}")
            else:
                k, name, lo, n, want = sweep_expect[start]
                if got[0] != want:
                    sweep_bad.append({"sweep": k, "function": name, "from": lo, "count": n, "model_crc": got[0], "impl_crc": want})
    phases["coq_s"] = round(_time.time() - _t0, 1)
    viol = []
    if errors:
        viol.append({"kind": "correspondence", "what": "model evaluation failed", "detail": errors[:3]})
    if gone:
        viol.append({"kind": "correspondence", "what": "public primitive functions named by the model no longer exist",
                     "functions": gone, "failing_input_found": False})
    disagreements = ([{"function": wcases[i][0], "value": to_json(wcases[i][1]), "impl": str(wcases[i][2])[:200]} for i in failing_w[:10]]
                     + [{"function": rcases[i][0], "input": rcases[i][1].hex()[:200], "impl": str(rcases[i][2])[:200]} for i in failing_r[:10]]
                     + sweep_bad)
    if prop_bad:
        viol.append({"kind": "property", "what": "a primitive reader/writer deviates from its Kafka encoding on the implementation",
                     "failing_input_found": True, "n_failing": len(prop_bad), "cases": prop_bad[:5],
                     "model_disagreements": disagreements[:5]})
    elif disagreements:
        viol.append({"kind": "correspondence", "observation": "C11: bytes written / value and remainder read / error class (Prim/Public.v)",
                     "failing_input_found": False, "n_disagreements": len(failing_w) + len(failing_r) + len(sweep_bad),
                     "cases": disagreements[:8]})
    total = len(wcases) + len(rcases) + n_sweep_evals
    cov = {
        "phase_seconds_cumulative": phases, "time_zone_probe": {"operations": len(tz_ops), "zones": tzprobe.ZONES, "differences": len(tz_diff)},
        "evaluations": total,
        "distinct_nontrivial": len({(c[0], c[1]) for c in wcases}) + len({(c[0], c[1]) for c in rcases}) + n_sweep_evals,
        "traces_validated_against_impl": total - len(failing_w) - len(failing_r),
        "rule": "per public writer: domain limits +-1, every power-of-two neighbourhood, random in and far out of range, "
                "string/bytes at 126/127/128/16383/16384/32767 bytes, sub-millisecond durations; per reader: writer "
                "outputs, truncated/extended/random strings; exhaustive sweeps (compared by CRC-32C of a canonical "
                "serialisation) of 8/16-bit integers, varints from 0, all 1- and 2-byte reader inputs; distinct by (function, input)",
        "reader_inputs_checked_against_independent_decoding": n_spec,
        "public_functions": len(pub_w) + len(pub_r), "modelled_functions": len([n for n in modelled if n in pub_w or n in pub_r]),
        "uncovered_functions": uncovered, "higher_order_functions_covered_by_codec_properties": sorted(HIGHER_ORDER & (set(pub_w) | set(pub_r))),
        "sweeps": [dict(kind=k, function=n, start=lo, count=c) for k, n, lo, c, _ in sweep_expect],
        "samples": [{"function": c[0], "value": to_json(c[1]), "impl": str(c[2])[:80]} for c in wcases[:2]]
                   + [{"function": c[0], "input": c[1].hex(), "impl": str(c[2])[:80]} for c in rcases[:2]],
        "property_failures_on_implementation": len(prop_bad),
        "correspondence_disagreements": len(failing_w) + len(failing_r) + len(sweep_bad),
    }
    return {"violations": viol, "coverage": cov}
