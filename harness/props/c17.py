"""C17 - new record batches are written in the Kafka v2 batch format."""
import random

from .. import records_corr as rc
from .. import refbatch
from . import _records


def failed_write(r, nb):
    """a write_batch call that raises in the middle of a record; returns the exception class name"""
    import dataclasses
    import datetime
    import io

    from kio.records.writers import write_batch
    b = rc.py_new_batch(nb)
    k = r.randrange(len(b.records))
    rec = b.records[k]
    how = r.choice(["str-key", "str-value", "naive-timestamp", "str-header"])
    if how == "str-key":
        bad = dataclasses.replace(rec, key="not bytes")
    elif how == "str-value":
        bad = dataclasses.replace(rec, value="not bytes")
    elif how == "naive-timestamp":
        bad = dataclasses.replace(rec, timestamp=datetime.datetime(2024, 1, 1, 12, 0, 0))
    else:
        from kio.records.schema import RecordHeader
        bad = dataclasses.replace(rec, headers=(RecordHeader(key=b"k", value="not bytes"),))
    b = dataclasses.replace(b, records=b.records[:k] + (bad,) + b.records[k + 1:])
    try:
        write_batch(io.BytesIO(), b)
        return "no error"
    except Exception as e:  # noqa
        return type(e).__name__


def concurrent_writes(r, quick):
    """several threads write their own batches at once (tiny switch interval); every output must equal the one
    produced alone"""
    import sys
    import threading

    batches = []
    for _ in range(4):
        nb = rc.gen_new_batch(r)
        while len(nb["records"]) < 3:
            nb = rc.gen_new_batch(r)
        batches.append(nb)
    alone = [rc.impl_write(rc.py_new_batch(nb)) for nb in batches]
    objs = [rc.py_new_batch(nb) for nb in batches]
    bad = []
    old = sys.getswitchinterval()
    sys.setswitchinterval(1e-6)
    try:
        barrier = threading.Barrier(len(batches))
        rounds = 40 if quick else 400

        def work(i):
            barrier.wait()
            for _ in range(rounds):
                out = rc.impl_write(objs[i])
                if out != alone[i]:
                    bad.append(i)
                    return
        ts = [threading.Thread(target=work, args=(i,)) for i in range(len(batches))]
        for t in ts:
            t.start()
        for t in ts:
            t.join()
    finally:
        sys.setswitchinterval(old)
    return [batches[i] for i in sorted(set(bad))], rounds * len(batches)


def run(ctx):
    n_hist = 0
    r = random.Random(ctx["seed"])
    n = 400 if ctx["tier"] == "quick" else 6000
    wcases, prop_bad = [], []
    for i in range(n):
        nb = rc.gen_new_batch(r, canonical_ms=(i % 5 != 0))
        # the batch must not depend on what the buffer already holds: every third batch is written
        # behind leading bytes (e.g. an earlier batch of a record set)
        lead = b"" if i % 3 else bytes(r.getrandbits(8) for _ in range(r.choice([1, 7, 61, 300])))
        if i % 9 == 4:
            # "for every non-empty sequence of records", in every process state: a REJECTED write first (ill-typed
            # key / naive timestamp / out-of-range offset: the writer raises part-way through a record)
            n_hist += 1
            failed_write(r, rc.gen_new_batch(r))
        # ... nor on what follows the write position: every fourth batch goes into a reused / pre-sized buffer
        stale = b"" if i % 4 != 1 else bytes(r.getrandbits(8) for _ in range(r.choice([5, 64, 5000])))
        out = rc.impl_write(rc.py_new_batch(nb), lead, stale)
        wcases.append((nb, out))
        # the property on the implementation: an independent decoder recovers records and parameters
        if out[0] != "ok":
            prop_bad.append({"what": f"writer raised {out[1]}", "new_batch": _j(nb)})
            continue
        try:
            hdr, recs = refbatch.dec_batch(out[1])
        except refbatch.Bad as e:
            prop_bad.append({"what": f"independent decoder rejects the output: {e}", "new_batch": _j(nb), "bytes": out[1].hex()[:600]})
            continue
        want = refbatch.derive(nb)
        diffs = [k for k in ("base_offset", "partition_leader_epoch", "attributes", "last_offset_delta", "base_timestamp",
                             "max_timestamp", "producer_id", "producer_epoch", "base_sequence") if hdr[k] != want[k]]
        exp_recs = [{k: v for k, v in dict(x, timestamp=(x["timestamp"] // 1000) * 1000, headers=[tuple(h) for h in x["headers"]]).items()
                     if k not in ("tz", "tzoffset")} for x in nb["records"]]
        if diffs or recs != exp_recs:
            prop_bad.append({"what": "batch parameters / records recovered by the independent decoder differ from the input",
                             "fields": diffs, "got": {k: hdr[k] for k in diffs}, "expected": {k: want[k] for k in diffs},
                             "records_equal": recs == exp_recs, "new_batch": _j(nb), "bytes": out[1].hex()[:400]})
    # the batch must not depend on the process's local time zone
    from .. import tzprobe
    tz_ops = [["wbatch", rc.nb_to_json(nb)] for nb, o in wcases[: (12 if ctx["tier"] == "quick" else 60)] if o[0] == "ok" and len(o[1]) < 4000]
    tz_diff = tzprobe.differing(tz_ops)
    for dd in tz_diff[:3]:
        prop_bad.append({"what": "the batch written depends on the process's local time zone (TZ)", **dd})
    conc_bad, n_conc = concurrent_writes(r, ctx["tier"] == "quick")
    for nb in conc_bad[:2]:
        prop_bad.append({"what": "a batch written while other threads write batches differs from the batch written alone", "new_batch": _j(nb)})
    # empty batch must be refused
    empty = dict(rc.gen_new_batch(r), records=[])
    out_e = rc.impl_write(rc.py_new_batch(empty))
    wcases.append((empty, out_e))
    if out_e != ("err", "EValue"):
        prop_bad.append({"what": "empty record sequence was not refused with ValueError", "got": str(out_e)[:100]})
    res, err = _records.run_coq(ctx, "C17", wcases=wcases)
    viol = []
    failing = [] if res is None else res.get("w", [])
    if res is None:
        viol.append({"kind": "correspondence", "what": "model evaluation failed", "detail": err})
    if prop_bad:
        prop_bad.sort(key=lambda b: len(str(b)))
        viol.append({"kind": "property", "what": "write_new_batch output is not the v2 batch the records prescribe",
                     "failing_input_found": True, "n_failing": len(prop_bad), "cases": prop_bad[:3]})
    elif failing:
        viol.append({"kind": "correspondence", "observation": "C17: bytes written by write_batch(NewRecordBatch) vs Records/Batch.v",
                     "failing_input_found": False, "n_disagreements": len(failing),
                     "cases": [{"new_batch": _j(wcases[i][0]), "impl": str(wcases[i][1])[:300]} for i in failing[:3]]})
    cov = {
        "evaluations": len(wcases), "distinct_nontrivial": len({str(nb) for nb, _ in wcases}),
        "traces_validated_against_impl": len(wcases) - len(failing),
        "rule": "random non-empty record sequences (1-12 records, offsets/timestamps in any order, sub-millisecond timestamps "
                "in every 5th batch, null/empty/64-128-byte/8k keys, values and headers, boundary header field values) + the "
                "empty batch; output decoded by an independent decoder written from the format description",
        "samples": [_j(wcases[0][0])], "time_zone_probe": {"operations": len(tz_ops), "zones": tzprobe.ZONES, "differences": len(tz_diff)},
        "rejected_write_histories": n_hist, "concurrent_writes": n_conc,
        "property_failures_on_implementation": len(prop_bad), "correspondence_disagreements": len(failing),
    }
    return {"violations": viol, "coverage": cov}


def _j(nb):
    def b(x):
        return None if x is None else x.hex()
    return {k: v for k, v in nb.items() if k != "records"} | {"records": [
        dict(r, key=b(r["key"]), value=b(r["value"]), headers=[[b(k), b(v)] for k, v in r["headers"]]) for r in nb["records"]]}
