"""Wire-first stream shared by C02/C03/C05: decorated values encoded by the independent
reference encoder (harness/refenc.py), cross-checked against the Coq specification."""
from __future__ import annotations

import io

from .. import codec_corr as cc
from .. import refenc
from ..values import coq_bytes, to_py
from . import _codec

CHEADER = """From Coq Require Import ZArith List Bool String.
From KioV Require Import Base.Res Codec.Value Codec.WireSpec Codec.Check.
From KioG Require Import Env.
Import ListNotations.
Open Scope Z_scope.
"""


def wire_cases(ctx, classes, n_schema, gen, per_class, p_send, p_unknown):
    from kio.serial import entity_reader, entity_writer

    r = gen.r
    cases = []
    for idx in range(n_schema):
        cls = classes[idx]
        from ..values import describe as _describe
        has_tags = any(d.tag is not None for d in _describe(cls))
        plan = [(None, p_send, p_unknown)] * per_class
        if has_tags:
            # deterministic coverage of the tagged section: every tagged field absent (defaults),
            # every default sent explicitly, every tagged field present with a non-default value
            plan = plan + [(True, 0.0, p_unknown), (True, 1.0 if p_send > 0 else 0.0, 0.0), (False, 0.0, 0.0)]
            if p_unknown:
                plan = plan + [(False, 0.0, "zero-last")]
        for k_plan, (want_default, ps, pu) in enumerate(plan):
            first_of_class = k_plan == 0
            val = gen.entity(cls, want_default=want_default)
            dv = refenc.decorate(gen, cls, val, ps, pu)
            ref = refenc.enc_entity(dv)
            tail = bytes(r.getrandbits(8) for _ in range(r.choice([0, 0, 2])))
            data = ref + tail
            dec = cc.impl_decode(cls, data)
            expected = refenc.erase(dv)
            inst = to_py(cls, expected)
            c = {"cls": idx, "dv": dv, "ref": ref, "input": data, "dec": dec, "tail": tail, "val": expected,
                 "decorated": bool(any(dv.send) or dv.unknown or _nested_decorated(dv))}
            # C03 on the implementation: decoding succeeds with exactly the values on the wire
            ok, why = True, None
            buf = io.BytesIO(data)
            try:
                obj = entity_reader(cls)(buf)
                if obj != inst:
                    ok, why = False, "decoded entity differs from the values on the wire"
                elif data[buf.tell():] != tail:
                    ok, why = False, "decoder did not consume exactly the message"
            except Exception as e:  # noqa
                ok, why = False, f"decoder raised {cc.err_name(e)}"
                obj = None
            c["c03_ok"], c["c03_why"] = ok, why
            # C02 on the implementation: kio's encoder output == the reference encoding of the plain value
            enc = cc.impl_encode(cls, inst)
            plain = refenc.enc_entity(refenc.decorate(gen, cls, expected, 0.0, 0.0)) if c["decorated"] else ref
            c["enc"] = enc
            c["plain_ref"] = plain
            c["c02_ok"] = enc[0] == "ok" and enc[1] == plain
            if c["c02_ok"] and (has_tags and want_default is True or first_of_class):
                # the same instance with its tagged int / str values replaced by EQUAL instances of subclasses of their
                # types (an IntEnum member such as ErrorCode.none, a str subclass): equal entities, hence the same bytes
                twin = subclass_twin(inst, tagged_only=not first_of_class)
                if twin is not None:
                    enc2 = cc.impl_encode(cls, twin)
                    if not (twin == inst and enc2[0] == "ok" and enc2[1] == plain):
                        c["c02_ok"] = False
                        c["c02_why"] = ("an equal instance whose tagged values are instances of int/str SUBCLASSES (e.g. an IntEnum member equal "
                                        "to the default) is encoded differently: " + (enc2[1].hex()[:200] if enc2[0] == "ok" else str(enc2[1])))
            # C05 on the implementation: decode(canonical) re-encodes to the same bytes
            c05_ok, c05_why = True, None
            try:
                o2 = entity_reader(cls)(io.BytesIO(plain))
                b2 = io.BytesIO()
                entity_writer(cls)(b2, o2)
                if b2.getvalue() != plain:
                    c05_ok, c05_why = False, "re-encoding the decoded entity does not reproduce the canonical bytes"
            except Exception as e:  # noqa
                c05_ok, c05_why = False, f"decode/re-encode raised {cc.err_name(e)}"
            c["c05_ok"], c["c05_why"] = c05_ok, c05_why
            cases.append(c)
    return cases


class _IntSub(int):
    pass


class _StrSub(str):
    def __str__(self):          # a str subclass may present itself differently (a masking wrapper, a str-mixin enum member):
        return "<masked>"       # what goes on the wire is the string's DATA

    def __repr__(self):
        return "_StrSub(" + str.__repr__(self) + ")"


def subclass_twin(inst, tagged_only=True):
    """dataclasses.replace(inst, int/str fields := equal subclass instances); None if there is nothing to replace"""
    import dataclasses
    import enum

    changes = {}
    for f in dataclasses.fields(inst):
        if tagged_only and "tag" not in f.metadata:
            continue
        v = getattr(inst, f.name)
        if type(v) is bool or isinstance(v, enum.Enum):
            continue
        if isinstance(v, int):
            changes[f.name] = enum.IntEnum("Twin", {"member": int(v)}).member if len(changes) % 2 == 0 else _IntSub(v)
        elif isinstance(v, str):
            if len(changes) % 2 == 0 and v.isidentifier() is False and v != "":
                changes[f.name] = _StrSub(v)
            else:
                changes[f.name] = enum.Enum("TwinText", {"member": v}, type=str).member if v != "" else _StrSub(v)
    if not changes:
        return None
    try:
        return dataclasses.replace(inst, **changes)
    except Exception:  # noqa
        return None


def _nested_decorated(d):
    if isinstance(d, refenc.Deco):
        return any(_nested_decorated(f) or (isinstance(f, refenc.Deco) and (any(f.send) or f.unknown)) for f in d.fields)
    if isinstance(d, list):
        return any(_nested_decorated(x) or (isinstance(x, refenc.Deco) and (any(x.send) or x.unknown)) for x in d)
    return False


def coq_ccase(c):
    return (f"{{| c_cls := {c['cls']}%nat; c_dv := {refenc.to_coq_d(c['dv'])}; c_bytes := {coq_bytes(c['ref'])}; "
            f"c_input := {coq_bytes(c['input'])}; c_dec := {cc.coq_res_dec(c['dec'])} |}}")


def run_coq(ctx, prefix, cases, per_file=300):
    import subprocess, time
    from .. import common

    d = ctx["build"]
    procs = []
    failing, errors = [], []
    files = []
    for n, start in enumerate(range(0, len(cases), per_file)):
        chunk = cases[start:start + per_file]
        body = ";\n".join(coq_ccase(c) for c in chunk)
        name = f"{prefix}_{n}"
        (d / f"{name}.v").write_text(CHEADER + f"Definition cases : list ccase := [\n{body}\n].\n"
                                     "Eval vm_compute in (failing (check_ccase E2 R EC) cases).\n")
        files.append((name, start))
    running = []
    pending = list(files)
    while pending or running:
        while pending and len(running) < 16:
            name, start = pending.pop(0)
            running.append((name, start, subprocess.Popen(
                ["timeout", "1200", "coqc", *common.COQ_ARGS, "-Q", str(d), "KioG", f"{name}.v"], cwd=d,
                stdout=subprocess.PIPE, stderr=subprocess.STDOUT, text=True)))
        still = []
        for name, start, p in running:
            if p.poll() is None and pending:
                still.append((name, start, p))
                continue
            rc, out = common.coq_result(d, name, p)
            if rc != 0:
                errors.append(f"{name}: {out[-1200:]}")
            else:
                failing += [start + i for i in common.parse_nat_list(out)]
            for ext in (".v", ".vo", ".vok", ".vos", ".glob"):
                (d / f"{name}{ext}").unlink(missing_ok=True)
        running = still
        time.sleep(0.05)
    return sorted(failing), errors


def describe(classes, c):
    j = _codec.describe_case(classes, {k: c[k] for k in ("cls", "input", "dec", "val", "enc")})
    j["reference_encoding"] = c["ref"].hex()
    j["decorations"] = {"send_default": [bool(x) for x in c["dv"].send],
                        "unknown": [[t, p.hex()] for t, p in c["dv"].unknown]}
    for k in ("c03_why", "c05_why", "c02_why"):
        if c.get(k):
            j[k] = c[k]
    return j
