"""Child process of harness/tzprobe.py: executes time-related operations of the implementation under the
process time zone given by the TZ environment variable and prints the results as JSON.  Nothing here
depends on the local zone except (possibly) the code under test."""
import datetime
import io
import json
import sys

sys.path.insert(0, str(__import__("pathlib").Path(__file__).resolve().parent.parent))
US = datetime.timedelta(microseconds=1)
EPOCH = datetime.datetime(1970, 1, 1, tzinfo=datetime.timezone.utc)


def mkdt(us, tzmin, aware=True):
    local = datetime.datetime(1970, 1, 1) + datetime.timedelta(microseconds=us + tzmin * 60 * 10**6)
    return local.replace(tzinfo=datetime.timezone(datetime.timedelta(minutes=tzmin))) if aware else local


def main():
    from harness import records_corr as rc
    from kio.serial import readers, writers
    from kio.static import primitive as P

    out = []
    for op in json.load(sys.stdin):
        k = op[0]
        try:
            if k == "wbatch":
                r = rc.impl_write(rc.py_new_batch(rc.nb_from_json(op[1])))
                out.append(r[1].hex() if r[0] == "ok" else "err:" + r[1])
            elif k == "rbatch":
                r = rc.impl_read(bytes.fromhex(op[1]))
                out.append([r[1], r[2].hex()] if r[0] == "ok" else "err:" + r[1])
            elif k == "wdt":
                b = io.BytesIO()
                (writers.write_nullable_datetime_i64 if op[3] else writers.write_datetime_i64)(b, mkdt(op[1], op[2]))
                out.append(b.getvalue().hex())
            elif k == "rdt":
                v = (readers.read_nullable_datetime_i64 if op[2] else readers.read_datetime_i64)(io.BytesIO(bytes.fromhex(op[1])))
                out.append(None if v is None else [(v - EPOCH) // US, v.utcoffset() // US])
            elif k == "wtd":
                b = io.BytesIO()
                getattr(writers, op[2])(b, datetime.timedelta(microseconds=op[1]))
                out.append(b.getvalue().hex())
            elif k == "isinst":
                v = mkdt(op[2], op[3], op[4])
                t = getattr(P, op[1])
                out.append([isinstance(v, t)])
            else:
                out.append("err:unknown op")
        except Exception as e:  # noqa
            out.append("err:" + type(e).__name__)
    json.dump(out, sys.stdout, default=lambda x: x.hex() if isinstance(x, (bytes, bytearray)) else str(x))


if __name__ == "__main__":
    main()
