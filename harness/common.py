"""Shared machinery of the checks: locating the tree under verification, building the Coq
development and the per-tree instance data, running Coq files, writing evidence and replays."""
from __future__ import annotations

import fcntl
import hashlib
import json
import os
import re
import shutil
import subprocess
import sys
import time
from pathlib import Path

VERIF = Path(__file__).resolve().parent.parent
REPO = Path(os.environ.get("VERIF_REPO", "/repo"))
COQ = VERIF / "coq"
INST = VERIF / "inst"
BUILD = VERIF / "build"
SCRATCH = REPO != Path("/repo")          # a scratch tree (self-test against a seeded change)
EVIDENCE = (BUILD / "scratch_evidence") if SCRATCH else VERIF / "evidence"
REPLAYS = (BUILD / "scratch_replays") if SCRATCH else VERIF / "replays"
PY = "/venv/bin/python"

FORBIDDEN = re.compile(
    r"\b(Admitted|admit|Axiom|Parameter|Conjecture|Unset\s+Guard|bypass_check|type-in-type|"
    r"impredicative-set|Admit\s+Obligations)\b")


def log(*a):
    print(*a, file=sys.stderr, flush=True)


def child_env():
    env = dict(os.environ)
    env["PYTHONPATH"] = str(REPO / "src")
    env["PYTHONHASHSEED"] = "0"
    env["PYTHONDONTWRITEBYTECODE"] = "1"
    env["VERIF_REPO"] = str(REPO)
    return env


def use_tree():
    """Make `import kio` resolve to the tree under verification in this process."""
    src = str(REPO / "src")
    if sys.path[0] != src:
        sys.path.insert(0, src)
    sys.dont_write_bytecode = True
    import kio  # noqa

    assert str(Path(kio.__file__).resolve()).startswith(str((REPO / "src").resolve())), kio.__file__


def tree_hash() -> str:
    h = hashlib.sha256()
    roots = [REPO / "src" / "kio", REPO / "codegen", COQ, INST, VERIF / "harness" / "translate.py"]
    for root in roots:
        if root.is_file():
            files = [root]
        else:
            files = sorted(p for p in root.rglob("*") if p.is_file() and p.suffix in (".py", ".v", ".json"))
        for p in files:
            if "__pycache__" in p.parts:
                continue
            h.update(str(p.relative_to(root.parent)).encode())
            h.update(b"\0")
            h.update(p.read_bytes())
            h.update(b"\0")
    return h.hexdigest()[:16]


class Lock:
    def __init__(self, path: Path):
        self.path = path

    def __enter__(self):
        self.path.parent.mkdir(parents=True, exist_ok=True)
        self.f = open(self.path, "w")
        fcntl.flock(self.f, fcntl.LOCK_EX)
        return self

    def __exit__(self, *a):
        fcntl.flock(self.f, fcntl.LOCK_UN)
        self.f.close()


def run(cmd, cwd=None, timeout=900, env=None, check=False):
    t0 = time.time()
    p = subprocess.run(cmd, cwd=cwd, env=env, stdout=subprocess.PIPE, stderr=subprocess.STDOUT,
                       timeout=timeout, text=True)
    return p.returncode, p.stdout, time.time() - t0


def grep_forbidden() -> list[str]:
    bad = []
    for p in list(COQ.rglob("*.v")) + list(INST.rglob("*.v")):
        text = p.read_text()
        # strip comments (non-nested is enough for our files; nested handled by loop)
        prev = None
        while prev != text:
            prev = text
            text = re.sub(r"\(\*(?:(?!\(\*|\*\)).)*\*\)", "", text, flags=re.S)
        for m in FORBIDDEN.finditer(text):
            bad.append(f"{p.relative_to(VERIF)}: {m.group(0)}")
    return bad


def build_generic() -> tuple[bool, str]:
    """make the generic theory (incremental)."""
    with Lock(BUILD / ".lock.generic"):
        if not (COQ / "Makefile").exists() or (COQ / "Makefile").stat().st_mtime < (COQ / "_CoqProject").stat().st_mtime:
            rc, out, _ = run(["coq_makefile", "-f", "_CoqProject", "-o", "Makefile"], cwd=COQ)
            if rc != 0:
                return False, out
        rc, out, dt = run(["timeout", "1500", "make", "-j16"], cwd=COQ, timeout=1600)
        return rc == 0, out


COQ_ARGS = ["-noglob", "-Q", str(COQ), "KioV"]


def coqc(build_dir: Path, file: str, timeout=600) -> tuple[int, str, float]:
    rc, out, dt = run(["timeout", str(timeout), "coqc", *COQ_ARGS, "-Q", str(build_dir), "KioG", file],
                      cwd=build_dir, timeout=timeout + 30)
    if rc != 0 and "Error" not in (out or ""):
        # died without a Coq diagnostic (memory / overloaded machine): once more, with a longer limit
        rc, out, dt2 = run(["timeout", str(3 * timeout), "coqc", *COQ_ARGS, "-Q", str(build_dir), "KioG", file],
                           cwd=build_dir, timeout=3 * timeout + 30)
        dt += dt2
    return rc, out, dt


def coq_result(build_dir: Path, name: str, p) -> tuple[int, str]:
    """Outcome of a coqc process started on build_dir/name.v.  A process that died WITHOUT a Coq
    diagnostic (killed for memory, or timed out on an overloaded machine) says nothing about the
    model: it is re-run once, alone, with a longer limit."""
    out = p.communicate()[0]
    rc = p.returncode
    if rc != 0 and "Error" not in (out or "") and (build_dir / f"{name}.v").exists():
        rc, out, _ = run(["timeout", "3000", "coqc", *COQ_ARGS, "-Q", str(build_dir), "KioG", f"{name}.v"],
                         cwd=build_dir, timeout=3030)
    return rc, out


def build_instance() -> tuple[Path | None, str]:
    """Translate the tree and compile the generated data; returns the build directory."""
    ok, out = build_generic()
    if not ok:
        return None, "generic theory does not build:\n" + out[-4000:]
    h = tree_hash()
    d = BUILD / h
    with Lock(BUILD / ".lock.instance"):
        if (d / ".done").exists():
            os.utime(d)
            return d, ""
        if d.exists():
            shutil.rmtree(d)
        d.mkdir(parents=True)
        rc, out, _ = run([PY, str(VERIF / "harness" / "translate.py"), str(d)], env=child_env(), timeout=300)
        if rc != 0:
            (d / "translate.log").write_text(out)
            return None, "translator aborted:\n" + out[-3000:]
        shards = sorted(p.name for p in d.glob("Shard*.v"))
        procs = [subprocess.Popen(["timeout", "600", "coqc", *COQ_ARGS, "-Q", str(d), "KioG", s], cwd=d,
                                  stdout=subprocess.PIPE, stderr=subprocess.STDOUT, text=True) for s in shards]
        outs = [p.communicate()[0] for p in procs]
        if any(p.returncode != 0 for p in procs):
            return None, "generated shards do not compile:\n" + "\n".join(outs)[-3000:]
        for f in ["Shipped.v"]:
            rc, out, _ = coqc(d, f)
            if rc != 0:
                return None, f"{f} does not compile:\n" + out[-3000:]
        shutil.copy(INST / "Env.v", d / "Env.v")
        rc, out, _ = coqc(d, "Env.v")
        if rc != 0:
            return None, "Env.v does not compile:\n" + out[-3000:]
        (d / ".done").write_text(h)
        # prune build directories that have not been used for three hours (others may be in use
        # by concurrently running checks), always keeping the four most recent
        now = time.time()
        others = sorted((p for p in BUILD.iterdir() if p.is_dir() and p != d and not p.name.startswith("scratch")),
                        key=lambda p: p.stat().st_mtime, reverse=True)
        for p in others[4:]:
            if now - p.stat().st_mtime > 3 * 3600:
                shutil.rmtree(p, ignore_errors=True)
    return d, ""


def compile_inst(d: Path, name: str, timeout=900) -> tuple[int, str, float]:
    """Copy inst/<name>.v into the build dir and compile it there (serialised per file)."""
    with Lock(d / f".lock.{name}"):
        shutil.copy(INST / f"{name}.v", d / f"{name}.v")
        return coqc(d, f"{name}.v", timeout=timeout)


def run_generated(d: Path, name: str, text: str, timeout=900) -> tuple[int, str, float]:
    (d / f"{name}.v").write_text(text)
    return coqc(d, f"{name}.v", timeout=timeout)


def props_report(prop: str) -> dict:
    """Recompile coq/Props/<prop>.v to capture its theorems and Print Assumptions output."""
    src = COQ / "Props" / f"{prop}.v"
    if not src.exists():
        return {"theorems": [], "closed": 0, "assumptions": [], "ok": False, "output": "missing Props file"}
    with Lock(BUILD / f".lock.props.{prop}"):
        rc, out, dt = run(["timeout", "600", "coqc", *COQ_ARGS, f"Props/{prop}.v"], cwd=COQ, timeout=630)
    text = src.read_text()
    theorems = re.findall(r"^\s*(?:Theorem|Corollary)\s+([A-Za-z0-9_']+)", text, flags=re.M)
    closed = out.count("Closed under the global context")
    axioms = re.findall(r"^Axioms:\n((?:.+\n)+)", out, flags=re.M)
    return {"theorems": theorems, "closed": closed, "assumptions": axioms, "ok": rc == 0,
            "output": out[-3000:], "seconds": dt}


def parse_nat_list(out: str) -> list[int]:
    return [int(x) for x in re.findall(r"(\d+)%nat", out)]


def write_replay(prop: str, payload: dict) -> Path:
    REPLAYS.mkdir(parents=True, exist_ok=True)
    body = json.dumps(payload, indent=1, sort_keys=True, default=str)
    name = f"{prop}-{hashlib.sha256(body.encode()).hexdigest()[:12]}.json"
    p = REPLAYS / name
    p.write_text(body)
    return p


def write_evidence(prop: str, tier: str, seed: int, coverage: dict, wall: float, violations: int,
                   assumptions: list[str]):
    EVIDENCE.mkdir(parents=True, exist_ok=True)
    ev = {
        "property_id": prop, "tier": tier, "seed": seed, "level": "proof",
        "coverage": coverage, "assumptions": assumptions, "wall_s": round(wall, 2),
        "violations": violations,
    }
    (EVIDENCE / f"{prop}.json").write_text(json.dumps(ev, indent=1, default=str))


def known_findings() -> dict:
    p = VERIF / "known_findings.json"
    if p.exists():
        return json.loads(p.read_text())
    return {"findings": [], "fixed": []}


TRUSTED_BASE = [
    "Coq 8.16.1 kernel and its VM (vm_compute); native_compute is not used",
    "harness/translate.py (transcribes the schema package into Coq data, fail-closed)",
    "the correspondence harness: value printers, exception-class mapping, case generators",
    "Python/CPython library semantics that the model transcribes (struct, int bit operations, bytes.decode, datetime, enum, dataclasses, functools.cache, io.BytesIO)",
]
