"""Independent reference encoder/decoder for Kafka magic-2 record batches, written from the
message-format description (https://kafka.apache.org/documentation/#recordbatch), not from kio.
Abstract batches/records are the dicts of harness.records_corr."""
from __future__ import annotations

import struct

POLY = 0x82F63B78
_TBL = []
for _i in range(256):
    _c = _i
    for _ in range(8):
        _c = (_c >> 1) ^ (POLY if _c & 1 else 0)
    _TBL.append(_c)


def crc32c(data: bytes) -> int:
    reg = 0xFFFFFFFF
    for b in data:
        reg = (reg >> 8) ^ _TBL[(reg ^ b) & 0xFF]
    return reg ^ 0xFFFFFFFF


def zigzag(v: int, bits: int) -> int:
    return (v << 1) ^ (v >> (bits - 1))


def uvarint(n: int) -> bytes:
    out = bytearray()
    while True:
        g = n & 0x7F
        n >>= 7
        if n:
            out.append(g | 0x80)
        else:
            out.append(g)
            return bytes(out)


def svarint(v: int) -> bytes:
    return uvarint(zigzag(v, 32))


def svarlong(v: int) -> bytes:
    return uvarint(zigzag(v, 64))


def blob(b) -> bytes:
    return svarint(-1) if b is None else svarint(len(b)) + b


def enc_record(r, base_ts_ms, base_off) -> bytes:
    body = struct.pack(">b", r["attributes"]) + svarlong(r["timestamp"] // 1000 - base_ts_ms) + svarint(r["offset"] - base_off)
    body += blob(r["key"]) + blob(r["value"]) + svarint(len(r["headers"]))
    for k, v in r["headers"]:
        body += blob(k) + blob(v)
    return svarint(len(body)) + body


def enc_batch(b) -> bytes:
    """b: full batch dict (base_offset, partition_leader_epoch, attributes, last_offset_delta,
    base_timestamp, max_timestamp, producer_id, producer_epoch, base_sequence, records);
    batch_length and crc are derived."""
    post = struct.pack(">hiqqqhii", b["attributes"], b["last_offset_delta"], b["base_timestamp"], b["max_timestamp"],
                       b["producer_id"], b["producer_epoch"], b["base_sequence"], len(b["records"]))
    for r in b["records"]:
        post += enc_record(r, b["base_timestamp"], b["base_offset"])
    pre = struct.pack(">qiibI", b["base_offset"], len(post) + 9, b["partition_leader_epoch"], 2, crc32c(post))
    return pre + post


def enc_prepared(hdr, recs) -> bytes:
    """what re-serialising an already complete batch must give: the header fields verbatim
    (including batch_length and crc), records relative to the header's base offset/timestamp"""
    post = struct.pack(">hiqqqhii", hdr["attributes"], hdr["last_offset_delta"], hdr["base_timestamp"], hdr["max_timestamp"],
                       hdr["producer_id"], hdr["producer_epoch"], hdr["base_sequence"], len(recs))
    for r in recs:
        post += enc_record(r, hdr["base_timestamp"], hdr["base_offset"])
    pre = struct.pack(">qiibI", hdr["base_offset"], hdr["batch_length"], hdr["partition_leader_epoch"], 2, hdr["crc"])
    return pre + post


def derive(nb):
    """the batch parameters the format prescribes for a new batch of these records"""
    recs = nb["records"]
    base_off = recs[0]["offset"]
    return {
        "base_offset": base_off, "partition_leader_epoch": nb["partition_leader_epoch"],
        "attributes": nb["attributes"], "last_offset_delta": recs[-1]["offset"] - base_off,
        "base_timestamp": recs[0]["timestamp"] // 1000, "max_timestamp": max(r["timestamp"] for r in recs) // 1000,
        "producer_id": nb["producer_id"], "producer_epoch": nb["producer_epoch"],
        "base_sequence": nb["base_sequence"], "records": recs,
    }


class Bad(Exception):
    pass


class Cur:
    def __init__(self, data):
        self.d, self.p = data, 0

    def take(self, n):
        if n < 0 or self.p + n > len(self.d):
            raise Bad("short")
        out = self.d[self.p:self.p + n]
        self.p += n
        return out

    def uvar(self, maxb):
        res = 0
        for i in range(maxb):
            (b,) = self.take(1)
            res |= (b & 0x7F) << (7 * i)
            if not b & 0x80:
                return res
        raise Bad("varint too long")

    def svar(self, maxb=5):
        u = self.uvar(maxb)
        return (u >> 1) ^ -(u & 1)

    def blob(self):
        n = self.svar()
        if n == -1:
            return None
        if n < 0:
            raise Bad("negative length")
        return self.take(n)


def dec_batch(data: bytes):
    """-> (header dict, records with millisecond timestamps); raises Bad on malformed input"""
    if len(data) < 61:
        raise Bad("short")
    (base_offset, batch_length, ple, magic, crc, attributes, lod, base_ts, max_ts, pid, pepoch, bseq,
     count) = struct.unpack(">qiibIhiqqqhii", data[:61])
    if magic != 2:
        raise Bad("magic")
    if batch_length != len(data) - 12:
        raise Bad("batch length")
    if crc != crc32c(data[21:]):
        raise Bad("crc")
    cur = Cur(data[61:])
    recs = []
    for _ in range(count):
        ln = cur.svar()
        body = Cur(cur.take(ln))
        (attr,) = struct.unpack(">b", body.take(1))
        td = body.svar(10)
        od = body.svar()
        key = body.blob()
        val = body.blob()
        nh = body.svar()
        hs = [(body.blob(), body.blob()) for _ in range(nh)]
        if body.p != len(body.d):
            raise Bad("record not exhausted")
        recs.append({"attributes": attr, "timestamp": (base_ts + td) * 1000, "offset": base_offset + od,
                     "key": key, "value": val, "headers": hs})
    if cur.p != len(cur.d):
        raise Bad("trailing bytes")
    hdr = {"base_offset": base_offset, "batch_length": batch_length, "partition_leader_epoch": ple, "crc": crc,
           "attributes": attributes, "last_offset_delta": lod, "base_timestamp": base_ts, "max_timestamp": max_ts,
           "producer_id": pid, "producer_epoch": pepoch, "base_sequence": bseq}
    return hdr, recs


def force_crc_suffix(q: bytes) -> bytes:
    """4 bytes X such that crc32c(q + X) == crc32c(q) (used to build the truncation witness)."""
    rev = {t >> 24: i for i, t in enumerate(_TBL)}
    target = crc32c(q) ^ 0xFFFFFFFF
    s = target
    idx = []
    for _ in range(4):
        i = rev[s >> 24]
        idx.append(i)
        s = ((s ^ _TBL[i]) << 8) & 0xFFFFFFFF
    idx = idx[::-1]
    reg = crc32c(q) ^ 0xFFFFFFFF
    out = []
    for i in idx:
        out.append((reg ^ i) & 0xFF)
        reg = (reg >> 8) ^ _TBL[i]
    x = bytes(out)
    assert crc32c(q + x) == crc32c(q)
    return x
