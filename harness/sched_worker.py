"""Deterministic line-level scheduler for the C19 check.  Two threads each build (cold cache)
and use a writer and a reader; a controller lets exactly one thread run at a time and preempts
at chosen traced line events inside kio/serial/*.py.  stdin: {"classes": {idx: [module, qual]},
"jobs": [[cls, value_json, hex], [cls, value_json, hex]], "schedules": [[p0, p1], ...]} where a
schedule (p0, p1) means: thread 0 runs until it has executed p0 traced lines, then thread 1 runs
until it has executed p1 traced lines, then thread 0 resumes; whoever finishes hands over.
stdout: {"steps": [n0, n1], "results": [[r0, r1], ...]}"""
import importlib
import io
import json
import sys
import threading

sys.path.insert(1, "/verif")
from harness import common  # noqa: E402

common.use_tree()
from harness import codec_corr as cc  # noqa: E402
from harness.values import from_json, from_py, to_json, to_py  # noqa: E402


class Controller:
    def __init__(self, switch_at):
        self.cv = threading.Condition()
        self.current = 0
        self.steps = [0, 0]
        self.alive = [True, True]
        self.switch_at = dict(switch_at)      # tid -> step count at which to hand over (once)

    def wait_turn(self, tid):
        with self.cv:
            while self.current != tid:
                self.cv.wait(5)
                if not self.alive[1 - tid] and self.current != tid:
                    self.current = tid

    def line(self, tid):
        self.steps[tid] += 1
        if self.switch_at.get(tid) == self.steps[tid] and self.alive[1 - tid]:
            with self.cv:
                del self.switch_at[tid]
                self.current = 1 - tid
                self.cv.notify_all()
            self.wait_turn(tid)

    def done(self, tid):
        with self.cv:
            self.alive[tid] = False
            self.current = 1 - tid
            self.cv.notify_all()


def main():
    spec = json.load(sys.stdin)

    def load(i):
        mod, qual = spec["classes"][str(i)]
        obj = importlib.import_module(mod)
        for part in qual.split("."):
            obj = getattr(obj, part)
        return obj

    from kio.serial import entity_reader, entity_writer
    import kio.serial._implicit_defaults  # noqa

    jobs = [(load(j[0]), from_json(j[1]), bytes.fromhex(j[2])) for j in spec["jobs"]]

    def work(cls, val, data):
        sink = io.BytesIO()
        entity_writer(cls)(sink, to_py(cls, val))
        obj = entity_reader(cls)(io.BytesIO(data))
        return [sink.getvalue().hex(), to_json(from_py(obj)), type(obj) is cls]

    def run_schedule(switch):
        entity_writer.cache_clear()
        entity_reader.cache_clear()
        ctl = Controller(switch)
        results = [None, None]

        def tracer_for(tid):
            def local(frame, event, arg):
                if event == "line":
                    ctl.line(tid)
                return local

            def glob(frame, event, arg):
                fn = frame.f_code.co_filename
                if "/kio/serial/" in fn:
                    return local
                return None
            return glob

        def body(tid):
            ctl.wait_turn(tid)
            sys.settrace(tracer_for(tid))
            try:
                results[tid] = work(*jobs[tid])
            except Exception as e:  # noqa
                results[tid] = ["err", cc.err_name(e), str(e)[:100]]
            finally:
                sys.settrace(None)
                ctl.done(tid)

        ts = [threading.Thread(target=body, args=(i,)) for i in range(2)]
        for t in ts:
            t.start()
        for t in ts:
            t.join(30)
        return results, ctl.steps

    # a first run without preemption measures the number of traced lines per thread
    base, steps = run_schedule({})
    out = []
    for p0, p1 in spec["schedules"]:
        a = max(1, int(p0 * steps[0]))
        b = max(1, int(p1 * steps[1]))
        res, _ = run_schedule({0: a, 1: b})
        out.append(res)
    json.dump({"steps": steps, "base": base, "results": out}, sys.stdout)


if __name__ == "__main__":
    main()
