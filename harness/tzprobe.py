"""The results of the library must not depend on the process's local time zone (the checks themselves run in
whatever zone the machine has, usually UTC): the same time-related operations are executed in child processes
under several TZ settings and compared with the run under TZ=UTC."""
from __future__ import annotations

import json
import subprocess

from . import common

ZONES = ["America/New_York", "Asia/Tokyo", "Europe/London", "Pacific/Kiritimati", "America/St_Johns"]


def run(ops: list, zones=None) -> dict[str, list]:
    res = {}
    for z in ["UTC"] + list(zones or ZONES):
        env = common.child_env()
        env["TZ"] = z
        p = subprocess.run([common.PY, str(common.VERIF / "harness" / "tz_worker.py")], input=json.dumps(ops),
                           capture_output=True, text=True, env=env, timeout=600)
        if p.returncode != 0:
            res[z] = [f"crash: {p.stderr[-300:]}"] * len(ops)
        else:
            res[z] = json.loads(p.stdout)
    return res


def differing(ops: list, zones=None) -> list[dict]:
    """operations whose result under some zone differs from the result under UTC"""
    res = run(ops, zones)
    out = []
    for z, rs in res.items():
        if z == "UTC":
            continue
        for i, (a, b) in enumerate(zip(res["UTC"], rs)):
            if a != b:
                out.append({"operation": ops[i][:1] + [str(x)[:120] for x in ops[i][1:]], "TZ": z, "result_under_UTC": str(a)[:200],
                            "result_under_TZ": str(b)[:200]})
    return out
