"""Worker for the C16 wire check: runs with PYTHONPATH=<overlay>/src; for the listed generated
modules builds instances of every class and encodes them with kio.  stdin: {"modules": [...],
"seed": n, "per_class": k}; stdout: JSON list of {module, qualname, value, enc}."""
import dataclasses
import importlib
import json
import sys

sys.path.insert(1, "/verif")
from harness import codec_corr as cc  # noqa: E402
from harness.values import Gen, to_json, to_py  # noqa: E402


def main():
    spec = json.load(sys.stdin)
    from kio.schema.errors import ErrorCode

    gen = Gen(spec["seed"], [int(e.value) for e in ErrorCode])
    out = []
    for modname in spec["modules"]:
        mod = importlib.import_module(modname)
        for name, cls in vars(mod).items():
            if isinstance(cls, type) and dataclasses.is_dataclass(cls) and cls.__module__ == modname:
                for k in range(spec["per_class"]):
                    val = gen.entity(cls, want_default=[None, True, False][k % 3])
                    enc = cc.impl_encode(cls, to_py(cls, val))
                    out.append({"module": modname, "qualname": cls.__qualname__, "value": to_json(val),
                                "enc": ["ok", enc[1].hex()] if enc[0] == "ok" else ["err", enc[1]]})
    json.dump(out, sys.stdout)


if __name__ == "__main__":
    main()
