"""Reconstructs Kafka JSON message definitions from the generated schema package of kio.

The upstream definitions (clients/src/main/resources/common/message/*.json) are not available
offline.  This script imports the shipped package ``kio.schema`` (the tree on sys.path), groups
the generated dataclasses into (API, entity type) families and writes, for every family, one
definition in the format that kio's own code generator (``codegen.generate_schema``) consumes,
such that running the unmodified generator on the output regenerates the shipped package.

Usage:  cd /verif && PYTHONPATH=/repo/src /venv/bin/python harness/reconstruct.py pinned/defs

The inversion is rule based (one rule per generator code path, see the comments) and fail-closed:
every situation that no definition can express is collected and reported, and the exit status
is then 1.  The authoritative check is ``python -m harness.regen_check <defs_dir>``.
"""
from __future__ import annotations

import dataclasses
import datetime
import importlib
import json
import pkgutil
import sys
import types
import typing
from collections import defaultdict
from dataclasses import MISSING
from pathlib import Path

import kio.schema
from kio.static.constants import EntityType

# The generator's own naming function and special-name tables are used to verify (not to
# produce) the inverted names, so that a change of these tables in the tree is noticed here.
REPO = Path(kio.__file__).resolve().parents[2]
sys.path.insert(0, str(REPO))
from codegen.case import to_snake_case  # noqa: E402
from codegen.parser import datetime_names  # noqa: E402
from codegen.parser import error_code_names  # noqa: E402
from codegen.parser import timedelta_names  # noqa: E402

TYPES_MODULE = "kio.schema.types"
NUMERIC = {"int8", "int16", "int32", "int64", "uint16", "uint32", "uint64", "float64"}
INTS = NUMERIC - {"float64"}
#: kafka_type in metadata -> (type written in the definition)
SPECIAL_TYPES = {
    "error_code": "int16",
    "timedelta_i32": "int32",
    "timedelta_i64": "int64",
    "datetime_i64": "int64",
}

problems: list[str] = []


def problem(where: str, msg: str) -> None:
    problems.append(f"{where}: {msg}")


# ------------------------------------------------------------------------------------------
# Loading the shipped package
# ------------------------------------------------------------------------------------------
def walk_modules(parent: types.ModuleType):
    for package in pkgutil.walk_packages(parent.__path__):
        if package.name == "index":
            continue
        module = importlib.import_module(f"{parent.__name__}.{package.name}")
        if package.ispkg:
            yield from walk_modules(module)
        else:
            yield module


def load_families() -> dict[tuple[str, str], dict[int, dict[str, type]]]:
    """(api package, entity type) -> version -> class name -> class."""
    families: dict[tuple[str, str], dict[int, dict[str, type]]] = defaultdict(dict)
    for module in walk_modules(kio.schema):
        parts = module.__name__.split(".")
        # kio.schema.<api>.v<N>.<request|response|header|data>
        if len(parts) != 5:
            continue
        api, version, typ = parts[2], int(parts[3][1:]), parts[4]
        for key, value in vars(module).items():
            if key.startswith("__") or type(value) is not type:
                continue
            if getattr(value, "__module__", None) != module.__name__:
                continue
            if not dataclasses.is_dataclass(value):
                continue
            families[(api, typ)].setdefault(version, {})[value.__name__] = value
    return families


# ------------------------------------------------------------------------------------------
# Describing one dataclass field
# ------------------------------------------------------------------------------------------
@dataclasses.dataclass
class Obs:
    """What is observable about a field in one version."""

    kind: str  # prim | prim_arr | ent | ent_arr
    kafka_type: str | None
    custom: str | None  # name of the class in kio.schema.types
    struct: str | None  # name of the nested class
    optional: bool  # outer "| None" (for prim_arr/ent_arr: of the tuple)
    tag: int | None
    default: object  # MISSING or the value

    def static(self):
        return (self.kind, self.kafka_type, self.custom, self.struct)


def strip_optional(t):
    origin = typing.get_origin(t)
    if origin in (types.UnionType, typing.Union):
        args = typing.get_args(t)
        rest = [a for a in args if a is not type(None)]
        if len(rest) == 1 and len(args) == 2:
            return rest[0], True
        raise ValueError(f"unsupported union {t!r}")
    return t, False


def observe(cls: type, f: dataclasses.Field, hints: dict) -> Obs:
    t = hints[f.name]
    t, optional = strip_optional(t)
    is_array = False
    if typing.get_origin(t) is tuple:
        inner, ellipsis = typing.get_args(t)
        assert ellipsis is Ellipsis
        is_array = True
        # tuple[uuid.UUID | None, ...]: the generator always writes uuid as "| None"
        t, _ = strip_optional(inner)
    kafka_type = f.metadata.get("kafka_type")
    tag = f.metadata.get("tag")
    extra = set(f.metadata) - {"kafka_type", "tag"}
    if extra:
        problem(f"{cls.__module__}:{cls.__name__}.{f.name}", f"unknown metadata keys {extra}")
    if dataclasses.is_dataclass(t):
        if kafka_type is not None:
            problem(f"{cls.__module__}:{cls.__name__}.{f.name}", "entity field with kafka_type")
        return Obs("ent_arr" if is_array else "ent", None, None, t.__name__, optional, tag, f.default)
    if kafka_type is None:
        problem(f"{cls.__module__}:{cls.__name__}.{f.name}", "primitive field without kafka_type")
    custom = t.__name__ if t.__module__ == TYPES_MODULE else None
    return Obs("prim_arr" if is_array else "prim", kafka_type, custom, None, optional, tag, f.default)


# ------------------------------------------------------------------------------------------
# Names
# ------------------------------------------------------------------------------------------
def camel(snake: str) -> str:
    """A CamelCase name that the generator's to_snake_case maps to `snake`."""
    candidates = []
    base = snake
    if snake.endswith("_") and to_snake_case(snake[:-1].capitalize()) == snake:
        # builtins get a trailing underscore (type -> type_)
        base = snake[:-1]
    parts = base.split("_")
    candidates.append("".join(p[:1].upper() + p[1:] for p in parts))
    candidates.append("".join(p.upper() if len(p) <= 3 else p[:1].upper() + p[1:] for p in parts))
    for c in candidates:
        if len(c) > 1 and to_snake_case(c) == snake and not c.endswith("Ms") and c not in error_code_names:
            return c
    raise ValueError(f"cannot invert snake_case name {snake!r}")


def special_name(snake: str, kafka_type: str, where: str) -> str:
    if kafka_type == "error_code":
        for name in sorted(error_code_names):
            if to_snake_case(name) == snake:
                return name
        problem(where, f"error_code field named {snake!r}: no name in error_code_names maps to it")
        return camel(snake)
    table = datetime_names if kafka_type == "datetime_i64" else timedelta_names
    for name in sorted(table):
        if name[0].isupper() and to_snake_case(name.removesuffix("Ms")) == snake:
            return name
    problem(where, f"{kafka_type} field named {snake!r}: no ...Ms name in the generator's table maps to it")
    return camel(snake)


def vrange(versions: list[int], last: int) -> str:
    """Contiguous version list -> range string; open ended when it reaches `last`."""
    lo, hi = versions[0], versions[-1]
    assert versions == list(range(lo, hi + 1)), versions
    if hi >= last:
        return f"{lo}+"
    return str(lo) if lo == hi else f"{lo}-{hi}"


def contiguous(versions: list[int]) -> bool:
    return versions == list(range(versions[0], versions[-1] + 1))


# ------------------------------------------------------------------------------------------
# Defaults
# ------------------------------------------------------------------------------------------
def spell_default(kafka_type: str, value: object, where: str) -> str | None:
    """The string that generate_schema.format_default turns back into `value`."""
    if value is None:
        # format_default: ("null" -> None); datetime "-1" -> None is handled by the caller
        return "null"
    if kafka_type in INTS:
        assert isinstance(value, int) and not isinstance(value, bool)
        return str(int(value))
    if kafka_type == "bool":
        assert isinstance(value, bool)
        return "true" if value else "false"
    if kafka_type == "string":
        assert isinstance(value, str)
        if value == "null":
            problem(where, "string default 'null' is not expressible")
        return value
    if kafka_type == "float64":
        return repr(float(value))
    if kafka_type == "error_code":
        return str(int(value.value))
    if kafka_type in ("timedelta_i32", "timedelta_i64"):
        assert isinstance(value, datetime.timedelta)
        millis, rest = divmod(value, datetime.timedelta(milliseconds=1))
        if rest:
            problem(where, f"timedelta default {value!r} is not a whole number of milliseconds")
        return str(millis)
    problem(where, f"default {value!r} of kafka type {kafka_type} is not expressible")
    return None


def tagged_ignorable_default(kafka_type: str):
    """generate_schema._format_default_for_tagged as a value (bool: the generator writes the
    undefined name `false`, which cannot be imported, so it never matches)."""
    if kafka_type in INTS:
        return 0
    if kafka_type == "float64":
        return 0.0
    if kafka_type == "bool":
        return NotImplemented
    if kafka_type == "error_code":
        from kio.schema.errors import ErrorCode

        return ErrorCode.none
    return None


# ------------------------------------------------------------------------------------------
# One family
# ------------------------------------------------------------------------------------------
class Family:
    def __init__(self, api: str, typ: str, by_version: dict[int, dict[str, type]]):
        self.api, self.typ, self.by_version = api, typ, by_version
        self.versions = sorted(by_version)
        self.last = self.versions[-1]
        self.where = f"{api}/{typ}"
        # struct name -> version -> ordered [(field name, Obs)]
        self.structs: dict[str, dict[int, list[tuple[str, Obs]]]] = defaultdict(dict)
        self.top_name: str | None = None
        self.top_by_version: dict[int, type] = {}
        for v in self.versions:
            tops = [c for c in by_version[v].values() if c.__type__ is not EntityType.nested]
            if len(tops) != 1:
                problem(self.where, f"v{v}: {len(tops)} top level classes")
                continue
            top = tops[0]
            if top.__type__.name != typ:
                problem(self.where, f"v{v}: __type__ {top.__type__} in module {typ}")
            if self.top_name not in (None, top.__name__):
                problem(self.where, f"top level class name changes: {self.top_name} -> {top.__name__}")
            self.top_name = top.__name__
            self.top_by_version[v] = top
            for name, cls in by_version[v].items():
                hints = typing.get_type_hints(cls)
                self.structs[name][v] = [(f.name, observe(cls, f, hints)) for f in dataclasses.fields(cls)]
                if int(cls.__version__) != v:
                    problem(self.where, f"{name} v{v}: __version__ is {cls.__version__}")
                if cls.__flexible__ != top.__flexible__:
                    problem(self.where, f"{name} v{v}: __flexible__ differs from the top level class")
                if getattr(cls, "__api_key__", None) != getattr(top, "__api_key__", None):
                    problem(self.where, f"{name} v{v}: __api_key__ differs from the top level class")
        if not contiguous(self.versions):
            problem(self.where, f"valid versions are not contiguous: {self.versions}")
        # who refers to which struct
        self.referrers: dict[str, set[tuple[str, str]]] = defaultdict(set)
        for sname, per_version in self.structs.items():
            for v, flds in per_version.items():
                for fname, obs in flds:
                    if obs.struct is not None:
                        self.referrers[obs.struct].add((sname, fname))
        self.common: dict[str, dict] = {}  # common struct name -> definition
        self.force_common: set[str] = set()
        self._built: dict[str, list[dict]] = {}
        self._members: dict[str, list[dict]] = {}

    # ---- field order --------------------------------------------------------------------
    def merged_order(self, sname: str) -> list[str]:
        per_version = self.structs[sname]
        merged: list[str] = []
        for v in sorted(per_version, reverse=True):
            order = [n for n, _ in per_version[v]]
            for i, n in enumerate(order):
                if n in merged:
                    continue
                # insert after the nearest preceding field that is already placed
                pos = 0
                for prev in reversed(order[:i]):
                    if prev in merged:
                        pos = merged.index(prev) + 1
                        break
                merged.insert(pos, n)
        for v, flds in per_version.items():
            order = [n for n, _ in flds]
            if [n for n in merged if n in order] != order:
                return self.topological_order(sname)
        return merged

    def topological_order(self, sname: str) -> list[str]:
        per_version = self.structs[sname]
        succ: dict[str, set[str]] = defaultdict(set)
        names: list[str] = []
        for v in sorted(per_version):
            order = [n for n, _ in per_version[v]]
            for i, a in enumerate(order):
                if a not in names:
                    names.append(a)
                succ[a].update(order[i + 1:])
        out: list[str] = []
        remaining = list(names)
        while remaining:
            for n in remaining:
                if not any(n in succ[m] for m in remaining if m != n):
                    out.append(n)
                    remaining.remove(n)
                    break
            else:
                problem(f"{self.where}:{sname}", f"no field order is consistent with all versions: {remaining}")
                out.extend(remaining)
                break
        return out

    # ---- struct members -----------------------------------------------------------------
    def struct_versions(self, sname: str) -> list[int]:
        return sorted(self.structs[sname])

    def members(self, sname: str) -> list[dict]:
        """Reconstructed field definitions of a struct (memoised)."""
        if sname in self._members:
            return self._members[sname]
        self._members[sname] = []  # guards against recursive structs
        present = self.struct_versions(sname)
        if not contiguous(present):
            problem(f"{self.where}:{sname}", f"struct present in non-contiguous versions {present}")
        out = [self.field(sname, fname, present) for fname in self.merged_order(sname)]
        self._members[sname] = out
        return out

    def all_defaults(self, sname: str) -> bool:
        """generate_schema.nested_entity_has_only_defaults for an inline definition of sname:
        every member (of every version) is a primitive or inline struct field with an
        explicit default."""
        return all(
            m["_kind"] in ("prim", "ent") and not m["_common_ref"] and m.get("default") is not None
            for m in self.members(sname)
        )

    def is_common(self, sname: str) -> bool:
        return len(self.referrers[sname]) > 1 or sname in self.force_common

    # ---- one field ----------------------------------------------------------------------
    def field(self, sname: str, fname: str, parent_versions: list[int]) -> dict:
        where = f"{self.where}:{sname}.{fname}"
        per_version = {
            v: obs for v, flds in self.structs[sname].items() for n, obs in flds if n == fname
        }
        vs = sorted(per_version)
        if not contiguous(vs):
            problem(where, f"field present in non-contiguous versions {vs} (struct: {parent_versions})")
        first = per_version[vs[0]]
        if len({o.static() for o in per_version.values()}) != 1:
            problem(where, f"type changes between versions: { {v: o.static() for v, o in per_version.items()} }")
        parent_last = parent_versions[-1]
        out: dict = {"_kind": first.kind, "_common_ref": False}

        # name and type
        kt = first.kafka_type
        if first.kind == "prim" and kt in SPECIAL_TYPES:
            out["name"] = special_name(fname, kt, where)
            out["type"] = SPECIAL_TYPES[kt]
        else:
            out["name"] = camel(fname)
            if first.kind in ("prim_arr",) and kt in SPECIAL_TYPES:
                problem(where, f"array of {kt} is not expressible")
            if first.kind == "prim":
                out["type"] = kt
            elif first.kind == "prim_arr":
                out["type"] = f"[]{kt}"
            elif first.kind == "ent":
                out["type"] = first.struct
            else:
                out["type"] = f"[]{first.struct}"
        out["versions"] = vrange(vs, parent_last)

        # tag
        tagged = [v for v in vs if per_version[v].tag is not None]
        if tagged:
            if not contiguous(tagged):
                problem(where, f"tagged in non-contiguous versions {tagged}")
            tags = {per_version[v].tag for v in tagged}
            if len(tags) != 1:
                problem(where, f"tag number changes: {tags}")
            out["taggedVersions"] = vrange(tagged, vs[-1])
            out["tag"] = int(per_version[tagged[0]].tag)

        if first.custom is not None:
            out["entityType"] = first.custom[0].lower() + first.custom[1:]

        optional = [v for v in vs if per_version[v].optional]
        with_default = [v for v in vs if per_version[v].default is not MISSING]
        default_values = [per_version[v].default for v in with_default]
        def comparable(d):
            # instances of nested classes belong to a different class in every version
            if dataclasses.is_dataclass(d) and not isinstance(d, type):
                return (type(d).__name__, repr(d))
            return (type(d), d)

        if len({repr(comparable(d)) for d in default_values}) > 1:
            problem(where, f"default changes between versions: {default_values}")

        def set_nullable(versions: list[int]) -> None:
            if versions:
                if not contiguous(versions):
                    problem(where, f"nullable in non-contiguous versions {versions}")
                out["nullableVersions"] = vrange(versions, vs[-1])

        if first.kind == "prim":
            self.primitive(out, where, kt, vs, tagged, optional, with_default, default_values, set_nullable)
        elif first.kind == "prim_arr":
            # generate_primitive_array_field: annotation tuple[T, ...] (nullableVersions is
            # ignored), default always ().
            if optional:
                problem(where, "optional array of primitives cannot be generated")
            if with_default != vs or any(d != () for d in default_values):
                problem(where, f"array of primitives without default () in versions {sorted(set(vs) - set(with_default))}")
        elif first.kind == "ent_arr":
            # format_non_primitive_array_field: "| None" from nullableVersions; default () iff tagged
            set_nullable(optional)
            if with_default != tagged or any(d != () for d in default_values):
                problem(where, f"array of structs: default in {with_default} but tagged in {tagged}")
            self.struct_ref(out, first.struct)
        else:
            self.entity(out, where, first.struct, vs, tagged, optional, with_default, default_values, set_nullable)
        return out

    def primitive(self, out, where, kt, vs, tagged, optional, with_default, default_values, set_nullable):
        """Inverse of parser.PrimitiveField.is_nullable + generate_schema.format_dataclass_field.

        optional(v) = (tagged(v) and ignorable and default is None) or v in nullableVersions
                      or (datetime and default == "-1")        [never for numeric types]
        default(v)  = format_default(default) if default is not None
                      else _format_default_for_tagged(type) if tagged(v) and ignorable else MISSING
        """
        if kt in NUMERIC and optional:
            problem(where, f"numeric field optional in {optional}")
        if kt == "uuid":
            # the annotation of a uuid field is always "uuid.UUID | None": nullability is not
            # observable, it is only needed to permit a null default.
            optional = list(vs) if with_default else []
        if not with_default:
            # no default anywhere: no explicit default and (if tagged anywhere) not ignorable
            set_nullable(optional)
            return
        value = default_values[0]
        if with_default == vs:
            if value is None and kt == "datetime_i64":
                # format_default(datetime, "-1") -> None, and is_nullable is then always true
                if optional != vs:
                    problem(where, f"datetime with default None but not optional in {sorted(set(vs) - set(optional))}")
                out["default"] = "-1"
                return
            if value is None and optional != vs:
                problem(where, f"default None but not optional in {sorted(set(vs) - set(optional))}")
            spelled = spell_default(kt, value, where)
            if spelled is not None:
                out["default"] = spelled
            set_nullable(optional)
            return
        # default only in some versions: only "tagged + ignorable, no explicit default" does that
        implied = tagged_ignorable_default(kt)
        if with_default == tagged and implied is not NotImplemented and value == implied:
            out["ignorable"] = True
            nullable = [v for v in optional if v not in tagged] if kt not in NUMERIC else []
            if kt not in NUMERIC and any(v not in optional for v in tagged):
                problem(where, "tagged ignorable field without default must be optional where tagged")
            set_nullable(nullable)
            return
        problem(where, f"default {value!r} only in versions {with_default} (tagged: {tagged}) is not expressible")

    def struct_ref(self, out: dict, struct: str) -> None:
        """Either inline `fields` or a reference to a common struct."""
        if self.is_common(struct):
            out["_common_ref"] = True
            self.ensure_common(struct)
        else:
            out["fields"] = self.members(struct)

    def ensure_common(self, struct: str) -> None:
        if struct in self.common:
            return
        self.common[struct] = {}  # placeholder (recursion guard), filled below
        present = self.struct_versions(struct)
        self.common[struct] = {
            "name": struct,
            "versions": vrange(present, self.last),
            "fields": self.members(struct),
        }

    def entity(self, out, where, struct, vs, tagged, optional, with_default, default_values, set_nullable):
        """Inverse of generate_entity_field (inline struct) / generate_common_struct_field.

        inline:  annotation "S | None" where nullable;
                 default = None if default == "null" (requires optional)
                           else S() if tagged(v) and all members have explicit defaults
                           else None if tagged(v) and ignorable else MISSING
        common:  annotation always "S" (nullableVersions ignored), "default" ignored;
                 default = None if tagged(v) and ignorable else MISSING
        """
        members_all_defaults = self.all_defaults(struct)
        value = default_values[0] if default_values else MISSING
        is_instance = dataclasses.is_dataclass(value) and not isinstance(value, type)

        # What an inline definition would produce, per version, with the best choice of
        # default / ignorable:
        def inline_choice():
            if not with_default:
                if tagged and members_all_defaults:
                    return None  # would get default S()
                return {}
            if is_instance:
                if with_default != tagged or not members_all_defaults:
                    return None
                if type(value).__name__ != struct or any(
                    getattr(value, f.name) != f.default for f in dataclasses.fields(value)
                ):
                    return None
                return {}
            if value is None:
                if with_default == vs and optional == vs:
                    return {"default": "null"}
                if with_default == tagged and not members_all_defaults:
                    return {"ignorable": True}
            return None

        def common_choice():
            if optional:
                return None
            if not with_default:
                return {}
            if value is None and with_default == tagged:
                return {"ignorable": True}
            return None

        must_be_common = self.is_common(struct)
        choice = common_choice() if must_be_common else inline_choice()
        if choice is None and not must_be_common and len(self.referrers[struct]) == 1:
            # e.g. a tagged struct field WITHOUT default whose members all have defaults: the
            # generator only looks into inline definitions, so refer to a common struct.
            alt = common_choice()
            if alt is not None:
                self.force_common.add(struct)
                must_be_common, choice = True, alt
        if choice is None:
            problem(
                where,
                f"struct field not expressible: struct={struct} common={must_be_common} versions={vs} "
                f"tagged={tagged} optional={optional} default_in={with_default} default={value!r} "
                f"members_all_defaults={members_all_defaults}",
            )
            choice = {}
        out.update(choice)
        if not must_be_common:
            set_nullable(optional)
        self.struct_ref(out, struct)

    # ---- the definition -----------------------------------------------------------------
    def definition(self) -> dict:
        tops = self.top_by_version
        out: dict = {}
        if self.typ in ("request", "response"):
            keys = {int(c.__api_key__) for c in tops.values()}
            if len(keys) != 1:
                problem(self.where, f"api key changes: {keys}")
            out["apiKey"] = sorted(keys)[0]
        out["type"] = self.typ
        out["name"] = self.top_name
        lo, hi = self.versions[0], self.versions[-1]
        out["validVersions"] = str(lo) if lo == hi else f"{lo}-{hi}"
        flexible = [v for v in self.versions if tops[v].__flexible__]
        if not flexible:
            out["flexibleVersions"] = "none"
        else:
            if not contiguous(flexible):
                problem(self.where, f"flexible in non-contiguous versions {flexible}")
            out["flexibleVersions"] = vrange(flexible, hi)
        # Forcing a struct to be a common struct is discovered while building; rebuild until
        # stable so that every reference agrees (problems of discarded passes are dropped).
        while True:
            mark = len(problems)
            before = set(self.force_common)
            self._members.clear()
            self.common.clear()
            fields = self.members(self.top_name)
            if before == self.force_common:
                break
            del problems[mark:]
        unreachable = set(self.structs) - self.reachable()
        if unreachable:
            problem(self.where, f"classes not reachable from the top level class: {sorted(unreachable)}")
        out["fields"] = fields
        if self.common:
            out["commonStructs"] = [self.common[name] for name in sorted(self.common)]
        return strip_private(out)

    def reachable(self) -> set[str]:
        seen: set[str] = set()
        todo = [self.top_name]
        while todo:
            s = todo.pop()
            if s in seen:
                continue
            seen.add(s)
            for flds in self.structs[s].values():
                todo.extend(o.struct for _, o in flds if o.struct is not None)
        return seen


FIELD_KEY_ORDER = (
    "name", "type", "versions", "nullableVersions", "taggedVersions", "tag", "ignorable",
    "default", "entityType", "fields",
)


def strip_private(x):
    if isinstance(x, dict):
        keys = [k for k in x if not k.startswith("_")]
        if "versions" in x and "name" in x and "validVersions" not in x:
            keys.sort(key=lambda k: FIELD_KEY_ORDER.index(k) if k in FIELD_KEY_ORDER else 99)
        return {k: strip_private(x[k]) for k in keys}
    if isinstance(x, list):
        return [strip_private(i) for i in x]
    return x


def main() -> int:
    out_dir = Path(sys.argv[1])
    out_dir.mkdir(parents=True, exist_ok=True)
    only = set(sys.argv[2:])  # optional: restrict to these definition names
    families = load_families()
    written = 0
    classes = 0
    names: dict[str, tuple[str, str]] = {}
    for (api, typ), by_version in sorted(families.items()):
        family = Family(api, typ, by_version)
        if family.top_name is None:
            continue
        definition = family.definition()
        name = definition["name"]
        if name in names:
            problem(family.where, f"definition name {name} already used by {names[name]}")
        names[name] = (api, typ)
        # generate_schema.basic_name must lead back to the package
        package = to_snake_case(name).removesuffix("_response").removesuffix("_request")
        if package != api:
            problem(family.where, f"basic_name({name}) = {package!r} is not the package {api!r}")
        if only and name not in only:
            continue
        text = json.dumps(definition, indent=2) + "\n"
        (out_dir / f"{name}.json").write_text(text)
        written += 1
        classes += sum(len(c) for c in by_version.values())
    print(f"{written} definitions written to {out_dir} ({classes} classes in {len(families)} families)")
    if problems:
        print(f"{len(problems)} problems (not expressible / unexpected):")
        for p in problems:
            print("  " + p)
        return 1
    return 0


if __name__ == "__main__":
    sys.exit(main())
