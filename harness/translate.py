"""Translator: transcribes the schema package of the kio tree on sys.path into Coq data
(KioG.Shipped).  It only transcribes observable facts (annotations as syntax trees, metadata,
defaults, class attributes, lookup tables); their interpretation is modelled in Gallina
(KioV.Schema.Introspect) and checked against kio's own functions by the correspondence checks.

Fail-closed: anything that cannot be represented aborts with exit status 3 and a diagnostic.
Run with PYTHONPATH=<tree>/src in a fresh interpreter.
"""
from __future__ import annotations

import dataclasses
import datetime
import importlib
import json
import pkgutil
import struct
import sys
import types
import typing
import uuid
from pathlib import Path


class Unrepresentable(Exception):
    pass


def cstr(s: str) -> str:
    if any(ord(ch) > 126 or ord(ch) < 32 for ch in s):
        raise Unrepresentable(f"non-ASCII or control character in identifier {s!r}")
    return '"' + s.replace('"', '""') + '"'


def cz(z: int) -> str:
    return f"({z})" if z < 0 else str(z)


def cbool(b: bool) -> str:
    return "true" if b else "false"


def clist(items) -> str:
    items = list(items)
    return "[" + "; ".join(items) + "]"


def copt(x, f=lambda y: y) -> str:
    return "None" if x is None else f"(Some {f(x)})"


def cbytes(b: bytes) -> str:
    return clist(str(x) for x in b)


EPOCH = datetime.datetime.fromtimestamp(0, datetime.UTC)


def qual(t: type) -> str:
    return f"{t.__module__}.{t.__qualname__}"


class Translator:
    def __init__(self):
        self.class_index: dict[type, int] = {}
        self.classes: list[type] = []
        self.prims: dict[str, type] = {}

    # ---- values (defaults) -------------------------------------------------------------
    def value(self, v) -> str:
        if v is None:
            return "VNull"
        if isinstance(v, bool):
            return f"(VBool {cbool(v)})"
        if isinstance(v, int):
            return f"(VInt {cz(int(v))})"
        if isinstance(v, float):
            bits = struct.unpack(">Q", struct.pack(">d", v))[0]
            return f"(VF64 {bits})"
        if isinstance(v, str):
            return f"(VStr {cbytes(v.encode())})"
        if isinstance(v, bytes):
            return f"(VBytes {cbytes(v)})"
        if isinstance(v, uuid.UUID):
            return f"(VUuid {cbytes(v.bytes)})"
        if isinstance(v, datetime.timedelta):
            return f"(VDur {cz(v // datetime.timedelta(microseconds=1))})"
        if isinstance(v, datetime.datetime):
            if v.tzinfo is None:
                raise Unrepresentable(f"naive datetime default {v!r}")
            return f"(VTime {cz((v - EPOCH) // datetime.timedelta(microseconds=1))})"
        if isinstance(v, tuple):
            return f"(VArr {clist(self.value(x) for x in v)})"
        if dataclasses.is_dataclass(v) and not isinstance(v, type):
            return f"(VEnt {clist(self.value(getattr(v, f.name)) for f in dataclasses.fields(v))})"
        raise Unrepresentable(f"default value of unsupported type {type(v)!r}: {v!r}")

    # ---- annotations -------------------------------------------------------------------
    def ann(self, t) -> str:
        if t is type(None) or t is None:
            return "TNone"
        if t is Ellipsis:
            return "TEllipsis"
        origin = typing.get_origin(t)
        if origin is types.UnionType:
            return f"(TUnion true {clist(self.ann(a) for a in typing.get_args(t))})"
        if origin is typing.Union:
            return f"(TUnion false {clist(self.ann(a) for a in typing.get_args(t))})"
        if origin is tuple:
            return f"(TTuple {clist(self.ann(a) for a in typing.get_args(t))})"
        if origin is not None:
            return f"(TOther {cstr(repr(origin))} {clist(self.ann(a) for a in typing.get_args(t))})"
        if isinstance(t, type):
            if dataclasses.is_dataclass(t):
                if t not in self.class_index:
                    raise Unrepresentable(f"annotation refers to dataclass {t!r} outside the schema walk")
                return f"(TClass {self.class_index[t]}%nat)"
            q = qual(t)
            self.prims.setdefault(q, t)
            return f"(TPrim {cstr(q)})"
        return f"(TOther {cstr(repr(t)[:60])} [])"

    def default_cls(self, cls, f) -> str:
        d = f.default
        if d is dataclasses.MISSING or isinstance(d, type) or not dataclasses.is_dataclass(d):
            return "None"
        if type(d) not in self.class_index:
            raise Unrepresentable(f"default of {cls!r}.{f.name} is an instance of a class outside the schema")
        return f"(Some {self.class_index[type(d)]}%nat)"

    def meta(self, m) -> str:
        if isinstance(m, bool):
            return f"(MBool {cbool(m)})"
        if isinstance(m, str):
            return f"(MStr {cstr(m)})"
        if isinstance(m, int):
            return f"(MInt {cz(int(m))})"
        return f"(MOther {cstr(repr(m)[:60])})"

    # ---- classes -----------------------------------------------------------------------
    def walk(self):
        import kio.schema

        modules = []

        def rec(parent):
            for pkg in pkgutil.walk_packages(parent.__path__):
                mod = importlib.import_module(f"{parent.__name__}.{pkg.name}")
                if pkg.ispkg:
                    rec(mod)
                else:
                    modules.append(mod)

        rec(kio.schema)
        found = []
        for mod in modules:
            if mod.__name__.count(".") < 3:
                continue
            for key, val in list(mod.__dict__.items()):
                if key.startswith("__"):
                    continue
                if getattr(val, "__module__", None) != mod.__name__:
                    continue
                if not isinstance(val, type):
                    continue
                found.append(val)
        # the four record classes are described too (C15)
        import kio.records.schema as rs

        self.record_classes = [
            v for v in rs.__dict__.values()
            if isinstance(v, type) and v.__module__ == rs.__name__ and dataclasses.is_dataclass(v)
        ]
        # dependency order: every class after the classes its annotations and header refer to
        order: list[type] = []
        state: dict[type, int] = {}

        def deps(cls):
            out = []
            hdr = cls.__dict__.get("__header_schema__")
            if isinstance(hdr, type):
                out.append(hdr)
            if dataclasses.is_dataclass(cls):
                hints = None
                for f in dataclasses.fields(cls):
                    ftype = f.type
                    if isinstance(ftype, str):
                        if hints is None:
                            hints = typing.get_type_hints(cls)
                        ftype = hints[f.name]
                    stack = [ftype]
                    while stack:
                        t = stack.pop()
                        if isinstance(t, type) and dataclasses.is_dataclass(t):
                            out.append(t)
                        stack.extend(typing.get_args(t))
            return out

        def visit(cls):
            st = state.get(cls)
            if st == 2:
                return
            if st == 1:
                raise Unrepresentable(f"recursive schema at {cls!r}")
            state[cls] = 1
            for d in deps(cls):
                visit(d)
            state[cls] = 2
            order.append(cls)

        for cls in found + self.record_classes:
            visit(cls)
        self.classes = order
        self.class_index = {c: i for i, c in enumerate(order)}
        self.n_schema_found = len(found)

    def rclass(self, cls: type) -> str:
        d = cls.__dict__
        et = d.get("__type__", getattr(cls, "__type__", None))
        et_s = None
        if et is not None:
            name = getattr(et, "name", None)
            table = {"request": "ETRequest", "response": "ETResponse", "header": "ETHeader",
                     "data": "ETData", "nested": "ETNested"}
            if name not in table:
                raise Unrepresentable(f"unknown __type__ {et!r} on {cls!r}")
            et_s = table[name]
        version = getattr(cls, "__version__", None)
        flexible = getattr(cls, "__flexible__", None)
        api_key = getattr(cls, "__api_key__", None)
        hdr = getattr(cls, "__header_schema__", None)
        if hdr is not None and hdr not in self.class_index:
            raise Unrepresentable(f"__header_schema__ of {cls!r} is not a schema class: {hdr!r}")
        if version is not None and not isinstance(version, int):
            raise Unrepresentable(f"__version__ of {cls!r} is not an int")
        if api_key is not None and not isinstance(api_key, int):
            raise Unrepresentable(f"__api_key__ of {cls!r} is not an int")
        if flexible is not None and not isinstance(flexible, bool):
            raise Unrepresentable(f"__flexible__ of {cls!r} is not a bool")
        if dataclasses.is_dataclass(cls):
            p = cls.__dataclass_params__
            slots = "__slots__" in d
            fields = dataclasses.fields(cls)
            kw_only = all(f.kw_only for f in fields) if fields else bool(getattr(p, "kw_only", False))
            params = (f"{{| dp_frozen := {cbool(p.frozen)}; dp_eq := {cbool(p.eq)}; dp_order := {cbool(p.order)}; "
                      f"dp_unsafe_hash := {cbool(p.unsafe_hash)}; dp_slots := {cbool(slots)}; "
                      f"dp_kw_only := {cbool(kw_only)}; dp_init := {cbool(p.init)}; dp_repr := {cbool(p.repr)} |}}")
            flds = []
            hints = None
            for f in fields:
                ftype = f.type
                if isinstance(ftype, str):
                    # `from __future__ import annotations`: resolve the string as Python would
                    if hints is None:
                        hints = typing.get_type_hints(cls)
                    ftype = hints[f.name]
                if f.default_factory is not dataclasses.MISSING:
                    raise Unrepresentable(f"default_factory on {cls!r}.{f.name}")
                default = None if f.default is dataclasses.MISSING else self.value(f.default)
                kafka = f.metadata.get("kafka_type") if "kafka_type" in f.metadata else None
                tag = f.metadata.get("tag") if "tag" in f.metadata else None
                flds.append(
                    f"{{| rf_name := {cstr(f.name)}; rf_ann := {self.ann(ftype)}; "
                    f"rf_kafka := {copt(kafka, self.meta) if 'kafka_type' in f.metadata else 'None'}; "
                    f"rf_tag := {copt(tag, self.meta) if 'tag' in f.metadata else 'None'}; "
                    f"rf_default := {copt(default)}; rf_default_cls := {self.default_cls(cls, f)} |}}")
        else:
            params = ("{| dp_frozen := false; dp_eq := false; dp_order := false; dp_unsafe_hash := false; "
                      "dp_slots := false; dp_kw_only := false; dp_init := false; dp_repr := false |}")
            flds = []
        slots_v = d.get("__slots__")
        if slots_v is not None and not isinstance(slots_v, tuple):
            slots_v = tuple(slots_v)
        has_dict = any("__dict__" in k.__dict__ for k in cls.__mro__ if k is not object)
        return (f"{{| rc_module := {cstr(cls.__module__)}; rc_name := {cstr(cls.__qualname__)}; "
                f"rc_type := {copt(et_s)}; rc_version := {copt(version, lambda v: cz(int(v)))}; "
                f"rc_flexible := {copt(flexible, cbool)}; rc_api_key := {copt(api_key, lambda v: cz(int(v)))}; "
                f"rc_header := {copt(hdr, lambda h: str(self.class_index[h]) + '%nat')}; rc_params := {params}; "
                f"rc_slots := {copt(slots_v, lambda s: clist(cstr(x) for x in s))}; "
                f"rc_has_dict := {cbool(has_dict)}; rc_fields := {clist(flds)} |}}")

    def emit(self, out_dir: Path):
        self.walk()
        header = [
            "(* GENERATED by harness/translate.py from the kio tree under verification. *)",
            "From Coq Require Import ZArith List Bool String.",
            "From KioV Require Import Base.Res Codec.Value Schema.Raw.",
            "Import ListNotations.",
            "Open Scope string_scope.",
            "Open Scope Z_scope.",
            "",
        ]
        out_dir.mkdir(parents=True, exist_ok=True)
        nshards = 8
        per = (len(self.classes) + nshards - 1) // nshards
        shard_names = []
        for k in range(nshards):
            chunk = list(enumerate(self.classes))[k * per:(k + 1) * per]
            sl = list(header)
            for i, cls in chunk:
                sl.append(f"Definition c{i} : rclass := {self.rclass(cls)}.")
            sl.append(f"Definition classes_{k} : list rclass := {clist(f'c{i}' for i, _ in chunk)}.")
            (out_dir / f"Shard{k}.v").write_text("\n".join(sl) + "\n")
            shard_names.append(f"Shard{k}")
        lines = list(header)
        lines.insert(3, "From KioG Require Import " + " ".join(shard_names) + ".")
        lines.append("Definition shipped_classes : list rclass := "
                     + " ++ ".join(f"classes_{k}" for k in range(nshards)) + ".")
        lines.append(f"Definition n_schema_classes : nat := {self.n_schema_found}%nat.")
        lines.append(
            "Definition record_class_indices : list nat := "
            + clist(f"{self.class_index[c]}%nat" for c in self.record_classes) + ".")
        # primitive types
        prim_lines = []
        # always describe the primitive types of kio.static.primitive and builtins used by defaults
        import kio.static.primitive as prim

        for name, t in vars(prim).items():
            if isinstance(t, type) and t.__module__ == prim.__name__:
                self.prims.setdefault(qual(t), t)
        for q, t in sorted(self.prims.items()):
            mro = [qual(k) for k in t.__mro__]
            prim_lines.append(f"{{| pt_name := {cstr(q)}; pt_mro := {clist(cstr(m) for m in mro)} |}}")
        lines.append(f"Definition shipped_prims : list primty := {clist(prim_lines)}.")
        # error codes
        from kio.schema.errors import ErrorCode

        ecs = []
        for m in ErrorCode:
            ecs.append(f"({cz(int(m.value))}, ({cstr(m.name)}, {cbool(bool(m.retriable))}))")
        lines.append(f"Definition shipped_error_codes : list (Z * (string * bool)) := {clist(ecs)}.")
        # index tables
        from kio.schema import index as sidx

        akm = [f"({cz(int(k))}, {cstr(v)})" for k, v in sidx.api_key_map.items()]
        lines.append(f"Definition shipped_api_key_map : list (Z * string) := {clist(akm)}.")
        et_tab = {"request": "ETRequest", "response": "ETResponse", "header": "ETHeader",
                  "data": "ETData", "nested": "ETNested"}
        nm = []
        for name, vmap in sidx.schema_name_map.items():
            vs = []
            for ver, tmap in vmap.items():
                ts = [f"({et_tab[et.name]}, {cstr(path)})" for et, path in tmap.items()]
                vs.append(f"({cz(int(ver))}, {clist(ts)})")
            nm.append(f"({cstr(name)}, {clist(vs)})")
        lines.append(
            "Definition shipped_name_map : list (string * list (Z * list (etype * string))) := "
            + clist(nm) + ".")
        # interval types
        ivs = []
        for name, t in vars(prim).items():
            if isinstance(t, type) and issubclass(t, prim.Interval) and t is not prim.Interval:
                ivs.append(
                    f"{{| iv_name := {cstr(qual(t))}; iv_low := {cz(t.__low__)}; iv_high := {cz(t.__high__)}; "
                    f"iv_mro := {clist(cstr(qual(k)) for k in t.__mro__)} |}}")
        lines.append(f"Definition shipped_intervals : list interval := {clist(ivs)}.")
        lines.append("")
        lines.append(
            "Definition shipped : schema := {| s_classes := shipped_classes; s_prims := shipped_prims; "
            "s_error_codes := shipped_error_codes; s_api_key_map := shipped_api_key_map; "
            "s_name_map := shipped_name_map; s_intervals := shipped_intervals |}.")
        (out_dir / "Shipped.v").write_text("\n".join(lines) + "\n")
        # a JSON side table for the harness: index -> module:qualname
        (out_dir / "classes.json").write_text(json.dumps(
            [{"i": i, "module": c.__module__, "qualname": c.__qualname__} for i, c in enumerate(self.classes)]))


def canonical(tr: "Translator") -> dict:
    """An index-free description of every class (class references by module:qualname), used to
    compare two trees (e.g. generator output vs shipped schema)."""
    def cref(c):
        return f"{c.__module__}:{c.__qualname__}"

    def ann(t):
        if t is type(None) or t is None:
            return "None"
        if t is Ellipsis:
            return "..."
        origin = typing.get_origin(t)
        if origin is not None:
            name = {types.UnionType: "union", typing.Union: "Union", tuple: "tuple"}.get(origin, repr(origin))
            return [name] + [ann(a) for a in typing.get_args(t)]
        if isinstance(t, type):
            if dataclasses.is_dataclass(t):
                return {"class": cref(t)}
            return qual(t)
        return repr(t)[:60]

    def val(v):
        if dataclasses.is_dataclass(v) and not isinstance(v, type):
            return {"instance_of": cref(type(v)), "fields": [val(getattr(v, f.name)) for f in dataclasses.fields(v)]}
        if isinstance(v, tuple):
            return [val(x) for x in v]
        return tr.value(v)

    out = {}
    for cls in tr.classes:
        if not hasattr(cls, "__flexible__"):
            continue
        hdr = getattr(cls, "__header_schema__", None)
        p = cls.__dataclass_params__
        fields = []
        hints = None
        for f in dataclasses.fields(cls):
            ft = f.type
            if isinstance(ft, str):
                hints = hints or typing.get_type_hints(cls)
                ft = hints[f.name]
            fields.append({"name": f.name, "ann": ann(ft), "metadata": {k: (v if isinstance(v, (str, int, bool)) else repr(v)) for k, v in f.metadata.items()},
                           "default": None if f.default is dataclasses.MISSING else val(f.default),
                           "kw_only": f.kw_only})
        et = getattr(cls, "__type__", None)
        out[cref(cls)] = {
            "type": getattr(et, "name", None), "version": getattr(cls, "__version__", None),
            "flexible": getattr(cls, "__flexible__", None), "api_key": getattr(cls, "__api_key__", None),
            "header": None if hdr is None else cref(hdr),
            "params": {"frozen": p.frozen, "eq": p.eq, "order": p.order, "unsafe_hash": p.unsafe_hash,
                       "slots": "__slots__" in cls.__dict__}, "fields": fields,
            # everything else the class body holds: a generated class has nothing but its fields, the class variables
            # and what @dataclass adds - a hand-added method, property or __post_init__ shows up here
            "members": sorted(n for n in cls.__dict__ if n not in ("__doc__", "__firstlineno__", "__static_attributes__")),
            "bases": [f"{b.__module__}.{b.__qualname__}" for b in cls.__bases__]}
    from kio.schema import index as sidx
    from kio.schema.errors import ErrorCode
    import kio.schema.types as stypes
    # the generated entity types (kio/schema/types.py): their bases decide which values inhabit a field's declared type
    entity_types = {}
    for n, o in sorted(vars(stypes).items()):
        if isinstance(o, type) and o.__module__ == stypes.__name__:
            entity_types[n] = {"bases": [f"{b.__module__}.{b.__qualname__}" for b in o.__bases__],
                               "low": getattr(o, "__low__", None), "high": getattr(o, "__high__", None)}
    return {"classes": out, "entity_types": entity_types,
            "api_key_map": {str(k): v for k, v in sidx.api_key_map.items()},
            "schema_name_map": {n: {str(v): {et.name: p for et, p in tm.items()} for v, tm in vm.items()} for n, vm in sidx.schema_name_map.items()},
            "error_codes": [[int(m.value), m.name, bool(m.retriable)] for m in ErrorCode]}


def main():
    out = Path(sys.argv[1])
    if len(sys.argv) > 2 and sys.argv[2] == "--canonical":
        try:
            tr = Translator()
            tr.walk()
            out.parent.mkdir(parents=True, exist_ok=True)
            out.write_text(json.dumps(canonical(tr), sort_keys=True))
        except Exception as e:  # noqa
            import traceback

            traceback.print_exc()
            print(f"TRANSLATOR-ABORT: {type(e).__name__}: {e}")
            sys.exit(3)
        return
    try:
        Translator().emit(out)
    except Unrepresentable as e:
        print(f"TRANSLATOR-ABORT: {e}")
        sys.exit(3)
    except Exception as e:  # import errors etc. are also fail-closed
        import traceback

        traceback.print_exc()
        print(f"TRANSLATOR-ABORT: {type(e).__name__}: {e}")
        sys.exit(3)


if __name__ == "__main__":
    main()
