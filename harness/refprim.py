"""Independent reading of the Kafka primitive DEcodings (protocol guide, "Protocol Primitive Types"), used by C11 to
evaluate 'each reader accepts exactly the Kafka encoding of its type' on the implementation without consulting the model.

spec_read(name, data, error_codes) -> ("ok", value, rest) | ("reject",) | None (no opinion: not covered here).
Values use the abstract representation of harness.values.from_py.  Only clear-cut rules are covered:
fixed-width integers, legacy/compact strings and bytes with their null forms, error codes, UUIDs, int32 durations.
Varints are read leniently (non-minimal encodings accepted, as Kafka's ByteUtils does), at most 5 bytes.
"""
from __future__ import annotations

REJECT = ("reject",)
NULL = ("null",)

_FIXED = {"read_int8": (1, True), "read_int16": (2, True), "read_int32": (4, True), "read_int64": (8, True),
          "read_uint8": (1, False), "read_uint16": (2, False), "read_uint32": (4, False), "read_uint64": (8, False),
          "read_legacy_array_length": (4, True)}


def _fixed(data, n, signed):
    if len(data) < n:
        return None
    return int.from_bytes(data[:n], "big", signed=signed), data[n:]


def _uvarint(data, max_bytes=5):
    value = 0
    for i in range(max_bytes):
        if i >= len(data):
            return None
        value |= (data[i] & 0x7F) << (7 * i)
        if data[i] < 0x80:
            return value, data[i + 1:]
    return None


def _payload(rest, n, text):
    if n < 0 or len(rest) < n:
        return REJECT
    body = bytes(rest[:n])
    if text:
        try:
            body.decode("utf-8", "strict")
        except UnicodeDecodeError:
            return REJECT
    return ("ok", ("str" if text else "bytes", body), rest[n:])


def spec_read(name: str, data: bytes, error_codes) -> tuple | None:
    if name in _FIXED:
        got = _fixed(data, *_FIXED[name])
        return REJECT if got is None else ("ok", ("int", got[0]), got[1])
    legacy = {"read_legacy_string": (2, True, False), "read_nullable_legacy_string": (2, True, True),
              "read_legacy_bytes": (4, False, False), "read_nullable_legacy_bytes": (4, False, True)}
    if name in legacy:
        width, text, nullable = legacy[name]
        got = _fixed(data, width, True)
        if got is None:
            return REJECT
        n, rest = got
        if n == -1:
            return ("ok", NULL, rest) if nullable else REJECT
        return _payload(rest, n, text)       # any other negative length is not an encoding of anything
    compact = {"read_compact_string": (True, False), "read_compact_string_nullable": (True, True),
               "read_compact_string_as_bytes": (False, False), "read_compact_string_as_bytes_nullable": (False, True)}
    if name in compact:
        text, nullable = compact[name]
        got = _uvarint(data)
        if got is None:
            return REJECT
        n, rest = got
        if n == 0:
            return ("ok", NULL, rest) if nullable else REJECT
        return _payload(rest, n - 1, text)
    if name == "read_error_code":
        got = _fixed(data, 2, True)
        if got is None or got[0] not in error_codes:
            return REJECT                    # the type's domain is the pinned table of error codes
        return ("ok", ("int", got[0]), got[1])
    if name == "read_uuid":
        if len(data) < 16:
            return REJECT
        return ("ok", NULL if data[:16] == bytes(16) else ("uuid", bytes(data[:16])), data[16:])
    if name == "read_timedelta_i32":
        got = _fixed(data, 4, True)
        return REJECT if got is None else ("ok", ("dur", got[0] * 1000), got[1])
    if name == "read_compact_array_length":
        got = _uvarint(data)
        return REJECT if got is None else ("ok", ("int", got[0] - 1), got[1])
    return None
