"""Regenerate the schema package from a directory of definitions with the tree's generator and
compare it, class by class and field by field, with a canonical description (default: the
pinned one).  Usage: python -m harness.regen_check <defs_dir> [<canon.json>] [<scratch_dir>]"""
from __future__ import annotations

import json
import sys
from pathlib import Path

from . import common, gentree


def diff_canon(gen: dict, ref: dict, limit=40) -> list[str]:
    out = []
    gc, rc = gen["classes"], ref["classes"]
    for k in sorted(set(rc) - set(gc)):
        out.append(f"missing class {k}")
    for k in sorted(set(gc) - set(rc)):
        out.append(f"extra class {k}")
    for k in sorted(set(gc) & set(rc)):
        a, b = gc[k], rc[k]
        if a == b:
            continue
        for attr in ("type", "version", "flexible", "api_key", "header", "params", "members", "bases"):
            if a.get(attr) != b.get(attr):
                out.append(f"{k}: {attr} {a.get(attr)!r} != {b.get(attr)!r}")
        fa = {f["name"]: f for f in a["fields"]}
        fb = {f["name"]: f for f in b["fields"]}
        if [f["name"] for f in a["fields"]] != [f["name"] for f in b["fields"]]:
            out.append(f"{k}: field order/names {[f['name'] for f in a['fields']]} != {[f['name'] for f in b['fields']]}")
        for n in sorted(set(fa) & set(fb)):
            if fa[n] != fb[n]:
                for key in ("ann", "metadata", "default", "kw_only"):
                    if fa[n][key] != fb[n][key]:
                        out.append(f"{k}.{n}: {key} {json.dumps(fa[n][key])[:120]} != {json.dumps(fb[n][key])[:120]}")
    for key in ("api_key_map", "schema_name_map"):
        if gen[key] != ref[key]:
            out.append(f"{key} differs")
    ga, ra = gen.get("entity_types", {}), ref.get("entity_types", {})
    for n in sorted(set(ga) | set(ra)):
        if ga.get(n) != ra.get(n):
            out.append(f"kio.schema.types.{n}: {json.dumps(ga.get(n))} != {json.dumps(ra.get(n))}")
    return out[:limit] + ([f"... {len(out) - limit} more"] if len(out) > limit else [])


def regenerate(defs_dir: Path, scratch: Path):
    src, err = gentree.build(defs_dir, scratch)
    if src is None:
        return None, "generator failed:\n" + err
    ok, out = gentree.canonical(src, scratch / "canon.json")
    if not ok:
        return None, "generated package cannot be imported/translated:\n" + out
    return json.loads((scratch / "canon.json").read_text()), ""


def main():
    defs = Path(sys.argv[1])
    ref = Path(sys.argv[2]) if len(sys.argv) > 2 else common.VERIF / "pinned" / "schema_3.9.0.canon.json"
    scratch = Path(sys.argv[3]) if len(sys.argv) > 3 else common.BUILD / "regen_scratch"
    gen, err = regenerate(defs, scratch)
    if gen is None:
        print(err)
        sys.exit(2)
    d = diff_canon(gen, json.loads(ref.read_text()))
    print(f"{len(gen['classes'])} generated classes; {len(d)} differences")
    for line in d:
        print(" ", line)
    sys.exit(1 if d else 0)


if __name__ == "__main__":
    main()
