"""Writes MANIFEST.json from the table below (kept in one place so it stays consistent)."""
import json
from pathlib import Path

V = Path(__file__).resolve().parent.parent

CLAIMED = {
 "C04": ("per-tree Coq instance theorems c04_generator_model_reproduces_shipped (vm_compute): the Gallina model of the generator applied to each of the 186 pinned definitions yields, for each of their versions (all 666 modules), exactly the shipped classes (names, field order, annotations, metadata, tags, defaults, flexibility, key, header); plus translation validation: the package equals the pinned canonical description incl. every class's body members and bases and the generated entity types' bases and bounds (hand edits), the CURRENT generator re-run on the pinned definitions reproduces the package (generator changes), hand-written API-key pins and counts. Limitation: upstream JSON is not available offline; pinned/defs are reconstructions validated by regenerating all 1629 classes with the unmodified generator",
         "Coq instance theorems by vm_compute (generator model on pinned definitions) + translation validation of the real generator", "4 C04"),
 "C16": ("Coq theorems over the Gallina model of the generator, for every definition and version: the fields of the emitted top-level class are exactly the definition's fields valid at the version, in order, snake-cased, tagged iff the version is in taggedVersions; all classes carry version/flexibility/key/header rule; one class per structure (no self-nesting); c16_supported_definitions_are_well_formed / c16_supported_definitions_encode_to_spec: for every definition and version satisfying the boolean defn_ok, the plans read off the generated module are well formed, so its classes encode to the wire specification and decode back (defn_ok is evaluated on every generated module and agreed with def_wf on all of them); correspondence on seeded random definitions: real generator output = model, independent reading of the definition (incl. a systematic definition with builtin-colliding names on every kind of field), generated index, and bytes kio encodes for instances of generated classes = model encoder over plans read off the definition (with wf_env checked per module). Partial: pydantic's JSON layer and the supported-subset conditions (keywords, zero-size array items, optional tagged structs) are inside the correspondence, not the theorems",
         "machine-checked proof (Coq) over the generator model + translation-validation correspondence on random definitions", "4 C16"),

 "C12": ("Coq theorems (Types/PhantomProofs.v): constructor call = identity on members / TypeError otherwise; integer types nest by range for ALL integers; membership of a fixed-width type <-> the writer succeeds, and then the reader returns the value; f64, both duration types (read back as the value rounded half-even to whole ms) and the timestamp type are accepted by their writers and read back; instance theorem: translated interval bounds = documented bounds and subclass chains nest; correspondence on isinstance / constructor / writer / read-back over boundary values of every Python type (incl. int subclasses, zone-shifted extremes, integers beyond 4300 digits); two recorded known findings (timestamp members beyond datetime.max in UTC; ValueError instead of TypeError for integers beyond CPython's int-to-text limit)",
         "machine-checked proof (Coq) + instance theorem + correspondence", "4 C12"),
 "C13": ("instance theorem c13_shipped by vm_compute over all 1629 classes / 5094 fields: annotation <-> kafka type table, nullability only on nullable-capable types, tuple[T, ...] arrays, defaults inhabit the declared type (entity defaults by class identity and field-wise), unique in-range tags on flexible classes only, reader+writer plans derivable by the Gallina rendering of kio's introspection AND well-formed (wf_env, the hypothesis of the codec theorems); that rendering is compared with kio's functions on every field plus 300 synthetic annotation/metadata combinations; every class's description is snapshotted before and after deriving its reader and writer",
         "Coq instance theorem by vm_compute over translator output + correspondence of the introspection model", "4 C13"),
 "C15": ("instance theorem c15_shipped (every schema class and the four record classes: frozen, slots = fields, eq, no order, no __dict__, deeply immutable field types) + theorems over the abstract machine for frozen instances (equality is field-wise and an equivalence, any hash of class+fields is consistent, no operation changes an instance, copies are equal) + behavioural correspondence on generated instances (setattr/delattr, ==/hash vs structural equality incl. single-field perturbations down to 1 us, copy/deepcopy/replace/pickle at every protocol, leaf values restricted to the immutable library types). Partial: CPython's dataclass machinery is modelled and sampled, not derived",
         "Coq instance theorem + machine-checked model theorems + behavioural correspondence (partial)", "4 C15"),
 "C19": ("Coq theorems c19_cache_invariant / c19_use_is_history_independent: for every schedule (any interleaving of any number of threads' lookups, compilations, stores, uses with faults) the cache holds only compile(key) and each use returns what a fresh call returns; correspondence: fresh-interpreter histories, a stream fault at every write/read call followed by reuse, 8 real threads on a cold cache, AST scan for shared mutable state. Partial: real preemption and functools.cache's C code are sampled, not modelled",
         "machine-checked proof (Coq) over all interleavings of the cache model + history/fault/thread correspondence (partial)", "4 C19"),

 "C02": ("Coq theorem c02_encoder_is_wire_format: for every well-formed environment, class and typed value the model of kio's encoder equals (also in failure) the Kafka wire format written independently in closed form (Codec/WireSpec.v: big-endian digits, base-128 minimal varints, ascending merge-sorted tags); three-way correspondence per run: kio's bytes = independent Python reference encoder = Coq spec_enc",
         "machine-checked proof (Coq) of encoder = independent wire specification + three-way correspondence", "4 C02"),
 "C03": ("Coq theorem c03_decoder_accepts_conforming: for every decorated value a conforming peer may send (explicitly sent defaults incl. explicit nulls, unknown tagged fields with arbitrary payloads at every nesting level, any trailing bytes) the decoder returns exactly the wire values with absent tagged fields defaulted; correspondence on reference-encoded decorated messages of every class (writers derived first for every other class)",
         "machine-checked proof (Coq) over all conforming encodings + wire-first correspondence", "4 C03"),
 "C05": ("Coq theorems c05_canonical_reencodes / c05_decoder_output_encodable / c05_idempotent: canonical encodings of every typed value decode and re-encode to the same bytes; whatever the decoder returns from any byte string is typed, hence accepted by the encoder (up to the 2^35-byte tagged-section limits, stated as sizes_ok), and decode-then-encode is idempotent; wire-first correspondence",
         "machine-checked proof (Coq) + wire-first correspondence", "4 C05"),
 "C07": ("Coq theorems c07_sequence (any finite sequence of messages of arbitrary classes followed by arbitrary bytes decodes back to back to the original values), c07_tail_irrelevant / c07_consumes_prefix for every reader program, c07_any_append_sink for every append-only sink (Section hypothesis write-appends, checked on the real sinks); correspondence through BytesIO, write-only sink, BufferedWriter, asyncio.StreamWriter, read(n)-only source, BufferedReader; sequences of equal-but-distinct values (DST fold twins, signed zeros) against the reference encoder",
         "machine-checked proof (Coq) by induction over message lists + sink/source correspondence", "4 C07"),
 "C11": ("Coq theorems over unbounded Z/lists: fixed-width round trip, exact byte length/big-endian value, out-of-range raises; varint minimal length, <=5/<=10 bytes, round trip; zig-zag non-negativity for every integer and round trips; every field-level primitive codec round trip/totality/typed outputs/permitted errors; c11_public_reader_after_writer / c11_public_writers_raise_outside_domain: the same stated about the 58 public functions BY NAME over a table of 40 (writer, reader, domain) rows and 16 bounded writers with exact in-range predicates; c11_reader_accepts_exactly (what a strict reader accepts is exactly writer output ++ rest), the lenient readers (boolean, varints, compact forms) characterised exactly with a witness per leniency, c11_public_reader_accepts_only_encodings on the 23 strict rows by name; correspondence of all 58 modelled public functions by name incl. exhaustive 8/16-bit and varint sweeps compared by CRC; every reader input also decided by an independent decoding of the Kafka primitives (all 65536 error codes, every negative-length shape)",
         "machine-checked proof (Coq) + exhaustive/boundary correspondence of public primitives", "4 C11"),
 "C17": ("Coq theorems c17_header_derived / c17_independent_decoder_recovers / c17_empty_rejected: the model of write_new_batch produces, for every non-empty record list, a batch whose fields at the format's byte offsets are the derived values, batch_length = len-12, CRC-32C over bytes 21..end, and an independent decoder recovers exactly the records; c17_own_reader_recovers (kio's own reader, as modelled, returns the derived batch for every well-formed new batch, with any trailing bytes); correspondence with kio.records.writers + independent Python decoder (batches incl. shared header/key objects, gapped offsets, varint-edge counts)",
         "machine-checked proof (Coq) against an independent format parser + correspondence", "4 C17"),
 "C18": ("Coq theorems: c18_fields_as_encoded, c18_magic_checked, c18_crc_checked, c18_crc_single_bit (CRC-32C detects every single-bit error in messages of any length, by GF(2)-linearity), c18_bit_flip_rejected, c18_byte_change_rejected / c18_crc_field_corrupted / c18_burst_rejected (any replaced byte from the CRC field on, any other stored checksum, any change within four consecutive checksummed bytes - CRC-32C detects every burst of at most 32 bits), c18_truncation_rejected, c18_reader_inverts_writer (for every well-formed prepared batch and any trailing bytes the reader returns the batch, record timestamps floored to seconds), c18_rewrite_reproduces_partial / c18_rewrite_reproduces_iff / c18_rewrite_reproduces_refuted (re-writing reproduces the bytes exactly when no record has a sub-second millisecond part: the known finding as a theorem); correspondence on reference-encoded batches and the broker fixtures under identity/bit flips/replaced checksums/replaced bytes/4-byte bursts/truncation/compound damage/CRC-forced truncation; one recorded known finding (whole-second record timestamps)",
         "machine-checked proof (Coq) incl. CRC linearity + fault-enumeration correspondence", "4 C18"),

 "C01": ("Coq theorem c01_roundtrip (Props/C01.v): for EVERY well-formed plan environment, class, typed canonical value and trailing bytes, decode(encode v ++ tl) = (v, tl); instance wf_env(shipped plans)=true by vm_compute; model tied to kio by a per-run correspondence on generated instances of all 1629 classes",
         "machine-checked proof (Coq) + translator-regenerated instance + correspondence", "4 C01"),
 "C06": ("Coq theorem c06_truncated_is_underflow: every strict prefix of every encoding decodes to BufferUnderflow (from the generic reader-program metatheorem run_prefix_underflow + round trip + fuel monotonicity); correspondence runs every cut of generated encodings through a read(n)-only source",
         "machine-checked proof (Coq) + correspondence over all cut points", "4 C06"),
 "C08": ("instance theorem c08_shipped over the translated schema (header rule written from Kafka's ApiMessageTypeGenerator, pairing through the Gallina model of kio.index), exhaustive over all request/response classes by vm_compute; kio.index pairing functions compared with the model on every class and called on a generated instance of every payload class",
         "Coq instance theorem by vm_compute over translator output + correspondence", "4 C08"),
 "C09": ("instance theorem c09_shipped (every top-level class listed under exactly module:qualname, no stale entry, key<->name one-to-one) by vm_compute; loaders compared with the Gallina index model on all entries, near-misses, aliasing probes (colliding key/version pairs for the usual radices and wrap-arounds) and random lookups, module and class lookups asked separately",
         "Coq instance theorem by vm_compute over translator output + correspondence", "4 C09"),
 "C10": ("Coq theorems c10_outcomes / c10_returned_value_reencodes: for every byte string decoding returns a typed (re-encodable) value with a suffix remainder or fails with a permitted error class, never out of loop fuel; a time-scaling probe (same shape at size n and 8n, valid / cut / corrupted, must scale linearly); correspondence on mutated encodings of every class",
         "machine-checked proof (Coq) + correspondence on malformed inputs", "4 C10"),
 "C14": ("instance theorem c14_shipped (module/class attribute agreement, contiguous versions, monotone flexibility, constant and unique keys, request/response version sets equal) by vm_compute over all 666 modules; cross-checked by a direct evaluation on the imported classes",
         "Coq instance theorem by vm_compute over translator output", "4 C14"),
}

NOT_YET = {
}

NOTE = ("Trusted base: Coq 8.16.1 kernel + VM (vm_compute; no native_compute); harness/translate.py; the correspondence "
        "harness (value printers, exception-class mapping); CPython library semantics transcribed by the model. "
        "No axioms: every Print Assumptions is 'Closed under the global context' (reported per run in the evidence).")


def main():
    checks = []
    for pid, (text, tech, ref) in sorted(CLAIMED.items()):
        checks.append({
            "property_id": pid,
            "quick_cmd": f"./check {pid} --tier quick",
            "thorough_cmd": f"./check {pid} --tier thorough",
            "evidence_file": f"evidence/{pid}.json",
            "replay_cmd_template": f"./check {pid} --replay {{path}}",
            "engine": "coq",
            "level_claimed": {"category": "proof", "text": text, "design_ref": f"DESIGN.md section {ref}"},
            "level_note": NOTE,
            "technique": tech,
        })
    m = {
        "version": 1,
        "setup_cmd": "cd /verif && ./setup.sh",
        "hooks": {"guard": "KIO_VERIF", "enable": "no hooks needed: checks drive the public API of /repo/src directly (PYTHONPATH=/repo/src)",
                  "baseline_off_cmd": "cd /repo && /venv/bin/python -m pytest -ra -q -p no:cacheprovider --timeout=900 --continue-on-collection-errors",
                  "source_commits": [], "add_only": True},
        "engines": [{"name": "coq", "path": "coq/", "serves_properties": sorted(CLAIMED),
                     "kind_free_text": "Coq 8.16.1 development (KioV) + per-tree generated instance data (KioG) + Python correspondence harness"}],
        "checks": checks,
        "not_applicable": [{"property_id": k, "reason": v} for k, v in sorted(NOT_YET.items()) if k not in CLAIMED],
        "notes": "see DESIGN.md; known_findings.json lists repaired defects (fix: commits in /repo) and recorded findings",
    }
    (V / "MANIFEST.json").write_text(json.dumps(m, indent=1) + "\n")


if __name__ == "__main__":
    main()
