"""Writes MANIFEST.json from the table below (kept in one place so it stays consistent)."""
import json
from pathlib import Path

V = Path(__file__).resolve().parent.parent

CLAIMED = {
 "C01": ("Coq theorem c01_roundtrip (Props/C01.v): for EVERY well-formed plan environment, class, typed canonical value and trailing bytes, decode(encode v ++ tl) = (v, tl); instance wf_env(shipped plans)=true by vm_compute; model tied to kio by a per-run correspondence on generated instances of all 1629 classes",
         "machine-checked proof (Coq) + translator-regenerated instance + correspondence", "4 C01"),
 "C06": ("Coq theorem c06_truncated_is_underflow: every strict prefix of every encoding decodes to BufferUnderflow (from the generic reader-program metatheorem run_prefix_underflow + round trip + fuel monotonicity); correspondence runs every cut of generated encodings through a read(n)-only source",
         "machine-checked proof (Coq) + correspondence over all cut points", "4 C06"),
 "C08": ("instance theorem c08_shipped over the translated schema (header rule written from Kafka's ApiMessageTypeGenerator, pairing through the Gallina model of kio.index), exhaustive over all request/response classes by vm_compute; kio.index pairing functions compared with the model on every class",
         "Coq instance theorem by vm_compute over translator output + correspondence", "4 C08"),
 "C09": ("instance theorem c09_shipped (every top-level class listed under exactly module:qualname, no stale entry, key<->name one-to-one) by vm_compute; loaders compared with the Gallina index model on all entries, near-misses and random lookups",
         "Coq instance theorem by vm_compute over translator output + correspondence", "4 C09"),
 "C10": ("Coq theorems c10_outcomes / c10_returned_value_reencodes: for every byte string decoding returns a typed (re-encodable) value with a suffix remainder or fails with a permitted error class, never out of loop fuel; correspondence on mutated encodings of every class",
         "machine-checked proof (Coq) + correspondence on malformed inputs", "4 C10"),
 "C14": ("instance theorem c14_shipped (module/class attribute agreement, contiguous versions, monotone flexibility, constant and unique keys, request/response version sets equal) by vm_compute over all 666 modules; cross-checked by a direct evaluation on the imported classes",
         "Coq instance theorem by vm_compute over translator output", "4 C14"),
}

NOT_YET = {
 "C02": "check under construction in this session (WireSpec model not yet proved); will be claimed when built",
 "C03": "check under construction in this session (conforming-encoding model not yet proved)",
 "C04": "check under construction in this session (pinned schema + generator run)",
 "C05": "check under construction in this session",
 "C07": "check under construction in this session (theorems proved in Props/C07.v, correspondence harness pending)",
 "C11": "check under construction in this session (primitive theorems proved, harness pending)",
 "C12": "check under construction in this session",
 "C13": "check under construction in this session (instance theorem exists, correspondence pending)",
 "C15": "check under construction in this session",
 "C16": "check under construction in this session",
 "C17": "check under construction in this session (theorems proved in Records/BatchProofs.v, harness pending)",
 "C18": "check under construction in this session (theorems proved in Records/BatchProofs.v, harness pending)",
 "C19": "check under construction in this session",
}

NOTE = ("Trusted base: Coq 8.16.1 kernel + VM (vm_compute; no native_compute); harness/translate.py; the correspondence "
        "harness (value printers, exception-class mapping); CPython library semantics transcribed by the model. "
        "No axioms: every Print Assumptions is 'Closed under the global context' (reported per run in the evidence).")


def main():
    checks = []
    for pid, (text, tech, ref) in sorted(CLAIMED.items()):
        checks.append({
            "property_id": pid,
            "quick_cmd": f"./check {pid} --tier quick",
            "thorough_cmd": f"./check {pid} --tier thorough",
            "evidence_file": f"evidence/{pid}.json",
            "replay_cmd_template": f"./check {pid} --replay {{path}}",
            "engine": "coq",
            "level_claimed": {"category": "proof", "text": text, "design_ref": f"DESIGN.md section {ref}"},
            "level_note": NOTE,
            "technique": tech,
        })
    m = {
        "version": 1,
        "setup_cmd": "cd /verif && ./setup.sh",
        "hooks": {"guard": "KIO_VERIF", "enable": "no hooks needed: checks drive the public API of /repo/src directly (PYTHONPATH=/repo/src)",
                  "baseline_off_cmd": "cd /repo && /venv/bin/python -m pytest -ra -q -p no:cacheprovider --timeout=900 --continue-on-collection-errors",
                  "source_commits": [], "add_only": True},
        "engines": [{"name": "coq", "path": "coq/", "serves_properties": sorted(CLAIMED),
                     "kind_free_text": "Coq 8.16.1 development (KioV) + per-tree generated instance data (KioG) + Python correspondence harness"}],
        "checks": checks,
        "not_applicable": [{"property_id": k, "reason": v} for k, v in sorted(NOT_YET.items()) if k not in CLAIMED],
        "notes": "see DESIGN.md; known_findings.json lists repaired defects (fix: commits in /repo) and recorded findings",
    }
    (V / "MANIFEST.json").write_text(json.dumps(m, indent=1) + "\n")


if __name__ == "__main__":
    main()
