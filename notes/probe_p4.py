import io, sys
sys.path.insert(0,'/repo')
from tests.fixtures import record_batch_data_v2
from kio.records.readers import read_batch
from kio.records.writers import write_batch
for d in record_batch_data_v2:
    b=read_batch(io.BytesIO(bytes(d)))
    o=io.BytesIO(); write_batch(o,b)
    print(o.getvalue()==bytes(d), b.base_timestamp, [r.timestamp for r in b.records], b.max_timestamp)
    if o.getvalue()!=bytes(d):
        print(bytes(d).hex()); print(o.getvalue().hex())
