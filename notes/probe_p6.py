import sys
sys.path.insert(0,'/repo')
from codegen.introspect_schema import get_entities
from kio.serial._introspect import *
from dataclasses import fields
ents=[e for e,_ in get_entities()]
import functools
@functools.cache
def minsize(e):
    s=0
    for f in fields(e):
        if 'tag' in f.metadata: continue
        fc=classify_field(f)
        if fc.is_array: s+= 1 if e.__flexible__ else 4
        elif isinstance(fc, EntityField): s+= 1 if is_optional(f) else minsize(fc.type_)
        else:
            kt=f.metadata['kafka_type']
            s+={'int8':1,'int16':2,'int32':4,'int64':8,'uint8':1,'uint16':2,'uint32':4,'uint64':8,'float64':8,'uuid':16,'bool':1,'error_code':2,'timedelta_i32':4,'timedelta_i64':8,'datetime_i64':8}.get(kt) or ((1 if e.__flexible__ else (2 if kt=='string' else 4)))
    if e.__flexible__: s+=1
    return s
zero=[e for e in ents if minsize(e)==0]
print(len(zero)); 
for e in zero: print(e.__module__, e.__name__, e.__type__)
# array item classes
items=set()
for e in ents:
    for f in fields(e):
        fc=classify_field(f)
        if isinstance(fc, EntityTupleField): items.add(fc.type_)
print(len(items), min(minsize(i) for i in items))
print([ (i.__module__,i.__name__) for i in items if minsize(i)==0])
# request header classes
print([e.__module__ for e in ents if e.__name__=="RequestHeader"])
# nesting depth
@functools.cache
def depth(e):
    d=0
    for f in fields(e):
        fc=classify_field(f)
        if isinstance(fc,(EntityField,EntityTupleField)): d=max(d,1+depth(fc.type_))
    return d
print(max(depth(e) for e in ents))
