(* Design-phase spike (not part of the framework): readers as programs over one effect,
   and the truncation metatheorem that C06 rests on. *)
From Coq Require Import ZArith List Lia Bool.
Import ListNotations.
Open Scope Z_scope.

Inductive err := EUnderflow | EOther.
Inductive res (A : Type) := Ok (a : A) | Err (e : err).
Arguments Ok {A}. Arguments Err {A}.

Inductive prog (A : Type) :=
| Ret (a : A)
| Fail (e : err)
| Read (n : Z) (k : list Z -> prog A).
Arguments Ret {A}. Arguments Fail {A}. Arguments Read {A}.

Fixpoint run {A} (p : prog A) (bs : list Z) : res (A * list Z) :=
  match p with
  | Ret a => Ok (a, bs)
  | Fail e => Err e
  | Read n k =>
      if (n <? 0) || (Z.of_nat (length bs) <? n) then Err EUnderflow
      else run (k (firstn (Z.to_nat n) bs)) (skipn (Z.to_nat n) bs)
  end.

Fixpoint bind {A B} (p : prog A) (f : A -> prog B) : prog B :=
  match p with
  | Ret a => f a
  | Fail e => Fail e
  | Read n k => Read n (fun b => bind (k b) f)
  end.

Lemma run_bind {A B} (p : prog A) (f : A -> prog B) bs :
  run (bind p f) bs = match run p bs with Ok (a, r) => run (f a) r | Err e => Err e end.
Proof.
  revert bs. induction p as [a|e|n k IH]; intros bs; cbn [bind run]; try reflexivity.
  destruct ((n <? 0) || (Z.of_nat (length bs) <? n)); [reflexivity|]. apply IH.
Qed.

(* residue is a suffix of the input *)
Lemma run_suffix {A} (p : prog A) : forall bs a r,
  run p bs = Ok (a, r) -> exists c, bs = c ++ r.
Proof.
  induction p as [a0|e|n k IH]; intros bs a r H; cbn [run] in H.
  - inversion H; subst. exists []. reflexivity.
  - discriminate.
  - destruct ((n <? 0) || (Z.of_nat (length bs) <? n)) eqn:E; [discriminate|].
    apply IH in H. destruct H as [c Hc].
    exists (firstn (Z.to_nat n) bs ++ c). rewrite <- app_assoc, <- Hc. symmetry. apply firstn_skipn.
Qed.

Theorem run_prefix_underflow {A} (p : prog A) : forall c tl a,
  run p (c ++ tl) = Ok (a, tl) ->
  forall k, (k < length c)%nat -> run p (firstn k c) = Err EUnderflow.
Proof.
  induction p as [a0|e|n kont IH]; intros c tl a H k Hk; cbn [run] in H |- *.
  - inversion H as [[Ha Hc]].
    assert (length (c ++ tl) = length tl) by (rewrite Hc; reflexivity).
    rewrite app_length in H0. lia.
  - discriminate.
  - destruct ((n <? 0) || (Z.of_nat (length (c ++ tl)) <? n)) eqn:E; [discriminate|].
    apply orb_false_iff in E. destruct E as [E1 E2].
    apply Z.ltb_ge in E1. apply Z.ltb_ge in E2.
    set (m := Z.to_nat n) in *.
    (* n <= length c, because tl is a suffix of what remains after the read *)
    pose proof (run_suffix _ _ _ _ H) as [c' Hc'].
    assert (Hlen: (m <= length c)%nat).
    { assert (length (skipn m (c ++ tl)) = length (c' ++ tl)) by (rewrite Hc'; reflexivity).
      rewrite skipn_length, !app_length in H0. rewrite app_length in E2. unfold m. lia. }
    rewrite firstn_app, skipn_app in H.
    replace (m - length c)%nat with 0%nat in H by lia. cbn [firstn skipn] in H.
    rewrite app_nil_r in H.
    destruct (Nat.ltb_spec k m) as [Hkm|Hkm].
    + (* the cut falls inside this read *)
      replace ((n <? 0) || (Z.of_nat (length (firstn k c)) <? n)) with true; [reflexivity|].
      symmetry. apply orb_true_iff. right. apply Z.ltb_lt.
      rewrite firstn_length. unfold m in Hkm. lia.
    + replace ((n <? 0) || (Z.of_nat (length (firstn k c)) <? n)) with false.
      2:{ symmetry. apply orb_false_iff. split; [apply Z.ltb_ge; lia|].
          apply Z.ltb_ge. rewrite firstn_length. unfold m in Hkm. lia. }
      fold m.
      assert (Hf: firstn m (firstn k c) = firstn m c).
      { rewrite firstn_firstn. f_equal. lia. }
      assert (Hs: skipn m (firstn k c) = firstn (k - m) (skipn m c)).
      { apply skipn_firstn_comm. }
      rewrite Hf, Hs. eapply IH; [exact H|].
      rewrite skipn_length. lia.
Qed.
Print Assumptions run_prefix_underflow.
