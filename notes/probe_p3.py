import io, sys
from kio.serial import entity_reader, entity_writer
from kio.schema.response_header.v1.header import ResponseHeader
from kio.schema.fetch.v12.request import FetchRequest
from kio.schema.fetch.v15.request import FetchRequest as F15, ReplicaState
from kio.static.primitive import *
import datetime
# unknown tag
b = bytes([0,0,0,5, 1, 7, 2, 0xAA,0xBB])
try:
    print(entity_reader(ResponseHeader)(io.BytesIO(b)))
except Exception as e: print(type(e).__name__, repr(e))
w=entity_writer(FetchRequest)
r=FetchRequest(cluster_id=None, replica_id=-1, max_wait=datetime.timedelta(milliseconds=5), min_bytes=1, topics=(), forgotten_topics_data=(), rack_id="")
o=io.BytesIO(); w(o,r); print(o.getvalue().hex())
r2=dataclasses_replace=None
import dataclasses
o=io.BytesIO(); w(o,dataclasses.replace(r, cluster_id="ab")); print(o.getvalue().hex())
good=o.getvalue()
# explicit null cluster id: tags: count 1, tag 0, size 1, 00
base=bytes.fromhex(io.BytesIO().getvalue().hex())
o=io.BytesIO(); w(o,r); enc=o.getvalue()
enc2=enc[:-1]+bytes([1,0,1,0])
try: print(entity_reader(FetchRequest)(io.BytesIO(enc2)))
except Exception as e: print(type(e).__name__, repr(e))
# explicit default "" for rack? not tagged. wrong size prefix
enc3=good[:-1]  # truncated
print(good.hex())
# size mismatch: tagged size says 5 but actual 3
g=bytearray(good); i=len(enc)-1; print(g[i:].hex())
g[i+2]=9
try: print(entity_reader(FetchRequest)(io.BytesIO(bytes(g))))
except Exception as e: print(type(e).__name__, repr(e))
