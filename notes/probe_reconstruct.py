import sys, collections, dataclasses
sys.path.insert(0,'/repo')
from codegen.introspect_schema import get_entities
from kio.serial._introspect import *
from dataclasses import fields, MISSING
ents=[e for e,_ in get_entities()]
fam=collections.defaultdict(dict)   # (api, type) -> version -> {classname: class}
for e in ents:
    parts=e.__module__.split('.')
    api, ver, typ = parts[2], int(parts[3][1:]), parts[4]
    fam[(api,typ)].setdefault(ver,{})[e.__name__]=e
def desc(f,e):
    fc=classify_field(f)
    kind=type(fc).__name__
    inner = getattr(fc.type_, "__name__", str(fc.type_))
    return (kind, inner, f.metadata.get('kafka_type'))
problems=collections.Counter()
examples={}
for (api,typ),vers in fam.items():
    vs=sorted(vers)
    if vs!=list(range(vs[0],vs[-1]+1)): problems['noncontig_versions']+=1
    # per struct name
    names=set(n for v in vs for n in vers[v])
    for n in names:
        pres=[v for v in vs if n in vers[v]]
        if pres!=list(range(pres[0],pres[-1]+1)): problems['struct_noncontig']+=1; examples['struct_noncontig']=(api,typ,n,pres)
        # fields
        finfo=collections.defaultdict(dict)
        orders=[]
        for v in pres:
            c=vers[v][n]
            orders.append([f.name for f in fields(c)])
            for f in fields(c):
                finfo[f.name][v]=(desc(f,c), is_optional(f), f.metadata.get('tag'), None if f.default is MISSING else repr(f.default))
        # order consistency: build precedence graph
        prec=set()
        for o in orders:
            for i,a in enumerate(o):
                for b in o[i+1:]: prec.add((a,b))
        for (a,b) in list(prec):
            if (b,a) in prec: problems['order_conflict']+=1; examples['order_conflict']=(api,typ,n,a,b); break
        for fn,byv in finfo.items():
            fv=sorted(byv)
            if fv!=list(range(fv[0],fv[-1]+1)): problems['field_noncontig']+=1; examples['field_noncontig']=(api,typ,n,fn,fv)
            if len(set(x[0] for x in byv.values()))>1: problems['type_changes']+=1; examples['type_changes']=(api,typ,n,fn,{v:x[0] for v,x in byv.items()})
            if len(set(x[3] for x in byv.values()))>1: problems['default_changes']+=1; examples.setdefault('default_changes',[]).append((api,typ,n,fn,{v:x[3] for v,x in byv.items()}))
            tags=[v for v in fv if byv[v][2] is not None]
            if tags and tags!=list(range(tags[0],tags[-1]+1)): problems['tag_noncontig']+=1
            if len(set(byv[v][2] for v in tags))>1: problems['tag_changes']+=1
            nul=[v for v in fv if byv[v][1]]
            if nul and nul!=list(range(nul[0],nul[-1]+1)): problems['null_noncontig']+=1; examples['null_noncontig']=(api,typ,n,fn,nul)
print(len(fam), problems)
for k,v in examples.items():
    print(k, v if not isinstance(v,list) else v[:6])
