import sys, collections, dataclasses
sys.path.insert(0,'/repo')
from codegen.introspect_schema import get_entities
from kio.serial._introspect import *
from kio.serial import entity_reader, entity_writer
from dataclasses import fields, MISSING
ents=[e for e,_ in get_entities()]
print(len(ents))
c=collections.Counter(); tagged=collections.Counter()
types=collections.Counter()
for e in ents:
    types[e.__type__.name]+=1
    for f in fields(e):
        fc=classify_field(f)
        kt=f.metadata.get('kafka_type')
        tag=f.metadata.get('tag')
        opt=is_optional(f)
        d = 'nodef' if f.default is MISSING else ('None' if f.default is None else ('()' if f.default==() else type(f.default).__name__))
        key=(type(fc).__name__, kt, e.__flexible__, opt, tag is not None, d)
        c[key]+=1
        if tag is not None: tagged[(type(fc).__name__, kt, opt, d, str(f.type))]+=1
for k,v in sorted(c.items(), key=str): print(v,k)
print('--- tagged')
for k,v in sorted(tagged.items(), key=str): print(v,k)
print(types)
# can derive reader/writer for all?
bad=0
for e in ents:
    try: entity_reader(e); entity_writer(e)
    except Exception as ex: bad+=1; print(e, ex)
print('bad',bad)
