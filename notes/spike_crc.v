(* Design-phase spike (not part of the framework): the CRC-32C bit step is GF(2)-linear,
   zero-injective and range-preserving; this is what crc_single_bit will rest on. *)
From Coq Require Import ZArith List Lia Bool.
Open Scope Z_scope.
Definition P := 0x82F63B78.
Definition f (c : Z) : Z := Z.lxor (Z.shiftr c 1) (if Z.odd c then P else 0).

Lemma f_lin a b : f (Z.lxor a b) = Z.lxor (f a) (f b).
Proof.
  unfold f. rewrite Z.shiftr_lxor.
  replace (Z.odd (Z.lxor a b)) with (xorb (Z.odd a) (Z.odd b)).
  2:{ rewrite <- !Z.bit0_odd. rewrite Z.lxor_spec. reflexivity. }
  destruct (Z.odd a), (Z.odd b); cbn [xorb];
    rewrite ?Z.lxor_0_r, ?Z.lxor_0_l.
  - rewrite Z.lxor_assoc. rewrite <- (Z.lxor_assoc P). rewrite (Z.lxor_comm P (Z.shiftr b 1)).
    rewrite Z.lxor_assoc. rewrite Z.lxor_nilpotent, Z.lxor_0_r. reflexivity.
  - rewrite !Z.lxor_assoc. f_equal. apply Z.lxor_comm.
  - rewrite Z.lxor_assoc. reflexivity.
  - reflexivity.
Qed.

Lemma f_inj0 c : 0 <= c < 2^32 -> f c = 0 -> c = 0.
Proof.
  intros Hc Hf. unfold f in Hf.
  destruct (Z.odd c) eqn:Ho.
  - exfalso. apply Z.lxor_eq in Hf.
    assert (Z.shiftr c 1 < 2^31).
    { rewrite Z.shiftr_div_pow2 by lia. apply Z.div_lt_upper_bound; lia. }
    unfold P in Hf. lia.
  - rewrite Z.lxor_0_r in Hf. rewrite Z.shiftr_div_pow2 in Hf by lia.
    assert (He: Z.even c = true) by (rewrite <- Z.negb_odd, Ho; reflexivity).
    apply Z.even_spec in He. destruct He as [k Hk]. subst c.
    change (2^1) with 2 in Hf. rewrite Z.mul_comm, Z.div_mul in Hf by lia. lia.
Qed.

Lemma f_range c : 0 <= c < 2^32 -> 0 <= f c < 2^32.
Proof.
  intros Hc. unfold f.
  assert (H1: 0 <= Z.shiftr c 1 < 2^31).
  { rewrite Z.shiftr_div_pow2 by lia. split; [apply Z.div_pos; lia| apply Z.div_lt_upper_bound; lia]. }
  destruct (Z.odd c).
  - split. apply Z.lxor_nonneg; unfold P; lia.
    destruct (Z.eq_dec (Z.lxor (Z.shiftr c 1) P) 0) as [->|Hn]; [lia|].
    apply Z.log2_lt_pow2.
    + assert (0 <= Z.lxor (Z.shiftr c 1) P) by (apply Z.lxor_nonneg; unfold P; lia). lia.
    + eapply Z.le_lt_trans. apply Z.log2_lxor; unfold P; lia.
      apply Z.max_lub_lt.
      * destruct (Z.eq_dec (Z.shiftr c 1) 0) as [->|]; [simpl; lia|]. apply Z.log2_lt_pow2; lia.
      * unfold P. reflexivity.
  - rewrite Z.lxor_0_r. lia.
Qed.
Print Assumptions f_inj0.
