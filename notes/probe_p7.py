import io, datetime, struct
from crc32c import crc32c
from kio.records.schema import *
from kio.records.writers import write_batch
from kio.records.readers import read_batch
from kio.static.primitive import *
def mk(hv):
    nb=NewRecordBatch(producer_id=i64(1),producer_epoch=i16(0),base_sequence=i32(0),attributes=i16(0),
      records=(Record(attributes=i8(0),timestamp=datetime.datetime(2020,1,1,tzinfo=datetime.UTC),offset=i64(5),key=b"k",value=b"v",headers=(RecordHeader(key=b"h",value=hv),)),))
    o=io.BytesIO(); write_batch(o,nb); return o.getvalue()
# find 4 trailing bytes X s.t. crc(Q+X) == crc(Q)  (Q = post-crc region minus last 4 bytes)
base=mk(b"AAAA"+b"\0\0\0\0")
Q=base[21:-4]
target=crc32c(Q)
# forcing: crc32c(Q+X)=target. Use linearity: brute force via table inversion
# compute by solving: state after Q is s = ~crc(Q) ... simple approach: meet via standard reverse algorithm
poly=0x82F63B78
tbl=[]
for i in range(256):
    c=i
    for _ in range(8): c=(c>>1)^(poly if c&1 else 0)
    tbl.append(c)
rev={t>>24:i for i,t in enumerate(tbl)}
def force(prefix_crc_state, target_state):
    # find 4 bytes taking register from prefix state to target state
    # backwards
    s=target_state
    idx=[]
    for _ in range(4):
        i=rev[s>>24]
        idx.append(i)
        s=((s^tbl[i])<<8)&0xffffffff
    # now forward to determine bytes
    idx=idx[::-1]
    reg=prefix_crc_state; out=[]
    for i in idx:
        b=(reg^i)&0xff
        out.append(b)
        reg=(reg>>8)^tbl[i]
    # fix low bits unknown: recompute properly
    return bytes(out)
pre=crc32c(Q)^0xffffffff
X=force(pre, target^0xffffffff)
print(X.hex(), hex(crc32c(Q+X)), hex(target))
full=mk(b"AAAA"+X)
assert full[21:-4]==Q, "layout"
print(read_batch(io.BytesIO(full)).records[0].headers)
trunc=full[:-4]
try:
    b=read_batch(io.BytesIO(trunc)); print("TRUNCATED ACCEPTED:", b.records[0].headers, b.batch_length, len(trunc)-12)
except Exception as e: print("rejected", type(e).__name__, e)
