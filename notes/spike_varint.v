(* Design-phase spike (not part of the framework): generalised unsigned-varint round trip. *)
From Coq Require Import ZArith List Lia Bool.
Import ListNotations.
Open Scope Z_scope.

Fixpoint wv (fuel : nat) (v : Z) : list Z :=
  match fuel with
  | O => [Z.land v 127]
  | S f => if Z.eqb (Z.shiftr v 7) 0 then [Z.land v 127]
           else Z.lor 128 (Z.land v 127) :: wv f (Z.shiftr v 7)
  end.

Inductive res (A : Type) := Ok (a : A) | Underflow | TooLong.
Arguments Ok {A}. Arguments Underflow {A}. Arguments TooLong {A}.

Fixpoint rv (n : nat) (shift : Z) (acc : Z) (bs : list Z) : res (Z * list Z) :=
  match n with
  | O => TooLong
  | S n' => match bs with
            | [] => Underflow
            | b :: tl => let acc' := Z.lor acc (Z.shiftl (Z.land b 127) shift) in
                         if Z.eqb (Z.land b 128) 0 then Ok (acc', tl)
                         else rv n' (shift + 7) acc' tl
            end
  end.

Lemma land127 v : Z.land v 127 = v mod 128.
Proof. change 127 with (Z.ones 7). rewrite Z.land_ones by lia. reflexivity. Qed.

Lemma split7 v : 0 <= v -> v = Z.lor (Z.land v 127) (Z.shiftl (Z.shiftr v 7) 7).
Proof.
  intros Hv. apply Z.bits_inj'. intros n Hn.
  rewrite Z.lor_spec. change 127 with (Z.ones 7).
  destruct (Z.ltb_spec n 7).
  - rewrite Z.land_spec, Z.ones_spec_low by lia.
    rewrite (Z.shiftl_spec_low (Z.shiftr v 7) 7 n) by lia.
    rewrite andb_true_r, orb_false_r. reflexivity.
  - rewrite Z.land_spec, Z.ones_spec_high by lia. rewrite andb_false_r. rewrite orb_false_l.
    rewrite Z.shiftl_spec by lia. rewrite Z.shiftr_spec by lia. f_equal. lia.
Qed.

Lemma small_land128 v : 0 <= v < 128 -> Z.land v 128 = 0.
Proof.
  intros Hv. apply Z.bits_inj'. intros k Hk. rewrite Z.land_spec, Z.bits_0.
  destruct (Z.eqb_spec k 7).
  - subst. rewrite (Z.bits_above_log2 v 7); [reflexivity|lia|].
    destruct (Z.eqb_spec v 0); [subst; simpl; lia|]. apply Z.log2_lt_pow2; lia.
  - change 128 with (2^7). rewrite Z.pow2_bits_false by lia. apply andb_false_r.
Qed.

Lemma rv_wv : forall fuel v n shift acc tl,
  0 <= v -> 0 <= shift -> v < 2 ^ (7 * Z.of_nat fuel + 7) -> (fuel < n)%nat ->
  rv n shift acc (wv fuel v ++ tl) = Ok (Z.lor acc (Z.shiftl v shift), tl).
Proof.
  induction fuel as [|f IH]; intros v n shift acc tl Hv Hs Hb Hn.
  - destruct n as [|n']; [lia|]. cbn [wv rv app].
    assert (Hlt: v < 128) by (change 128 with (2^7); simpl in Hb; lia).
    assert (Hl: Z.land v 127 = v) by (rewrite land127; apply Z.mod_small; lia).
    rewrite Hl. rewrite (small_land128 v) by lia. rewrite ?Hl. reflexivity.
  - destruct n as [|n']; [lia|]. cbn [wv].
    destruct (Z.eqb_spec (Z.shiftr v 7) 0) as [Hz|Hnz].
    + cbn [rv app].
      assert (Hlt: v < 128).
      { rewrite Z.shiftr_div_pow2 in Hz by lia. change (2^7) with 128 in Hz.
        pose proof (Z.div_mod v 128). pose proof (Z.mod_pos_bound v 128). lia. }
      assert (Hl: Z.land v 127 = v) by (rewrite land127; apply Z.mod_small; lia).
      rewrite !Hl. rewrite (small_land128 v) by lia. rewrite ?Hl. reflexivity.
    + cbn [rv app].
      set (c := Z.land v 127).
      assert (Hc: 0 <= c < 128) by (unfold c; rewrite land127; apply Z.mod_pos_bound; lia).
      assert (H1: Z.land (Z.lor 128 c) 127 = c).
      { apply Z.bits_inj'. intros k Hk. rewrite Z.land_spec, Z.lor_spec.
        change 127 with (Z.ones 7). destruct (Z.ltb_spec k 7).
        - rewrite Z.ones_spec_low by lia. change 128 with (2^7). rewrite Z.pow2_bits_false by lia.
          simpl. apply andb_true_r.
        - rewrite Z.ones_spec_high by lia. rewrite andb_false_r.
          symmetry. apply Z.bits_above_log2; [lia|].
          destruct (Z.eqb_spec c 0) as [->|]; [simpl; lia|].
          apply Z.lt_le_trans with 7; [apply Z.log2_lt_pow2; lia|lia]. }
      assert (H2: Z.land (Z.lor 128 c) 128 <> 0).
      { intro H. assert (H0: Z.testbit (Z.land (Z.lor 128 c) 128) 7 = false) by (rewrite H; apply Z.bits_0).
        rewrite Z.land_spec, Z.lor_spec in H0. change 128 with (2^7) in H0.
        rewrite Z.pow2_bits_true in H0 by lia. simpl in H0. discriminate. }
      rewrite H1. destruct (Z.eqb_spec (Z.land (Z.lor 128 c) 128) 0); [contradiction|].
      rewrite IH; try lia.
      * f_equal. f_equal. rewrite <- Z.lor_assoc. f_equal.
        assert (Hv2: Z.shiftl v shift = Z.lor (Z.shiftl c shift) (Z.shiftl (Z.shiftr v 7) (shift+7))).
        { rewrite (split7 v Hv) at 1. fold c. rewrite Z.shiftl_lor, Z.shiftl_shiftl by lia.
          f_equal. f_equal. lia. }
        rewrite Hv2. reflexivity.
      * apply Z.shiftr_nonneg; lia.
      * rewrite Z.shiftr_div_pow2 by lia. apply Z.div_lt_upper_bound; [lia|].
        rewrite <- Z.pow_add_r by lia.
        replace (7 + (7 * Z.of_nat f + 7)) with (7 * Z.of_nat (S f) + 7) by lia. exact Hb.
Qed.
Print Assumptions rv_wv.
