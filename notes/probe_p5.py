import datetime, random
E=datetime.datetime(1970,1,1,tzinfo=datetime.UTC)
bad=[]
for ms in list(range(0,5000))+[random.randrange(0,253402300799999) for _ in range(200000)]:
    dt=E+datetime.timedelta(milliseconds=ms)
    if int(dt.timestamp()*1000)!=ms: bad.append(ms)
print(len(bad), bad[:10])
bad2=[]
for ms in list(range(0,5000))+[random.randrange(0,253402300799999) for _ in range(200000)]:
    dt=E+datetime.timedelta(milliseconds=ms)
    if round(dt.timestamp()*1000)!=ms: bad2.append(ms)
print(len(bad2), bad2[:10])
