(* Design-phase spike (not part of the framework): do the planned definitions type-check and
   run?  A cut-down plan interpreter: int32, compact string, compact arrays, nested entities,
   tagged section, written as reader programs over Read and as chunk-producing writers. *)
From Coq Require Import ZArith List Lia Bool.
Import ListNotations.
Open Scope Z_scope.

Inductive err := EUnderflow | EUnexpectedNull | EValue | EKey | EType | EOutOfGas.
Inductive res (A : Type) := Ok (a : A) | Err (e : err).
Arguments Ok {A}. Arguments Err {A}.

Inductive prog (A : Type) := Ret (a : A) | Fail (e : err) | Read (n : Z) (k : list Z -> prog A).
Arguments Ret {A}. Arguments Fail {A}. Arguments Read {A}.
Fixpoint run {A} (p : prog A) (bs : list Z) : res (A * list Z) :=
  match p with
  | Ret a => Ok (a, bs) | Fail e => Err e
  | Read n k => if (n <? 0) || (Z.of_nat (length bs) <? n) then Err EUnderflow
                else run (k (firstn (Z.to_nat n) bs)) (skipn (Z.to_nat n) bs)
  end.
Fixpoint bind {A B} (p : prog A) (f : A -> prog B) : prog B :=
  match p with Ret a => f a | Fail e => Fail e | Read n k => Read n (fun b => bind (k b) f) end.
Notation "x <- p ;; q" := (bind p (fun x => q)) (at level 61, p at next level, right associativity).

Inductive value := VNull | VInt (z : Z) | VStr (b : list Z) | VArr (l : list value) | VEnt (l : list value).

(* primitives *)
Definition be_val (bs : list Z) : Z := fold_left (fun a b => a * 256 + b) bs 0.
Definition read_int32 : prog Z :=
  Read 4 (fun b => let u := be_val b in Ret (if u <? 2^31 then u else u - 2^32)).
Fixpoint read_uvarint_aux (n : nat) (shift acc : Z) : prog Z :=
  match n with
  | O => Fail EValue
  | S n' => Read 1 (fun b => let x := hd 0 b in
              let acc' := Z.lor acc (Z.shiftl (Z.land x 127) shift) in
              if Z.land x 128 =? 0 then Ret acc' else read_uvarint_aux n' (shift + 7) acc')
  end.
Definition read_uvarint := read_uvarint_aux 5 0 0.
Definition read_compact_string (nullable : bool) : prog value :=
  n <- read_uvarint ;;
  if n =? 0 then (if nullable then Ret VNull else Fail EUnexpectedNull)
  else Read (n - 1) (fun b => Ret (VStr b)).

Fixpoint repeat_prog {A} (fuel : nat) (count : Z) (item : prog A) : prog (list A) :=
  if count <=? 0 then Ret [] else
  match fuel with
  | O => Fail EOutOfGas
  | S f => x <- item ;; xs <- repeat_prog f (count - 1) item ;; Ret (x :: xs)
  end.

(* plans *)
Inductive codec := CInt32 | CStr (nullable : bool) | CEnt (cls : nat) | CArr (item : codec).
Record fplan := { fp_codec : codec; fp_tag : option Z; fp_default : value }.
Record cplan := { cp_flexible : bool; cp_fields : list fplan }.
Definition env := list cplan.

Fixpoint assoc {A} (k : Z) (l : list (Z * A)) : option A :=
  match l with [] => None | (k', a) :: tl => if k =? k' then Some a else assoc k tl end.

Section Dec.
  Variable E : env.
  Variable fuel : nat.                      (* S (length input): bounds every wire-driven loop *)
  Variable dec_class : nat -> prog value.   (* lower-rank classes *)

  Fixpoint dec_codec (c : codec) : prog value :=
    match c with
    | CInt32 => z <- read_int32 ;; Ret (VInt z)
    | CStr nullable => read_compact_string nullable
    | CEnt i => dec_class i
    | CArr item => n <- read_uvarint ;;
                   if n =? 0 then Ret VNull
                   else l <- repeat_prog fuel (n - 1) (dec_codec item) ;; Ret (VArr l)
    end.

  Fixpoint dec_regular (fs : list fplan) : prog (list (option value)) :=
    match fs with
    | [] => Ret []
    | f :: tl => match fp_tag f with
                 | Some _ => r <- dec_regular tl ;; Ret (None :: r)
                 | None => v <- dec_codec (fp_codec f) ;; r <- dec_regular tl ;; Ret (Some v :: r)
                 end
    end.

  Definition tagged_of (fs : list fplan) : list (Z * fplan) :=
    flat_map (fun f => match fp_tag f with Some t => [(t, f)] | None => [] end) fs.

  Definition dec_one_tag (fs : list fplan) : prog (Z * value) :=
    t <- read_uvarint ;; _ <- read_uvarint ;;
    match assoc t (tagged_of fs) with
    | None => Fail EKey                        (* today's code; after fix D1: Read size, skip *)
    | Some f => v <- dec_codec (fp_codec f) ;; Ret (t, v)
    end.

  Definition fill (fs : list fplan) (regular : list (option value)) (tags : list (Z * value)) : list value :=
    map (fun fr => match fp_tag (fst fr), snd fr with
                   | None, Some v => v
                   | Some t, _ => match assoc t (rev tags) with Some v => v | None => fp_default (fst fr) end
                   | None, None => VNull
                   end) (combine fs regular).

  Definition dec_entity (c : cplan) : prog value :=
    r <- dec_regular (cp_fields c) ;;
    if cp_flexible c then
      n <- read_uvarint ;;
      tags <- repeat_prog fuel n (dec_one_tag (cp_fields c)) ;;
      Ret (VEnt (fill (cp_fields c) r tags))
    else Ret (VEnt (fill (cp_fields c) r [])).
End Dec.

Fixpoint dec_class (E : env) (fuel : nat) (rank : nat) (i : nat) : prog value :=
  match rank with
  | O => Fail EOutOfGas
  | S r => match nth_error E i with
           | None => Fail EType
           | Some c => dec_entity fuel (dec_class E fuel r) c
           end
  end.
Definition decode (E : env) (i : nat) (bs : list Z) : res (value * list Z) :=
  run (dec_class E (S (length bs)) (S i) i) bs.

(* writers: chunk lists *)
Definition be_bytes4 (z : Z) : list Z :=
  let u := z mod 2^32 in [u / 2^24; (u / 2^16) mod 256; (u / 2^8) mod 256; u mod 256].
Fixpoint wv (fuel : nat) (v : Z) : list Z :=
  match fuel with
  | O => [Z.land v 127]
  | S f => if Z.shiftr v 7 =? 0 then [Z.land v 127] else Z.lor 128 (Z.land v 127) :: wv f (Z.shiftr v 7)
  end.
Definition uvarint (v : Z) := wv (Z.to_nat (Z.log2 v / 7)) v.

Inductive wres := WOk (b : list Z) | WErr (e : err).
Definition wbind (a : wres) (f : list Z -> wres) := match a with WOk b => f b | WErr e => WErr e end.
Fixpoint wconcat (l : list wres) : wres :=
  match l with [] => WOk [] | x :: tl => wbind x (fun a => wbind (wconcat tl) (fun b => WOk (a ++ b))) end.

Fixpoint value_eqb (a b : value) {struct a} : bool :=
  match a, b with
  | VNull, VNull => true
  | VInt x, VInt y => x =? y
  | VStr x, VStr y => if list_eq_dec Z.eq_dec x y then true else false
  | VArr x, VArr y | VEnt x, VEnt y =>
      (fix go (l1 l2 : list value) : bool :=
         match l1, l2 with
         | [], [] => true
         | p :: l1', q :: l2' => value_eqb p q && go l1' l2'
         | _, _ => false
         end) x y
  | _, _ => false
  end.

Section Enc.
  Variable enc_class : nat -> value -> wres.
  Fixpoint enc_codec (c : codec) (v : value) : wres :=
    match c, v with
    | CInt32, VInt z => if (-(2^31) <=? z) && (z <? 2^31) then WOk (be_bytes4 z) else WErr EValue
    | CStr true, VNull => WOk [0]
    | CStr _, VStr b => WOk (uvarint (Z.of_nat (length b) + 1) ++ b)
    | CEnt i, v => enc_class i v
    | CArr _, VNull => WOk [0]
    | CArr item, VArr l => wbind (wconcat (map (enc_codec item) l))
                             (fun b => WOk (uvarint (Z.of_nat (length l) + 1) ++ b))
    | _, _ => WErr EType
    end.
  Definition enc_entity (c : cplan) (v : value) : wres :=
    match v with
    | VEnt vs =>
        let fv := combine (cp_fields c) vs in
        let regular := filter (fun p => match fp_tag (fst p) with None => true | _ => false end) fv in
        let tagged := filter (fun p => match fp_tag (fst p) with
                                       | Some _ => negb (value_eqb (snd p) (fp_default (fst p)))
                                       | None => false end) fv in
        wbind (wconcat (map (fun p => enc_codec (fp_codec (fst p)) (snd p)) regular)) (fun r =>
        if cp_flexible c then
          wbind (wconcat (map (fun p => wbind (enc_codec (fp_codec (fst p)) (snd p)) (fun b =>
                    WOk (uvarint (match fp_tag (fst p) with Some t => t | None => 0 end)
                         ++ uvarint (Z.of_nat (length b)) ++ b))) tagged))   (* sorted by tag: omitted in spike *)
                (fun t => WOk (r ++ uvarint (Z.of_nat (length tagged)) ++ t))
        else WOk r)
    | _ => WErr EType
    end.
End Enc.
Fixpoint enc_class (E : env) (rank : nat) (i : nat) (v : value) : wres :=
  match rank with
  | O => WErr EOutOfGas
  | S r => match nth_error E i with None => WErr EType | Some c => enc_entity (enc_class E r) c v end
  end.
Definition encode (E : env) (i : nat) v := enc_class E (S i) i v.

(* a two-class environment: Inner {x:int32; name:str?}; Outer(flexible) {id:int32; items:[Inner]; tag0: int32 = 7} *)
Definition E0 : env :=
  [ {| cp_flexible := true; cp_fields := [ {| fp_codec := CInt32; fp_tag := None; fp_default := VNull |};
                                            {| fp_codec := CStr true; fp_tag := None; fp_default := VNull |} ] |};
    {| cp_flexible := true; cp_fields := [ {| fp_codec := CInt32; fp_tag := None; fp_default := VNull |};
                                            {| fp_codec := CArr (CEnt 0); fp_tag := None; fp_default := VNull |};
                                            {| fp_codec := CInt32; fp_tag := Some 0; fp_default := VInt 7 |} ] |} ].
Definition v0 := VEnt [VInt (-2); VArr [VEnt [VInt 1; VNull]; VEnt [VInt 300; VStr [104; 105]]]; VInt 9].
Eval vm_compute in encode E0 1%nat v0.
Eval vm_compute in match encode E0 1%nat v0 with WOk b => decode E0 1%nat (b ++ [255]) | WErr e => Err e end.
Eval vm_compute in match encode E0 1%nat v0 with WOk b => decode E0 1%nat (firstn 9 b) | WErr e => Err e end.
