import io, datetime, struct
from kio.serial import readers, writers
from kio.static.primitive import *
# timestamps
for ms in [0,1,999,1000,1500,1700000000123, 253402300799999, 253402300800000, -1, -2, 2**53, 2**63-1]:
    b = struct.pack(">q", ms)
    try:
        v = readers.read_datetime_i64(io.BytesIO(b))
        o = io.BytesIO(); writers.write_datetime_i64(o, v)
        print("ts", ms, v, struct.unpack(">q", o.getvalue())[0])
    except Exception as e:
        print("ts", ms, type(e).__name__, e)
# timedeltas
import random
bad=0
for ms in [0,1,-1,2**31-1,-2**31,2**51+1,2**52+1,2**53+1, 2**53+3, 86399999913600000, 86399999913600001, -86399999913600000, 2**63-1, -2**63, 86400000000000000-1, -86399999999999999-1]:
    b = struct.pack(">q", ms)
    try:
        v = readers.read_timedelta_i64(io.BytesIO(b))
        o = io.BytesIO(); writers.write_timedelta_i64(o, v)
        print("td", ms, v, struct.unpack(">q", o.getvalue())[0], isinstance(v, i64Timedelta))
    except Exception as e:
        print("td", ms, type(e).__name__, e)
random.seed(1)
for lo,hi in [(0,2**31),(2**31,2**45),(2**45,2**51),(2**51,2**53),(2**53,86399999913600000)]:
    bad=0
    for _ in range(20000):
        ms=random.randrange(lo,hi)
        v=datetime.timedelta(milliseconds=ms)
        if round(v.total_seconds()*1000)!=ms: bad+=1; ex=ms
    print(lo.bit_length(),hi.bit_length(),bad, ex if bad else None)
print(datetime.timedelta.max, datetime.timedelta.min, i64_timedelta_max//datetime.timedelta(milliseconds=1))
