(* Theorems stated DIRECTLY about the named public primitive functions of Prim/Public.v
   (public_write / public_read, addressed by the name of the kio.serial function they model):

     public_pairs          the table of matching (writer name, reader name, domain)
     all_names_paired      every modelled name occurs in the table
     public_roundtrip      reader after writer is the identity on the domain, with any trailing bytes
     public_write_total    the writers are total on the domain
     public_bounded        the table of (writer name, in-range predicate) for the fixed-width and
                           length-limited writers
     public_write_rejects  outside the range such a writer raises: no wrapped or truncated bytes
     public_write_rejects_class   ... with the exact error class
     public_write_accepts  ... and inside the range it succeeds (the predicate is exact)

   Nothing here is new mathematics: each table row is discharged by the codec theorems of
   Prim/BytesProofs.v, Prim/VarintProofs.v and Codec/PrimCodecProofs.v; what is new is that the
   statements are about the names the differential harness calls. *)
From Coq Require Import ZArith List Bool String Lia ZifyBool.
From KioV Require Import Base.Res Base.Prog Base.ProgProofs
  Prim.Bytes Prim.Varint Prim.Utf8 Prim.Time Prim.BytesProofs Prim.VarintProofs
  Codec.Value Codec.PrimCodec Codec.PrimCodecProofs Prim.Public.
Import ListNotations.
Open Scope string_scope.
Open Scope list_scope.
Open Scope Z_scope.

(* ------------------------------------------------------------------------------------------ *)
(* domains: boolean predicates on abstract values, parameterised by the valid error codes *)

(* an int (NOT a bool: the integer writers accept True/False like Python does, but the readers
   return an int, so the identity holds on ints only) within lo .. hi *)
Definition dom_int (lo hi : Z) : list Z -> value -> bool :=
  fun _ v => match v with VInt z => (lo <=? z) && (z <=? hi) | _ => false end.
(* what an instance may hold in a field bound to that primitive codec *)
Definition dom_prim (p : pcodec) : list Z -> value -> bool :=
  fun ec v => typed_prim ec p v.

Definition public_pairs : list (string * string * (list Z -> value -> bool)) :=
  [ ("write_boolean", "read_boolean", dom_prim PBool);
    (* fixed width, big endian *)
    ("write_int8", "read_int8", dom_int (-128) 127);
    ("write_int16", "read_int16", dom_int (-32768) 32767);
    ("write_int32", "read_int32", dom_int (-2147483648) 2147483647);
    ("write_int64", "read_int64", dom_int (-9223372036854775808) 9223372036854775807);
    ("write_uint8", "read_uint8", dom_int 0 255);
    ("write_uint16", "read_uint16", dom_int 0 65535);
    ("write_uint32", "read_uint32", dom_int 0 4294967295);
    ("write_uint64", "read_uint64", dom_int 0 18446744073709551615);
    (* varints: 0 .. 2^35-1 (5 bytes), 0 .. 2^70-1 (10 bytes), zig-zag int32 / int64 *)
    ("write_unsigned_varint", "read_unsigned_varint", dom_int 0 34359738367);
    ("write_unsigned_varlong", "read_unsigned_varlong", dom_int 0 1180591620717411303423);
    ("write_signed_varint", "read_signed_varint", dom_int (-2147483648) 2147483647);
    ("write_signed_varlong", "read_signed_varlong",
       dom_int (-9223372036854775808) 9223372036854775807);
    (* every binary64 bit pattern *)
    ("write_float64", "read_float64", dom_prim PF64);
    (* compact strings: the same two writers serve str and bytes *)
    ("write_compact_string", "read_compact_string", dom_prim (PStr true false));
    ("write_compact_string", "read_compact_string_nullable", dom_prim (PStr true false));
    ("write_nullable_compact_string", "read_compact_string_nullable", dom_prim (PStr true true));
    ("write_nullable_compact_string", "read_compact_string", dom_prim (PStr true false));
    ("write_compact_string", "read_compact_string_as_bytes", dom_prim (PBytes true false));
    ("write_compact_string", "read_compact_string_as_bytes_nullable", dom_prim (PBytes true false));
    ("write_nullable_compact_string", "read_compact_string_as_bytes_nullable",
       dom_prim (PBytes true true));
    ("write_nullable_compact_string", "read_compact_string_as_bytes", dom_prim (PBytes true false));
    (* legacy strings: int16 length, at most 32767 bytes *)
    ("write_legacy_string", "read_legacy_string", dom_prim (PStr false false));
    ("write_legacy_string", "read_nullable_legacy_string", dom_prim (PStr false false));
    ("write_nullable_legacy_string", "read_nullable_legacy_string", dom_prim (PStr false true));
    ("write_nullable_legacy_string", "read_legacy_string", dom_prim (PStr false false));
    (* legacy bytes: int32 length *)
    ("write_legacy_bytes", "read_legacy_bytes", dom_prim (PBytes false false));
    ("write_legacy_bytes", "read_nullable_legacy_bytes", dom_prim (PBytes false false));
    ("write_nullable_legacy_bytes", "read_nullable_legacy_bytes", dom_prim (PBytes false true));
    ("write_nullable_legacy_bytes", "read_legacy_bytes", dom_prim (PBytes false false));
    (* array lengths: int32; unsigned varint of n+1, so -1 .. 2^35-2 *)
    ("write_legacy_array_length", "read_legacy_array_length", dom_int (-2147483648) 2147483647);
    ("write_compact_array_length", "read_compact_array_length", dom_int (-1) 34359738366);
    ("write_uuid", "read_uuid", dom_prim PUuid);
    (* members of ErrorCode *)
    ("write_error_code", "read_error_code", dom_prim PErrorCode);
    (* whole milliseconds *)
    ("write_timedelta_i32", "read_timedelta_i32", dom_prim PTd32);
    ("write_timedelta_i64", "read_timedelta_i64", dom_prim PTd64);
    ("write_datetime_i64", "read_datetime_i64", dom_prim (PDt false));
    ("write_datetime_i64", "read_nullable_datetime_i64", dom_prim (PDt false));
    ("write_nullable_datetime_i64", "read_nullable_datetime_i64", dom_prim (PDt true));
    ("write_nullable_datetime_i64", "read_datetime_i64", dom_prim (PDt false)) ].

Example all_names_paired :
  forallb (fun n => existsb (fun p => (n ==s fst (fst p)) || (n ==s snd (fst p))) public_pairs)
          modelled_names = true.
Proof. vm_compute. reflexivity. Qed.

(* and conversely every name in the table is a modelled one *)
Example all_paired_modelled :
  forallb (fun p => existsb (String.eqb (fst (fst p))) modelled_names
                    && existsb (String.eqb (snd (fst p))) modelled_names) public_pairs = true.
Proof. vm_compute. reflexivity. Qed.

(* ------------------------------------------------------------------------------------------ *)
(* the fixed-width and length-limited writers *)
Definition int_of_value (v : value) : option Z :=
  match v with VInt z => Some z | VBool b => Some (if b then 1 else 0) | _ => None end.
(* the integer the writer is given lies within lo .. hi *)
Definition bnd_int (lo hi : Z) (v : value) : bool :=
  match int_of_value v with Some z => (lo <=? z) && (z <=? hi) | None => false end.
(* the str / bytes the writer is given has at most hi bytes (None has no length to check) *)
Definition bnd_len (hi : Z) (v : value) : bool :=
  match v with VStr b | VBytes b => zlen b <=? hi | _ => true end.

Definition public_bounded : list (string * (value -> bool)) :=
  [ ("write_int8", bnd_int (-128) 127);
    ("write_int16", bnd_int (-32768) 32767);
    ("write_int32", bnd_int (-2147483648) 2147483647);
    ("write_int64", bnd_int (-9223372036854775808) 9223372036854775807);
    ("write_uint8", bnd_int 0 255);
    ("write_uint16", bnd_int 0 65535);
    ("write_uint32", bnd_int 0 4294967295);
    ("write_uint64", bnd_int 0 18446744073709551615);
    ("write_legacy_array_length", bnd_int (-2147483648) 2147483647);
    ("write_compact_array_length", bnd_int (-1) 34359738366);
    ("write_legacy_string", bnd_len 32767);
    ("write_nullable_legacy_string", bnd_len 32767);
    ("write_legacy_bytes", bnd_len 2147483647);
    ("write_nullable_legacy_bytes", bnd_len 2147483647);
    ("write_compact_string", bnd_len 34359738366);
    ("write_nullable_compact_string", bnd_len 34359738366) ].

(* the value has a constructor the writer accepts at all (anything else is a TypeError) *)
Definition shape_of (w : string) (v : value) : bool :=
  if w ==s "write_legacy_string" then match v with VStr _ => true | _ => false end
  else if w ==s "write_nullable_legacy_string"
       then match v with VStr _ | VNull => true | _ => false end
  else if w ==s "write_legacy_bytes" then match v with VBytes _ => true | _ => false end
  else if w ==s "write_nullable_legacy_bytes"
       then match v with VBytes _ | VNull => true | _ => false end
  else if w ==s "write_compact_string"
       then match v with VStr _ | VBytes _ => true | _ => false end
  else if w ==s "write_nullable_compact_string"
       then match v with VStr _ | VBytes _ | VNull => true | _ => false end
  else match v with VInt _ | VBool _ => true | _ => false end.
Definition well_shaped (w : string) (v : value) : Prop := shape_of w v = true.

(* what is raised: struct.error by struct.pack, OutOfBoundValue by the legacy length check,
   TypeError by the uvarint(...) range check *)
Definition reject_class (w : string) : err :=
  if (w ==s "write_legacy_string") || (w ==s "write_nullable_legacy_string")
     || (w ==s "write_legacy_bytes") || (w ==s "write_nullable_legacy_bytes") then EOutOfBound
  else if (w ==s "write_compact_string") || (w ==s "write_nullable_compact_string")
          || (w ==s "write_compact_array_length") then EType
  else EStruct.

Example all_bounded_modelled :
  forallb (fun p => existsb (String.eqb (fst p)) modelled_names) public_bounded = true.
Proof. vm_compute. reflexivity. Qed.

(* ------------------------------------------------------------------------------------------ *)
Section Proofs.
Variable ec : list Z.

(* one table row: totality and round trip *)
Definition pair_ok (p : string * string * (list Z -> value -> bool)) : Prop :=
  forall v, snd p ec v = true ->
    (exists bs, public_write (fst (fst p)) v = Ok bs) /\
    (forall bs tl, public_write (fst (fst p)) v = Ok bs ->
                   run (public_read ec (snd (fst p))) (bs ++ tl) = Ok (v, tl)).

Lemma rng_eq w s lo hi z : int_lo w s = lo -> int_hi w s = hi ->
  in_int_range w s z = ((lo <=? z) && (z <=? hi)).
Proof. intros <- <-. reflexivity. Qed.

Lemma run_rint p bs z r : run p bs = Ok (z, r) -> run (rint p) bs = Ok (VInt z, r).
Proof. intros H. unfold rint. rewrite run_bind, H. reflexivity. Qed.

(* rows over a fixed-width integer codec *)
Lemma int_pair_ok w s lo hi wn rn : (0 < w)%nat -> int_lo w s = lo -> int_hi w s = hi ->
  (forall z, public_write wn (VInt z) = write_int w s z) ->
  public_read ec rn = rint (read_int w s) ->
  pair_ok (wn, rn, dom_int lo hi).
Proof.
  intros Hw Hlo Hhi Hpw Hpr v Hd. cbn [fst snd] in *. unfold dom_int in Hd.
  destruct v; try discriminate Hd.
  rewrite <- (rng_eq w s lo hi z Hlo Hhi) in Hd. rewrite Hpw, Hpr. split.
  - apply write_int_total. exact Hd.
  - intros bs tl Hb. apply run_rint. apply read_write_int; assumption.
Qed.

(* rows over an unsigned varint of at most k bytes *)
Lemma uvar_pair_ok k hi wn rn : (0 < k)%nat -> 2 ^ (7 * Z.of_nat k) - 1 = hi ->
  (forall z, public_write wn (VInt z) = write_varint z) ->
  public_read ec rn = rint (read_uvarint_n k) ->
  pair_ok (wn, rn, dom_int 0 hi).
Proof.
  intros Hk Hhi Hpw Hpr v Hd. cbn [fst snd] in *. unfold dom_int in Hd.
  destruct v; try discriminate Hd.
  apply andb_true_iff in Hd. destruct Hd as [H0 H1]. apply Z.leb_le in H0, H1.
  rewrite Hpw, Hpr. unfold write_varint.
  destruct (Z.ltb_spec z 0) as [Hn|_]; [lia|]. split; [eexists; reflexivity|].
  intros bs tl Hb. assert (bs = uvarint_bytes z) as -> by (unfold uvarint_bytes; congruence).
  apply run_rint. apply read_write_uvarint_n; [exact Hk|lia].
Qed.

(* rows over a value-level primitive codec: the domain codec d may be the non-nullable
   variant of the writer's and of the reader's codec *)
Lemma prim_pair_ok d wc rc wn rn : psub d wc = true -> psub d rc = true ->
  (forall v, typed_prim ec d v = true -> public_write wn v = enc_prim wc v) ->
  public_read ec rn = dec_prim ec rc ->
  pair_ok (wn, rn, dom_prim d).
Proof.
  intros Hsw Hsr Hpw Hpr v Hd. cbn [fst snd] in *. unfold dom_prim in Hd.
  destruct (psub_lift ec d wc v Hsw Hd) as [_ He].
  rewrite (Hpw v Hd), Hpr, He. split.
  - apply (prim_enc_total ec). exact Hd.
  - intros bs tl Hb. apply (prim_roundtrip ec d rc); assumption.
Qed.

(* the compact string writers are the compact str codec on str, the compact bytes codec on bytes *)
Lemma wsl_compact_str m n v : typed_prim ec (PStr true m) v = true ->
  write_string_like true n 2 v = enc_prim (PStr true n) v.
Proof. destruct v; cbn [typed_prim]; intros H; try discriminate H; reflexivity. Qed.
Lemma wsl_compact_bytes m n v : typed_prim ec (PBytes true m) v = true ->
  write_string_like true n 2 v = enc_prim (PBytes true n) v.
Proof. destruct v; cbn [typed_prim]; intros H; try discriminate H; reflexivity. Qed.

Lemma svarint_pair_ok :
  pair_ok ("write_signed_varint", "read_signed_varint", dom_int (-2147483648) 2147483647).
Proof.
  intros v Hd. cbn [fst snd] in *. unfold dom_int in Hd. destruct v; try discriminate Hd.
  apply andb_true_iff in Hd. destruct Hd as [H0 H1]. apply Z.leb_le in H0, H1.
  change (public_write "write_signed_varint" (VInt z)) with (write_svarint z).
  change (public_read ec "read_signed_varint") with (rint read_svarint).
  split.
  - unfold write_svarint, write_varint. pose proof (zigzag32_nonneg z).
    destruct (Z.ltb_spec (zigzag32 z) 0); [lia|]. eexists; reflexivity.
  - intros bs tl Hb. apply run_rint. apply read_write_svarint; [lia|exact Hb].
Qed.

Lemma svarlong_pair_ok :
  pair_ok ("write_signed_varlong", "read_signed_varlong",
           dom_int (-9223372036854775808) 9223372036854775807).
Proof.
  intros v Hd. cbn [fst snd] in *. unfold dom_int in Hd. destruct v; try discriminate Hd.
  apply andb_true_iff in Hd. destruct Hd as [H0 H1]. apply Z.leb_le in H0, H1.
  change (public_write "write_signed_varlong" (VInt z)) with (write_svarlong z).
  change (public_read ec "read_signed_varlong") with (rint read_svarlong).
  split.
  - unfold write_svarlong, write_varint. pose proof (zigzag64_nonneg z).
    destruct (Z.ltb_spec (zigzag64 z) 0); [lia|]. eexists; reflexivity.
  - intros bs tl Hb. apply run_rint. apply read_write_svarlong; [lia|exact Hb].
Qed.

Lemma compact_len_pair_ok :
  pair_ok ("write_compact_array_length", "read_compact_array_length", dom_int (-1) 34359738366).
Proof.
  intros v Hd. cbn [fst snd] in *. unfold dom_int in Hd. destruct v; try discriminate Hd.
  apply andb_true_iff in Hd. destruct Hd as [H0 H1]. apply Z.leb_le in H0, H1.
  change (public_write "write_compact_array_length" (VInt z)) with (write_len_compact (z + 1)).
  change (public_read ec "read_compact_array_length") with (rint read_compact_len).
  unfold write_len_compact, uvarint_hi.
  destruct (Z.leb_spec 0 (z + 1)); [|lia].
  destruct (Z.leb_spec (z + 1) (2 ^ 35 - 1)); [|lia]. cbn [andb].
  split; [eexists; reflexivity|].
  intros bs tl Hb. assert (bs = uvarint_bytes (z + 1)) as -> by congruence.
  apply run_rint. unfold read_compact_len.
  rewrite run_bind, read_write_uvarint by lia. cbn [run]. do 2 f_equal. lia.
Qed.

Ltac int_row w s := apply (int_pair_ok w s); [lia|reflexivity|reflexivity|reflexivity|reflexivity].
Ltac prim_row wc rc :=
  apply (prim_pair_ok _ wc rc); [reflexivity|reflexivity|intros; reflexivity|reflexivity].
Ltac cstr_row n rc :=
  apply (prim_pair_ok _ (PStr true n) rc);
  [reflexivity|reflexivity|intros v Hv; exact (wsl_compact_str _ n v Hv)|reflexivity].
Ltac cbytes_row n rc :=
  apply (prim_pair_ok _ (PBytes true n) rc);
  [reflexivity|reflexivity|intros v Hv; exact (wsl_compact_bytes _ n v Hv)|reflexivity].

Lemma all_pairs_ok : Forall pair_ok public_pairs.
Proof.
  unfold public_pairs.
  apply Forall_cons; [prim_row PBool PBool|].
  apply Forall_cons; [int_row 1%nat true|].
  apply Forall_cons; [int_row 2%nat true|].
  apply Forall_cons; [int_row 4%nat true|].
  apply Forall_cons; [int_row 8%nat true|].
  apply Forall_cons; [int_row 1%nat false|].
  apply Forall_cons; [int_row 2%nat false|].
  apply Forall_cons; [int_row 4%nat false|].
  apply Forall_cons; [int_row 8%nat false|].
  apply Forall_cons;
    [apply (uvar_pair_ok 5); [lia|reflexivity|reflexivity|reflexivity]|].
  apply Forall_cons;
    [apply (uvar_pair_ok 10); [lia|reflexivity|reflexivity|reflexivity]|].
  apply Forall_cons; [exact svarint_pair_ok|].
  apply Forall_cons; [exact svarlong_pair_ok|].
  apply Forall_cons; [prim_row PF64 PF64|].
  (* compact, str *)
  apply Forall_cons; [cstr_row false (PStr true false)|].
  apply Forall_cons; [cstr_row false (PStr true true)|].
  apply Forall_cons; [cstr_row true (PStr true true)|].
  apply Forall_cons; [cstr_row true (PStr true false)|].
  (* compact, bytes *)
  apply Forall_cons; [cbytes_row false (PBytes true false)|].
  apply Forall_cons; [cbytes_row false (PBytes true true)|].
  apply Forall_cons; [cbytes_row true (PBytes true true)|].
  apply Forall_cons; [cbytes_row true (PBytes true false)|].
  (* legacy, str *)
  apply Forall_cons; [prim_row (PStr false false) (PStr false false)|].
  apply Forall_cons; [prim_row (PStr false false) (PStr false true)|].
  apply Forall_cons; [prim_row (PStr false true) (PStr false true)|].
  apply Forall_cons; [prim_row (PStr false true) (PStr false false)|].
  (* legacy, bytes *)
  apply Forall_cons; [prim_row (PBytes false false) (PBytes false false)|].
  apply Forall_cons; [prim_row (PBytes false false) (PBytes false true)|].
  apply Forall_cons; [prim_row (PBytes false true) (PBytes false true)|].
  apply Forall_cons; [prim_row (PBytes false true) (PBytes false false)|].
  (* array lengths *)
  apply Forall_cons; [int_row 4%nat true|].
  apply Forall_cons; [exact compact_len_pair_ok|].
  apply Forall_cons; [prim_row PUuid PUuid|].
  apply Forall_cons; [prim_row PErrorCode PErrorCode|].
  apply Forall_cons; [prim_row PTd32 PTd32|].
  apply Forall_cons; [prim_row PTd64 PTd64|].
  apply Forall_cons; [prim_row (PDt false) (PDt false)|].
  apply Forall_cons; [prim_row (PDt false) (PDt true)|].
  apply Forall_cons; [prim_row (PDt true) (PDt true)|].
  apply Forall_cons; [prim_row (PDt true) (PDt false)|].
  apply Forall_nil.
Qed.

(* ------------------------------------------------------------------------------------------ *)
(* one row of the bounded table: outside the range the writer raises (and which class), inside
   it succeeds *)
Definition bounded_ok (p : string * (value -> bool)) : Prop :=
  forall v, well_shaped (fst p) v ->
    (snd p v = false -> public_write (fst p) v = Err (reject_class (fst p))) /\
    (snd p v = true -> exists bs, public_write (fst p) v = Ok bs).

Lemma int_bounded_ok w s lo hi wn : int_lo w s = lo -> int_hi w s = hi ->
  (forall v, shape_of wn v = match v with VInt _ | VBool _ => true | _ => false end) ->
  (forall v, public_write wn v =
             match int_of_value v with Some z => write_int w s z | None => Err EType end) ->
  reject_class wn = EStruct ->
  bounded_ok (wn, bnd_int lo hi).
Proof.
  intros Hlo Hhi Hsh Hpw Hrc v Hs. cbn [fst snd] in *. unfold well_shaped in Hs.
  rewrite Hsh in Hs. rewrite Hpw, Hrc. unfold bnd_int.
  destruct (int_of_value v) as [z|] eqn:Ez; [|destruct v; discriminate].
  rewrite <- (rng_eq w s lo hi z Hlo Hhi). split; intros H.
  - apply write_int_out_of_range. exact H.
  - apply write_int_total. exact H.
Qed.

Lemma legacy_blob_bounded w hi b : int_hi w true = hi -> int_lo w true <= 0 ->
  ((zlen b <=? hi) = false -> write_legacy_blob w b = Err EOutOfBound) /\
  ((zlen b <=? hi) = true -> exists bs, write_legacy_blob w b = Ok bs).
Proof.
  intros Hhi Hlo.
  assert (Hr : in_int_range w true (zlen b) = (zlen b <=? hi)).
  { unfold in_int_range. rewrite Hhi. assert (0 <= zlen b) by (unfold zlen; lia).
    destruct (Z.leb_spec (int_lo w true) (zlen b)); [reflexivity|lia]. }
  split; intros H.
  - unfold write_legacy_blob. rewrite Hr, H. reflexivity.
  - apply write_legacy_blob_total. rewrite Hr. exact H.
Qed.

Lemma compact_blob_bounded b :
  ((zlen b <=? 34359738366) = false -> write_compact_blob b = Err EType) /\
  ((zlen b <=? 34359738366) = true -> exists bs, write_compact_blob b = Ok bs).
Proof.
  split; intros H.
  - unfold write_compact_blob, write_len_compact, uvarint_hi.
    destruct (Z.leb_spec (zlen b + 1) (2 ^ 35 - 1)); [lia|].
    rewrite andb_false_r. reflexivity.
  - apply write_compact_blob_total. unfold uvarint_hi. lia.
Qed.

Ltac int_brow w s :=
  apply (int_bounded_ok w s);
  [reflexivity|reflexivity|intros v; destruct v; reflexivity|intros v; destruct v; reflexivity
  |reflexivity].

Lemma all_bounded_ok : Forall bounded_ok public_bounded.
Proof.
  unfold public_bounded.
  apply Forall_cons; [int_brow 1%nat true|].
  apply Forall_cons; [int_brow 2%nat true|].
  apply Forall_cons; [int_brow 4%nat true|].
  apply Forall_cons; [int_brow 8%nat true|].
  apply Forall_cons; [int_brow 1%nat false|].
  apply Forall_cons; [int_brow 2%nat false|].
  apply Forall_cons; [int_brow 4%nat false|].
  apply Forall_cons; [int_brow 8%nat false|].
  apply Forall_cons; [int_brow 4%nat true|].
  (* compact array length *)
  apply Forall_cons.
  { intros v Hs. cbn [fst snd] in *.
    change (reject_class "write_compact_array_length") with EType.
    assert (Hz : exists z, int_of_value v = Some z
                           /\ public_write "write_compact_array_length" v = write_len_compact (z + 1)).
    { destruct v; try discriminate Hs; eexists; split; reflexivity. }
    destruct Hz as [z [Ez ->]]. unfold bnd_int. rewrite Ez.
    unfold write_len_compact, uvarint_hi. split; intros H.
    - destruct (Z.leb_spec 0 (z + 1)); [|reflexivity].
      destruct (Z.leb_spec (z + 1) (2 ^ 35 - 1)); [lia|reflexivity].
    - destruct (Z.leb_spec 0 (z + 1)); [|lia].
      destruct (Z.leb_spec (z + 1) (2 ^ 35 - 1)); [|lia]. eexists; reflexivity. }
  (* legacy strings *)
  apply Forall_cons.
  { intros v Hs. cbn [fst snd] in *. destruct v; try discriminate Hs.
    exact (legacy_blob_bounded 2 32767 utf8 eq_refl ltac:(discriminate)). }
  apply Forall_cons.
  { intros v Hs. cbn [fst snd] in *. destruct v; try discriminate Hs.
    - split; [discriminate|]. intros _. eexists. reflexivity.
    - exact (legacy_blob_bounded 2 32767 utf8 eq_refl ltac:(discriminate)). }
  (* legacy bytes *)
  apply Forall_cons.
  { intros v Hs. cbn [fst snd] in *. destruct v; try discriminate Hs.
    exact (legacy_blob_bounded 4 2147483647 b eq_refl ltac:(discriminate)). }
  apply Forall_cons.
  { intros v Hs. cbn [fst snd] in *. destruct v; try discriminate Hs.
    - split; [discriminate|]. intros _. eexists. reflexivity.
    - exact (legacy_blob_bounded 4 2147483647 b eq_refl ltac:(discriminate)). }
  (* compact strings *)
  apply Forall_cons.
  { intros v Hs. cbn [fst snd] in *. destruct v; try discriminate Hs.
    - exact (compact_blob_bounded utf8).
    - exact (compact_blob_bounded b). }
  apply Forall_cons.
  { intros v Hs. cbn [fst snd] in *. destruct v; try discriminate Hs.
    - split; [discriminate|]. intros _. eexists. reflexivity.
    - exact (compact_blob_bounded utf8).
    - exact (compact_blob_bounded b). }
  apply Forall_nil.
Qed.
End Proofs.

(* ------------------------------------------------------------------------------------------ *)
(* the theorems, quantified over the tables *)

(* reader after writer is the identity on the domain, whatever follows in the buffer *)
Theorem public_roundtrip : forall ec w r dom v bs tl,
  In (w, r, dom) public_pairs -> dom ec v = true -> public_write w v = Ok bs ->
  run (public_read ec r) (bs ++ tl) = Ok (v, tl).
Proof.
  intros ec w r dom v bs tl Hin Hd Hw.
  pose proof (proj1 (Forall_forall _ _) (all_pairs_ok ec) _ Hin) as Hp.
  destruct (Hp v Hd) as [_ Hr]. apply Hr. exact Hw.
Qed.
Print Assumptions public_roundtrip.

(* the writers are total on the domain *)
Theorem public_write_total : forall ec w r dom v,
  In (w, r, dom) public_pairs -> dom ec v = true -> exists bs, public_write w v = Ok bs.
Proof.
  intros ec w r dom v Hin Hd.
  pose proof (proj1 (Forall_forall _ _) (all_pairs_ok ec) _ Hin) as Hp.
  destruct (Hp v Hd) as [Ht _]. exact Ht.
Qed.
Print Assumptions public_write_total.

(* both at once, without the hypothesis that the write succeeded *)
Corollary public_read_after_write : forall ec w r dom v tl,
  In (w, r, dom) public_pairs -> dom ec v = true ->
  exists bs, public_write w v = Ok bs /\ run (public_read ec r) (bs ++ tl) = Ok (v, tl).
Proof.
  intros ec w r dom v tl Hin Hd.
  destruct (public_write_total ec w r dom v Hin Hd) as [bs Hw].
  exists bs. split; [exact Hw|]. eapply public_roundtrip; eassumption.
Qed.
Print Assumptions public_read_after_write.

(* the fixed-width and the length-limited writers raise on a value outside their range: they
   never emit wrapped or truncated bytes *)
Theorem public_write_rejects : forall w inr v,
  In (w, inr) public_bounded -> well_shaped w v -> inr v = false ->
  exists e, public_write w v = Err e.
Proof.
  intros w inr v Hin Hs Hr.
  pose proof (proj1 (Forall_forall _ _) all_bounded_ok _ Hin) as Hp.
  destruct (Hp v Hs) as [He _]. eexists. apply He. exact Hr.
Qed.
Print Assumptions public_write_rejects.

(* ... with the class of what is raised *)
Theorem public_write_rejects_class : forall w inr v,
  In (w, inr) public_bounded -> well_shaped w v -> inr v = false ->
  public_write w v = Err (reject_class w).
Proof.
  intros w inr v Hin Hs Hr.
  pose proof (proj1 (Forall_forall _ _) all_bounded_ok _ Hin) as Hp.
  destruct (Hp v Hs) as [He _]. apply He. exact Hr.
Qed.
Print Assumptions public_write_rejects_class.

(* ... and the range predicate is exact: inside it the writer succeeds *)
Theorem public_write_accepts : forall w inr v,
  In (w, inr) public_bounded -> well_shaped w v -> inr v = true ->
  exists bs, public_write w v = Ok bs.
Proof.
  intros w inr v Hin Hs Hr.
  pose proof (proj1 (Forall_forall _ _) all_bounded_ok _ Hin) as Hp.
  destruct (Hp v Hs) as [_ Ha]. apply Ha. exact Hr.
Qed.
Print Assumptions public_write_accepts.

(* ------------------------------------------------------------------------------------------ *)
(* non-vacuity: concrete values in the domains, written and read back by computation *)
Ltac in_tbl :=
  unfold public_pairs, public_bounded; cbn [In]; repeat (first [left; reflexivity | right]).
Ltac ex := repeat match goal with |- _ /\ _ => split end;
  match goal with |- In _ _ => in_tbl | |- _ => vm_compute; reflexivity end.
Example ex_int16 :
  In ("write_int16", "read_int16", dom_int (-32768) 32767) public_pairs
  /\ dom_int (-32768) 32767 [] (VInt (-2)) = true
  /\ public_write "write_int16" (VInt (-2)) = Ok [255; 254]
  /\ run (public_read [] "read_int16") [255; 254; 7] = Ok (VInt (-2), [7]).
Proof. ex. Qed.

Example ex_unsigned_varint :
  In ("write_unsigned_varint", "read_unsigned_varint", dom_int 0 34359738367) public_pairs
  /\ dom_int 0 34359738367 [] (VInt 300) = true
  /\ public_write "write_unsigned_varint" (VInt 300) = Ok [172; 2]
  /\ run (public_read [] "read_unsigned_varint") [172; 2; 7] = Ok (VInt 300, [7]).
Proof. ex. Qed.

(* "hi" as bytes through the str writer/reader, and through the bytes reader *)
Example ex_compact_string :
  In ("write_nullable_compact_string", "read_compact_string_nullable", dom_prim (PStr true true))
     public_pairs
  /\ dom_prim (PStr true true) [] (VStr [104; 105]) = true
  /\ public_write "write_nullable_compact_string" (VStr [104; 105]) = Ok [3; 104; 105]
  /\ run (public_read [] "read_compact_string_nullable") [3; 104; 105; 7] = Ok (VStr [104; 105], [7])
  /\ dom_prim (PStr true true) [] VNull = true
  /\ public_write "write_nullable_compact_string" VNull = Ok [0]
  /\ run (public_read [] "read_compact_string_nullable") [0; 7] = Ok (VNull, [7]).
Proof. ex. Qed.

Example ex_compact_bytes :
  In ("write_compact_string", "read_compact_string_as_bytes", dom_prim (PBytes true false))
     public_pairs
  /\ dom_prim (PBytes true false) [] (VBytes [0; 255]) = true
  /\ public_write "write_compact_string" (VBytes [0; 255]) = Ok [3; 0; 255]
  /\ run (public_read [] "read_compact_string_as_bytes") [3; 0; 255; 7] = Ok (VBytes [0; 255], [7]).
Proof. ex. Qed.

Example ex_error_code :
  In ("write_error_code", "read_error_code", dom_prim PErrorCode) public_pairs
  /\ dom_prim PErrorCode [-1; 0; 3] (VInt (-1)) = true
  /\ dom_prim PErrorCode [-1; 0; 3] (VInt 2) = false
  /\ public_write "write_error_code" (VInt (-1)) = Ok [255; 255]
  /\ run (public_read [-1; 0; 3] "read_error_code") [255; 255] = Ok (VInt (-1), []).
Proof. ex. Qed.

Example ex_timedelta :
  In ("write_timedelta_i32", "read_timedelta_i32", dom_prim PTd32) public_pairs
  /\ dom_prim PTd32 [] (VDur 1500000) = true
  /\ public_write "write_timedelta_i32" (VDur 1500000) = Ok [0; 0; 5; 220]
  /\ run (public_read [] "read_timedelta_i32") [0; 0; 5; 220] = Ok (VDur 1500000, []).
Proof. ex. Qed.

(* the domains of the varint rows are tight at the top: one more and the reader refuses *)
Example ex_unsigned_varint_tight :
  public_write "write_unsigned_varint" (VInt 34359738367) = Ok [255; 255; 255; 255; 127]
  /\ run (public_read [] "read_unsigned_varint") [255; 255; 255; 255; 127] = Ok (VInt 34359738367, [])
  /\ public_write "write_unsigned_varint" (VInt 34359738368) = Ok [128; 128; 128; 128; 128; 1]
  /\ run (public_read [] "read_unsigned_varint") [128; 128; 128; 128; 128; 1] = Err EValue.
Proof. ex. Qed.

(* rejection: out-of-range integers, an over-long legacy string *)
Example ex_rejects :
  In ("write_int8", bnd_int (-128) 127) public_bounded
  /\ well_shaped "write_int8" (VInt 128) /\ bnd_int (-128) 127 (VInt 128) = false
  /\ public_write "write_int8" (VInt 128) = Err EStruct
  /\ public_write "write_int8" (VInt 127) = Ok [127]
  /\ public_write "write_uint16" (VInt (-1)) = Err EStruct
  /\ public_write "write_uint64" (VInt 18446744073709551616) = Err EStruct
  /\ public_write "write_compact_array_length" (VInt (-2)) = Err EType.
Proof. ex. Qed.


Example ex_rejects_long_string :
  In ("write_legacy_string", bnd_len 32767) public_bounded
  /\ well_shaped "write_legacy_string" (VStr (repeat 97 (Z.to_nat 32768)))
  /\ bnd_len 32767 (VStr (repeat 97 (Z.to_nat 32768))) = false
  /\ public_write "write_legacy_string" (VStr (repeat 97 (Z.to_nat 32768))) = Err EOutOfBound
  /\ is_ok (public_write "write_legacy_string" (VStr (repeat 97 (Z.to_nat 32767)))) = true.
Proof. ex. Qed.
