(* Facts about base-128 varints and zig-zag. *)
From Coq Require Import ZArith List Bool Lia.
From KioV Require Import Base.Res Base.Prog Base.ProgProofs Prim.Bytes Prim.BytesProofs Prim.Varint.
Import ListNotations.
Open Scope Z_scope.

Lemma land127 v : Z.land v 127 = v mod 128.
Proof. change 127 with (Z.ones 7). rewrite Z.land_ones by lia. reflexivity. Qed.

Lemma split7 v : 0 <= v -> v = Z.lor (Z.land v 127) (Z.shiftl (Z.shiftr v 7) 7).
Proof.
  intros Hv. apply Z.bits_inj'. intros n Hn.
  rewrite Z.lor_spec. change 127 with (Z.ones 7).
  destruct (Z.ltb_spec n 7).
  - rewrite Z.land_spec, Z.ones_spec_low by lia.
    rewrite (Z.shiftl_spec_low (Z.shiftr v 7) 7 n) by lia.
    rewrite andb_true_r, orb_false_r. reflexivity.
  - rewrite Z.land_spec, Z.ones_spec_high by lia. rewrite andb_false_r. rewrite orb_false_l.
    rewrite Z.shiftl_spec by lia. rewrite Z.shiftr_spec by lia. f_equal. lia.
Qed.

Lemma small_land128 v : 0 <= v < 128 -> Z.land v 128 = 0.
Proof.
  intros Hv. apply Z.bits_inj'. intros k Hk. rewrite Z.land_spec, Z.bits_0.
  destruct (Z.eqb_spec k 7).
  - subst. rewrite (Z.bits_above_log2 v 7); [reflexivity|lia|].
    destruct (Z.eqb_spec v 0); [subst; simpl; lia|]. apply Z.log2_lt_pow2; lia.
  - change 128 with (2^7). rewrite Z.pow2_bits_false by lia. apply andb_false_r.
Qed.

Lemma lor128_land127 c : 0 <= c < 128 -> Z.land (Z.lor 128 c) 127 = c.
Proof.
  intros Hc. apply Z.bits_inj'. intros k Hk. rewrite Z.land_spec, Z.lor_spec.
  change 127 with (Z.ones 7). destruct (Z.ltb_spec k 7).
  - rewrite Z.ones_spec_low by lia. change 128 with (2^7). rewrite Z.pow2_bits_false by lia.
    simpl. apply andb_true_r.
  - rewrite Z.ones_spec_high by lia. rewrite andb_false_r.
    symmetry. apply Z.bits_above_log2; [lia|].
    destruct (Z.eqb_spec c 0) as [->|]; [simpl; lia|].
    apply Z.lt_le_trans with 7; [apply Z.log2_lt_pow2; lia|lia].
Qed.

Lemma lor128_land128 c : Z.land (Z.lor 128 c) 128 <> 0.
Proof.
  intro H. assert (H0: Z.testbit (Z.land (Z.lor 128 c) 128) 7 = false) by (rewrite H; apply Z.bits_0).
  rewrite Z.land_spec, Z.lor_spec in H0. change 128 with (2^7) in H0.
  rewrite Z.pow2_bits_true in H0 by lia. simpl in H0. discriminate.
Qed.

Lemma lor128_range c : 0 <= c < 128 -> 128 <= Z.lor 128 c < 256.
Proof.
  intros Hc. 
  assert (Z.lor 128 c = 128 + c).
  { assert (Hl: Z.land 128 c = 0) by (rewrite Z.land_comm; apply small_land128; lia).
    rewrite <- Z.lxor_lor by exact Hl. symmetry. apply Z.add_nocarry_lxor. exact Hl. }
  lia.
Qed.

Lemma run_read1 {A} (k : list Z -> prog A) b tl : run (Read 1 k) (b :: tl) = run (k [b]) tl.
Proof. change (b :: tl) with ([b] ++ tl). apply run_read_app. reflexivity. Qed.

(* generalised round trip of the writer loop against the reader loop *)
Lemma read_wv : forall fuel v n shift acc tl,
  0 <= v -> 0 <= shift -> v < 2 ^ (7 * Z.of_nat fuel + 7) -> (fuel < n)%nat ->
  run (read_uvarint_aux n shift acc) (wv fuel v ++ tl) = Ok (Z.lor acc (Z.shiftl v shift), tl).
Proof.
  induction fuel as [|f IH]; intros v n shift acc tl Hv Hs Hb Hn.
  - destruct n as [|n']; [lia|]. cbn [wv read_uvarint_aux app]. rewrite run_read1. cbn [hd].
    assert (Hlt: v < 128) by (change 128 with (2^7); simpl in Hb; lia).
    assert (Hl: Z.land v 127 = v) by (rewrite land127; apply Z.mod_small; lia).
    rewrite !Hl. rewrite (small_land128 v) by lia. rewrite Z.eqb_refl. reflexivity.
  - destruct n as [|n']; [lia|]. cbn [wv].
    destruct (Z.eqb_spec (Z.shiftr v 7) 0) as [Hz|Hnz].
    + cbn [read_uvarint_aux app]. rewrite run_read1. cbn [hd].
      assert (Hlt: v < 128).
      { rewrite Z.shiftr_div_pow2 in Hz by lia. change (2^7) with 128 in Hz.
        pose proof (Z.div_mod v 128). pose proof (Z.mod_pos_bound v 128). lia. }
      assert (Hl: Z.land v 127 = v) by (rewrite land127; apply Z.mod_small; lia).
      rewrite !Hl. rewrite (small_land128 v) by lia. rewrite Z.eqb_refl. reflexivity.
    + cbn [read_uvarint_aux app]. rewrite run_read1. cbn [hd].
      set (c := Z.land v 127).
      assert (Hc: 0 <= c < 128) by (unfold c; rewrite land127; apply Z.mod_pos_bound; lia).
      rewrite (lor128_land127 c Hc).
      destruct (Z.eqb_spec (Z.land (Z.lor 128 c) 128) 0) as [Hbad|_];
        [exfalso; exact (lor128_land128 c Hbad)|].
      rewrite IH; try lia.
      * f_equal. f_equal. rewrite <- Z.lor_assoc. f_equal.
        assert (Hv2: Z.shiftl v shift = Z.lor (Z.shiftl c shift) (Z.shiftl (Z.shiftr v 7) (shift+7))).
        { rewrite (split7 v Hv) at 1. fold c. rewrite Z.shiftl_lor, Z.shiftl_shiftl by lia.
          f_equal. f_equal. lia. }
        rewrite Hv2. reflexivity.
      * apply Z.shiftr_nonneg; lia.
      * rewrite Z.shiftr_div_pow2 by lia. apply Z.div_lt_upper_bound; [lia|].
        rewrite <- Z.pow_add_r by lia.
        replace (7 + (7 * Z.of_nat f + 7)) with (7 * Z.of_nat (S f) + 7) by lia. exact Hb.
Qed.

Lemma fuel_bound v : 0 <= v -> v < 2 ^ (7 * Z.of_nat (Z.to_nat (Z.log2 v / 7)) + 7).
Proof.
  intros Hv. destruct (Z.eqb_spec v 0) as [->|Hnz]; [cbn; lia|].
  assert (0 <= Z.log2 v) by apply Z.log2_nonneg.
  rewrite Z2Nat.id by (apply Z.div_pos; lia).
  apply Z.lt_le_trans with (2 ^ (Z.log2 v + 1)).
  - apply Z.log2_spec. lia.
  - apply Z.pow_le_mono_r; [lia|]. pose proof (Z.div_mod (Z.log2 v) 7).
    pose proof (Z.mod_pos_bound (Z.log2 v) 7). lia.
Qed.

Lemma fuel_lt v k : 0 <= v < 2 ^ (7 * Z.of_nat k) -> (0 < k)%nat -> (Z.to_nat (Z.log2 v / 7) < k)%nat.
Proof.
  intros Hv Hk. destruct (Z.eqb_spec v 0) as [->|Hnz]; [cbn; lia|].
  assert (Z.log2 v < 7 * Z.of_nat k) by (apply Z.log2_lt_pow2; lia).
  assert (Z.log2 v / 7 < Z.of_nat k) by (apply Z.div_lt_upper_bound; lia).
  assert (0 <= Z.log2 v / 7) by (apply Z.div_pos; [apply Z.log2_nonneg|lia]).
  lia.
Qed.

(* reader after writer: every value below 2^(7 max_bytes) *)
Theorem read_write_uvarint_n k v tl : (0 < k)%nat -> 0 <= v < 2 ^ (7 * Z.of_nat k) ->
  run (read_uvarint_n k) (uvarint_bytes v ++ tl) = Ok (v, tl).
Proof.
  intros Hk Hv. unfold read_uvarint_n, uvarint_bytes.
  rewrite read_wv; try lia.
  - rewrite Z.shiftl_0_r. reflexivity.
  - apply fuel_bound. lia.
  - apply fuel_lt; assumption.
Qed.

Corollary read_write_uvarint v tl : 0 <= v < 2 ^ 35 ->
  run read_uvarint (uvarint_bytes v ++ tl) = Ok (v, tl).
Proof. intros. apply (read_write_uvarint_n 5); [lia|]. exact H. Qed.

Corollary read_write_uvarlong v tl : 0 <= v < 2 ^ 70 ->
  run read_uvarlong (uvarint_bytes v ++ tl) = Ok (v, tl).
Proof. intros. apply (read_write_uvarint_n 10); [lia|]. exact H. Qed.

(* shape of the encoding: length, continuation bits, byte range *)
Lemma wv_length fuel v : (1 <= length (wv fuel v) <= S fuel)%nat.
Proof.
  revert v. induction fuel as [|f IH]; intros v; cbn [wv]; [cbn; lia|].
  destruct (Z.shiftr v 7 =? 0); cbn [length]; [lia|]. specialize (IH (Z.shiftr v 7)). lia.
Qed.

Lemma wv_bytes_ok fuel v : bytes_ok (wv fuel v) = true.
Proof.
  revert v. induction fuel as [|f IH]; intros v; cbn [wv].
  - unfold bytes_ok, byte_ok. cbn [forallb]. rewrite land127.
    pose proof (Z.mod_pos_bound v 128).
    destruct (Z.leb_spec 0 (v mod 128)); destruct (Z.ltb_spec (v mod 128) 256); cbn; lia.
  - destruct (Z.shiftr v 7 =? 0).
    + unfold bytes_ok, byte_ok. cbn [forallb]. rewrite land127.
      pose proof (Z.mod_pos_bound v 128).
      destruct (Z.leb_spec 0 (v mod 128)); destruct (Z.ltb_spec (v mod 128) 256); cbn; lia.
    + unfold bytes_ok in *. cbn [forallb]. rewrite IH, andb_true_r. unfold byte_ok.
      assert (0 <= Z.land v 127 < 128) by (rewrite land127; apply Z.mod_pos_bound; lia).
      pose proof (lor128_range _ H).
      destruct (Z.leb_spec 0 (Z.lor 128 (Z.land v 127)));
        destruct (Z.ltb_spec (Z.lor 128 (Z.land v 127)) 256); cbn; lia.
Qed.

Lemma uvarint_bytes_ok v : bytes_ok (uvarint_bytes v) = true.
Proof. apply wv_bytes_ok. Qed.

Lemma uvarint_bytes_nonempty v : (1 <= length (uvarint_bytes v))%nat.
Proof. apply wv_length. Qed.

(* at most 5 bytes below 2^35, at most 10 below 2^70 *)
Lemma uvarint_bytes_max k v : (0 < k)%nat -> 0 <= v < 2 ^ (7 * Z.of_nat k) ->
  (length (uvarint_bytes v) <= k)%nat.
Proof.
  intros Hk Hv. unfold uvarint_bytes.
  pose proof (wv_length (Z.to_nat (Z.log2 v / 7)) v). pose proof (fuel_lt v k Hv Hk). lia.
Qed.

(* minimality: the last byte of a multi-byte encoding is non-zero, i.e. the encoding of v has
   exactly max 1 (ceil(bits/7)) bytes *)
Lemma wv_exact_length : forall fuel v, 0 <= v -> v < 2 ^ (7 * Z.of_nat fuel + 7) ->
  Z.of_nat (length (wv fuel v)) = Z.log2 v / 7 + 1.
Proof.
  induction fuel as [|f IH]; intros v Hv Hb.
  - cbn [wv length]. assert (v < 128) by (cbn in Hb; lia).
    destruct (Z.eqb_spec v 0) as [->|]; [reflexivity|].
    assert (Z.log2 v < 7) by (apply Z.log2_lt_pow2; lia).
    rewrite Z.div_small by (split; [apply Z.log2_nonneg|lia]). reflexivity.
  - cbn [wv]. destruct (Z.eqb_spec (Z.shiftr v 7) 0) as [Hz|Hnz].
    + cbn [length]. assert (Hlt: v < 128).
      { rewrite Z.shiftr_div_pow2 in Hz by lia. change (2^7) with 128 in Hz.
        pose proof (Z.div_mod v 128). pose proof (Z.mod_pos_bound v 128). lia. }
      destruct (Z.eqb_spec v 0) as [->|]; [reflexivity|].
      assert (Z.log2 v < 7) by (apply Z.log2_lt_pow2; lia).
      rewrite Z.div_small by (split; [apply Z.log2_nonneg|lia]). reflexivity.
    + cbn [length]. rewrite Nat2Z.inj_succ, IH.
      * assert (Hge: 128 <= v).
        { destruct (Z.ltb_spec v 128); [|lia]. exfalso. apply Hnz.
          rewrite Z.shiftr_div_pow2 by lia. apply Z.div_small. change (2^7) with 128. lia. }
        rewrite Z.log2_shiftr by lia.
        assert (7 <= Z.log2 v) by (apply Z.log2_le_pow2; [lia|change (2^7) with 128; lia]).
        rewrite Z.max_r by lia.
        replace (Z.log2 v) with ((Z.log2 v - 7) + 1 * 7) at 2 by lia.
        rewrite Z.div_add by lia. lia.
      * apply Z.shiftr_nonneg. lia.
      * rewrite Z.shiftr_div_pow2 by lia. apply Z.div_lt_upper_bound; [lia|].
        rewrite <- Z.pow_add_r by lia.
        replace (7 + (7 * Z.of_nat f + 7)) with (7 * Z.of_nat (S f) + 7) by lia. exact Hb.
Qed.

Theorem uvarint_minimal_length v : 0 <= v ->
  Z.of_nat (length (uvarint_bytes v)) = Z.log2 v / 7 + 1.
Proof. intros Hv. apply wv_exact_length; [lia|]. apply fuel_bound. lia. Qed.

(* zig-zag *)
Lemma zigzag32_nonneg v : 0 <= zigzag32 v.
Proof.
  unfold zigzag32. destruct (Z.ltb_spec v 0).
  - apply Z.lxor_nonneg. split; intros Hx; exfalso.
    + apply Z.shiftl_nonneg in Hx. lia.
    + apply Z.shiftr_nonneg in Hx. lia.
  - apply Z.lxor_nonneg. rewrite Z.shiftl_nonneg, Z.shiftr_nonneg. tauto.
Qed.
Lemma zigzag64_nonneg v : 0 <= zigzag64 v.
Proof.
  unfold zigzag64. destruct (Z.ltb_spec v 0).
  - apply Z.lxor_nonneg. split; intros Hx; exfalso.
    + apply Z.shiftl_nonneg in Hx. lia.
    + apply Z.shiftr_nonneg in Hx. lia.
  - apply Z.lxor_nonneg. rewrite Z.shiftl_nonneg, Z.shiftr_nonneg. tauto.
Qed.

Lemma lxor_m1 x : Z.lxor x (-1) = - x - 1.
Proof. rewrite Z.lxor_m1_r. unfold Z.lnot. lia. Qed.

Lemma zigzag_generic k v : 0 < k -> - 2 ^ k <= v < 2 ^ k ->
  Z.lxor (Z.shiftl v 1) (Z.shiftr v k) = if v <? 0 then - 2 * v - 1 else 2 * v.
Proof.
  intros Hk Hv. rewrite Z.shiftl_mul_pow2 by lia. change (2 ^ 1) with 2.
  rewrite Z.shiftr_div_pow2 by lia.
  destruct (Z.ltb_spec v 0).
  - replace (v / 2 ^ k) with (-1).
    2:{ apply Z.div_unique with (v + 2 ^ k); lia. }
    rewrite lxor_m1. lia.
  - rewrite Z.div_small by lia. rewrite Z.lxor_0_r. lia.
Qed.

Lemma zigzag_decode_spec u : 0 <= u ->
  zigzag_decode u = if Z.even u then u / 2 else - (u / 2) - 1.
Proof.
  intros Hu. unfold zigzag_decode. rewrite Z.shiftr_div_pow2 by lia. change (2 ^ 1) with 2.
  change 1 with (Z.ones 1). rewrite Z.land_ones by lia. change (2 ^ 1) with 2.
  rewrite Zmod_even. destruct (Z.even u).
  - cbn. rewrite Z.lxor_0_r. reflexivity.
  - change (- (1)) with (-1). apply lxor_m1.
Qed.

Theorem zigzag32_roundtrip v : - 2 ^ 31 <= v < 2 ^ 31 ->
  zigzag_decode (zigzag32 v) = v /\ 0 <= zigzag32 v < 2 ^ 32.
Proof.
  intros Hv. unfold zigzag32. rewrite (zigzag_generic 31 v) by lia.
  destruct (Z.ltb_spec v 0).
  - rewrite zigzag_decode_spec by lia.
    replace (- 2 * v - 1) with (1 + 2 * (- v - 1)) by lia.
    rewrite Z.even_add_mul_2. cbn [Z.even].
    replace ((1 + 2 * (- v - 1)) / 2) with (- v - 1) by (apply Z.div_unique with 1; lia). lia.
  - rewrite zigzag_decode_spec by lia.
    replace (2 * v) with (0 + 2 * v) by lia. rewrite Z.even_add_mul_2. cbn [Z.even].
    replace ((0 + 2 * v) / 2) with v by (apply Z.div_unique with 0; lia). lia.
Qed.

Theorem zigzag64_roundtrip v : - 2 ^ 63 <= v < 2 ^ 63 ->
  zigzag_decode (zigzag64 v) = v /\ 0 <= zigzag64 v < 2 ^ 64.
Proof.
  intros Hv. unfold zigzag64. rewrite (zigzag_generic 63 v) by lia.
  destruct (Z.ltb_spec v 0).
  - rewrite zigzag_decode_spec by lia.
    replace (- 2 * v - 1) with (1 + 2 * (- v - 1)) by lia.
    rewrite Z.even_add_mul_2. cbn [Z.even].
    replace ((1 + 2 * (- v - 1)) / 2) with (- v - 1) by (apply Z.div_unique with 1; lia). lia.
  - rewrite zigzag_decode_spec by lia.
    replace (2 * v) with (0 + 2 * v) by lia. rewrite Z.even_add_mul_2. cbn [Z.even].
    replace ((0 + 2 * v) / 2) with v by (apply Z.div_unique with 0; lia). lia.
Qed.

Theorem read_write_svarint v bs tl : - 2 ^ 31 <= v < 2 ^ 31 ->
  write_svarint v = Ok bs -> run read_svarint (bs ++ tl) = Ok (v, tl).
Proof.
  intros Hv H. unfold write_svarint, write_varint in H.
  pose proof (zigzag32_roundtrip v Hv) as [Hr Hb].
  destruct (Z.ltb_spec (zigzag32 v) 0); [lia|].
  assert (bs = uvarint_bytes (zigzag32 v)) as -> by (unfold uvarint_bytes; congruence).
  unfold read_svarint. rewrite run_bind, read_write_uvarint by lia. cbn [run]. rewrite Hr. reflexivity.
Qed.

Theorem read_write_svarlong v bs tl : - 2 ^ 63 <= v < 2 ^ 63 ->
  write_svarlong v = Ok bs -> run read_svarlong (bs ++ tl) = Ok (v, tl).
Proof.
  intros Hv H. unfold write_svarlong, write_varint in H.
  pose proof (zigzag64_roundtrip v Hv) as [Hr Hb].
  destruct (Z.ltb_spec (zigzag64 v) 0); [lia|].
  assert (bs = uvarint_bytes (zigzag64 v)) as -> by (unfold uvarint_bytes; congruence).
  unfold read_svarlong. rewrite run_bind, read_write_uvarlong by lia. cbn [run]. rewrite Hr. reflexivity.
Qed.
