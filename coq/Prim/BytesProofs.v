(* Facts about the fixed-width big-endian codec. *)
From Coq Require Import ZArith List Bool Lia.
From KioV Require Import Base.Res Base.Prog Base.ProgProofs Prim.Bytes.
Import ListNotations.
Open Scope Z_scope.

Lemma be_bytes_length w u : length (be_bytes w u) = w.
Proof.
  revert u. induction w as [|w IH]; intros u; cbn [be_bytes]; [reflexivity|].
  rewrite app_length, IH. cbn. lia.
Qed.

Lemma be_val_app l b : be_val (l ++ [b]) = be_val l * 256 + b.
Proof. unfold be_val. rewrite fold_left_app. reflexivity. Qed.

Lemma pow256 w : 2 ^ (8 * Z.of_nat w) = 256 ^ Z.of_nat w.
Proof. rewrite Z.pow_mul_r by lia. reflexivity. Qed.

Lemma be_val_be_bytes w : forall u, 0 <= u < 256 ^ Z.of_nat w -> be_val (be_bytes w u) = u.
Proof.
  induction w as [|w IH]; intros u Hu.
  - cbn in *. unfold be_val. cbn. lia.
  - cbn [be_bytes]. rewrite be_val_app.
    rewrite IH.
    + pose proof (Z.div_mod u 256). lia.
    + rewrite Nat2Z.inj_succ, Z.pow_succ_r in Hu by lia.
      split; [apply Z.div_pos; lia|]. apply Z.div_lt_upper_bound; lia.
Qed.

Lemma be_bytes_bytes_ok w : forall u, bytes_ok (be_bytes w u) = true.
Proof.
  induction w as [|w IH]; intros u; cbn [be_bytes]; [reflexivity|].
  unfold bytes_ok in *. rewrite forallb_app, IH. cbn. unfold byte_ok.
  pose proof (Z.mod_pos_bound u 256). 
  destruct (Z.leb_spec 0 (u mod 256)); destruct (Z.ltb_spec (u mod 256) 256); cbn; lia.
Qed.

(* the value of any w-byte string is in range *)
Lemma be_val_bound : forall l, bytes_ok l = true -> 0 <= be_val l < 256 ^ Z.of_nat (length l).
Proof.
  induction l as [|b l IH] using rev_ind; intros H.
  - cbn. unfold be_val. cbn. lia.
  - unfold bytes_ok in *. rewrite forallb_app in H. apply andb_true_iff in H. destruct H as [H1 H2].
    cbn in H2. rewrite andb_true_r in H2. unfold byte_ok in H2.
    apply andb_true_iff in H2. destruct H2 as [Hb1 Hb2].
    apply Z.leb_le in Hb1. apply Z.ltb_lt in Hb2.
    specialize (IH H1). rewrite be_val_app, app_length. cbn [length].
    replace (Z.of_nat (length l + 1)) with (Z.succ (Z.of_nat (length l))) by lia.
    rewrite Z.pow_succ_r by lia. lia.
Qed.

(* be_bytes is the inverse of be_val on byte strings of that width *)
Lemma be_bytes_be_val : forall l, bytes_ok l = true -> be_bytes (length l) (be_val l) = l.
Proof.
  induction l as [|b l IH] using rev_ind; intros H; [reflexivity|].
  unfold bytes_ok in *. rewrite forallb_app in H. apply andb_true_iff in H. destruct H as [H1 H2].
  cbn in H2. rewrite andb_true_r in H2. unfold byte_ok in H2.
  apply andb_true_iff in H2. destruct H2 as [Hb1 Hb2].
  apply Z.leb_le in Hb1. apply Z.ltb_lt in Hb2.
  rewrite app_length. cbn [length]. replace (length l + 1)%nat with (S (length l)) by lia.
  cbn [be_bytes]. rewrite be_val_app.
  replace ((be_val l * 256 + b) / 256) with (be_val l).
  2:{ apply Z.div_unique with b; lia. }
  replace ((be_val l * 256 + b) mod 256) with b.
  2:{ symmetry. rewrite Z.add_comm, Z.mod_add by lia. apply Z.mod_small. lia. }
  rewrite IH by exact H1. reflexivity.
Qed.

Lemma run_read_app {A} n (k : list Z -> prog A) c tl :
  Z.of_nat (length c) = n -> run (Read n k) (c ++ tl) = run (k c) tl.
Proof.
  intros H. cbn [run].
  replace ((n <? 0) || (Z.of_nat (length (c ++ tl)) <? n)) with false.
  2:{ symmetry. apply orb_false_iff. split; apply Z.ltb_ge; [lia|]. rewrite app_length. lia. }
  assert (Z.to_nat n = length c) by lia.
  rewrite H0, firstn_app, skipn_app, Nat.sub_diag, firstn_all, skipn_all. cbn.
  rewrite app_nil_r. reflexivity.
Qed.

Lemma in_int_range_spec w s z :
  in_int_range w s z = true <-> int_lo w s <= z <= int_hi w s.
Proof.
  unfold in_int_range. rewrite andb_true_iff, Z.leb_le, Z.leb_le. tauto.
Qed.

Lemma half_pow w : (0 < w)%nat -> 2 ^ (8 * Z.of_nat w) = 2 * 2 ^ (8 * Z.of_nat w - 1).
Proof.
  intros H. rewrite <- Z.pow_succ_r by lia. f_equal. lia.
Qed.

Lemma to_signed_mod w z : (0 < w)%nat ->
  - 2 ^ (8 * Z.of_nat w - 1) <= z <= 2 ^ (8 * Z.of_nat w - 1) - 1 ->
  to_signed w (z mod 2 ^ (8 * Z.of_nat w)) = z.
Proof.
  intros Hw Hz. unfold to_signed.
  pose proof (half_pow w Hw) as Hp.
  set (P := 2 ^ (8 * Z.of_nat w)) in *. set (H := 2 ^ (8 * Z.of_nat w - 1)) in *.
  assert (0 < H) by (apply Z.pow_pos_nonneg; lia).
  destruct (Z.ltb_spec z 0).
  - assert (z mod P = z + P).
    { symmetry. apply Z.mod_unique with (-1); lia. }
    rewrite H2. destruct (Z.leb_spec H (z + P)); lia.
  - rewrite Z.mod_small by lia. destruct (Z.leb_spec H z); lia.
Qed.

Theorem read_write_int w s z bs tl : (0 < w)%nat ->
  write_int w s z = Ok bs -> run (read_int w s) (bs ++ tl) = Ok (z, tl).
Proof.
  intros Hw H. unfold write_int in H.
  destruct (in_int_range w s z) eqn:E; [|discriminate].
  assert (bs = be_bytes w (z mod 2 ^ (8 * Z.of_nat w))) as -> by congruence. clear H.
  apply in_int_range_spec in E. unfold read_int.
  rewrite run_read_app by (rewrite be_bytes_length; reflexivity).
  cbn [run]. f_equal. f_equal.
  assert (Hpos: 0 < 2 ^ (8 * Z.of_nat w)) by (apply Z.pow_pos_nonneg; lia).
  rewrite be_val_be_bytes by (rewrite <- pow256; apply Z.mod_pos_bound; lia).
  destruct s; cbv [int_lo int_hi] in E.
  - apply to_signed_mod; assumption.
  - apply Z.mod_small. lia.
Qed.

Lemma write_int_length w s z bs : write_int w s z = Ok bs -> length bs = w.
Proof.
  unfold write_int. destruct (in_int_range w s z); [|discriminate].
  intros H; inversion H. apply be_bytes_length.
Qed.

Lemma write_int_out_of_range w s z :
  in_int_range w s z = false -> write_int w s z = Err EStruct.
Proof. unfold write_int. intros ->. reflexivity. Qed.

(* what read_int returns is always in range (for byte input) *)
Lemma read_int_range w s bs z r : (0 < w)%nat -> bytes_ok bs = true ->
  run (read_int w s) bs = Ok (z, r) -> in_int_range w s z = true.
Proof.
  intros Hw Hb H. unfold read_int in H. cbn [run] in H.
  destruct ((Z.of_nat w <? 0) || (Z.of_nat (length bs) <? Z.of_nat w)) eqn:E; [discriminate|].
  apply orb_false_iff in E. destruct E as [_ E]. apply Z.ltb_ge in E.
  cbn [run] in H. inversion H; subst; clear H.
  set (c := firstn (Z.to_nat (Z.of_nat w)) bs).
  assert (Hc: bytes_ok c = true).
  { unfold c, bytes_ok in *. rewrite forallb_forall in *. intros x Hx. apply Hb.
    rewrite <- (firstn_skipn (Z.to_nat (Z.of_nat w)) bs). apply in_or_app. left. exact Hx. }
  assert (Hl: length c = w) by (unfold c; rewrite firstn_length; lia).
  pose proof (be_val_bound c Hc) as Hv. rewrite Hl, <- pow256 in Hv.
  apply in_int_range_spec. pose proof (half_pow w Hw) as Hp.
  destruct s; cbv [int_lo int_hi to_signed].
  - destruct (Z.leb_spec (2 ^ (8 * Z.of_nat w - 1)) (be_val c)); lia.
  - lia.
Qed.
