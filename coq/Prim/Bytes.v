(* Fixed-width big-endian integers: the model of struct.pack/unpack(">b" ... ">Q").
   Definitions only. *)
From Coq Require Import ZArith List Bool.
From KioV Require Import Base.Res Base.Prog.
Import ListNotations.
Open Scope Z_scope.

(* w bytes, most significant first, of u taken modulo 256^w *)
Fixpoint be_bytes (w : nat) (u : Z) : list Z :=
  match w with
  | O => []
  | S w' => be_bytes w' (u / 256) ++ [u mod 256]
  end.

Definition be_val (bs : list Z) : Z := fold_left (fun a b => a * 256 + b) bs 0.

Definition int_lo (w : nat) (signed : bool) : Z :=
  if signed then - 2 ^ (8 * Z.of_nat w - 1) else 0.
Definition int_hi (w : nat) (signed : bool) : Z :=
  if signed then 2 ^ (8 * Z.of_nat w - 1) - 1 else 2 ^ (8 * Z.of_nat w) - 1.
Definition in_int_range (w : nat) (signed : bool) (z : Z) : bool :=
  (int_lo w signed <=? z) && (z <=? int_hi w signed).

(* struct.pack raises struct.error outside the range *)
Definition write_int (w : nat) (signed : bool) (z : Z) : res (list Z) :=
  if in_int_range w signed z then Ok (be_bytes w (z mod 2 ^ (8 * Z.of_nat w)))
  else Err EStruct.

Definition to_signed (w : nat) (u : Z) : Z :=
  if 2 ^ (8 * Z.of_nat w - 1) <=? u then u - 2 ^ (8 * Z.of_nat w) else u.

Definition read_int (w : nat) (signed : bool) : prog Z :=
  Read (Z.of_nat w) (fun b => Ret (if signed then to_signed w (be_val b) else be_val b)).
