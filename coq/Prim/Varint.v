(* Base-128 varints and zig-zag: the model of _write_varint, read_unsigned_varint,
   _zigzag_decode and the signed writers' expressions.  Definitions only. *)
From Coq Require Import ZArith List Bool.
From KioV Require Import Base.Res Base.Prog.
Import ListNotations.
Open Scope Z_scope.

(* the loop of _write_varint on explicit fuel *)
Fixpoint wv (fuel : nat) (v : Z) : list Z :=
  match fuel with
  | O => [Z.land v 127]
  | S f => if Z.shiftr v 7 =? 0 then [Z.land v 127]
           else Z.lor 128 (Z.land v 127) :: wv f (Z.shiftr v 7)
  end.

(* `while value:` never ends for a negative value (>> converges to -1): modelled as EOutOfGas *)
Definition write_varint (v : Z) : res (list Z) :=
  if v <? 0 then Err EOutOfGas else Ok (wv (Z.to_nat (Z.log2 v / 7)) v).

(* total version used where the argument is known to be non-negative *)
Definition uvarint_bytes (v : Z) : list Z := wv (Z.to_nat (Z.log2 v / 7)) v.

Fixpoint read_uvarint_aux (n : nat) (shift acc : Z) : prog Z :=
  match n with
  | O => Fail EValue                                   (* "Varint is too long" *)
  | S n' => Read 1 (fun b =>
              let x := hd 0 b in
              let acc' := Z.lor acc (Z.shiftl (Z.land x 127) shift) in
              if Z.land x 128 =? 0 then Ret acc' else read_uvarint_aux n' (shift + 7) acc')
  end.
Definition read_uvarint_n (max_bytes : nat) : prog Z := read_uvarint_aux max_bytes 0 0.
Definition read_uvarint : prog Z := read_uvarint_n 5.
Definition read_uvarlong : prog Z := read_uvarint_n 10.

Definition zigzag_decode (u : Z) : Z := Z.lxor (Z.shiftr u 1) (- (Z.land u 1)).
Definition zigzag32 (v : Z) : Z := Z.lxor (Z.shiftl v 1) (Z.shiftr v 31).
Definition zigzag64 (v : Z) : Z := Z.lxor (Z.shiftl v 1) (Z.shiftr v 63).

Definition read_svarint : prog Z := u <- read_uvarint ;; Ret (zigzag_decode u).
Definition read_svarlong : prog Z := u <- read_uvarlong ;; Ret (zigzag_decode u).
Definition write_svarint (v : Z) : res (list Z) := write_varint (zigzag32 v).
Definition write_svarlong (v : Z) : res (list Z) := write_varint (zigzag64 v).
