(* "Each reader accepts only the writer's encodings", stated about the named public functions of
   Prim/Public.v over the table public_pairs of Prim/PublicProofs.v.

     public_strict_row                     the rows (writer name, reader name) whose reader is strict
                                           AND whose writer accepts everything the reader returns
     public_reader_accepts_only_encodings  on those rows: accepted input = writer output ++ rest
     public_lenient_rows_refuted           every other row of the table has a concrete accepted
                                           input that is not the writer's output: the selection
                                           public_strict_row is exact

   Rows that are not strict, and why:
     read_boolean                                  any non-zero byte is True
     read_unsigned_varint / _varlong,
     read_signed_varint / _varlong,
     read_compact_array_length,
     the four read_compact_string* readers         the varint (length) prefix need not be minimal
     write_legacy_string / read_nullable_legacy_string,
     write_legacy_bytes / read_nullable_legacy_bytes,
     write_datetime_i64 / read_nullable_datetime_i64
                                                   the nullable reader returns None for -1, which
                                                   the non-nullable writer of the row rejects
   Stdlib only, no axioms. *)
From Coq Require Import ZArith List Bool String Lia.
From KioV Require Import Base.Res Base.Prog Base.ProgProofs
  Prim.Bytes Prim.Varint Prim.Utf8 Prim.Time Prim.BytesProofs Prim.VarintProofs
  Codec.Value Codec.PrimCodec Codec.PrimCodecProofs Codec.AcceptsProofs
  Prim.Public Prim.PublicProofs.
Import ListNotations.
Open Scope string_scope.
Open Scope list_scope.
Open Scope Z_scope.

(* ------------------------------------------------------------------------------------------ *)
Definition lenient_readers : list string :=
  [ "read_boolean";
    "read_unsigned_varint"; "read_unsigned_varlong"; "read_signed_varint"; "read_signed_varlong";
    "read_compact_string"; "read_compact_string_nullable";
    "read_compact_string_as_bytes"; "read_compact_string_as_bytes_nullable";
    "read_compact_array_length" ].

(* rows pairing a nullable reader with a non-nullable writer *)
Definition null_mismatch_rows : list (string * string) :=
  [ ("write_legacy_string", "read_nullable_legacy_string");
    ("write_legacy_bytes", "read_nullable_legacy_bytes");
    ("write_datetime_i64", "read_nullable_datetime_i64") ].

Definition public_strict_row (w r : string) : bool :=
  negb (existsb (String.eqb r) lenient_readers) &&
  negb (existsb (fun p => (w ==s fst p) && (r ==s snd p)) null_mismatch_rows).

Definition public_strict_pairs : list (string * string) :=
  map fst (filter (fun p => public_strict_row (fst (fst p)) (snd (fst p))) public_pairs).

(* the selection, spelled out: 23 of the 40 rows *)
Example public_strict_pairs_are :
  public_strict_pairs =
  [ ("write_int8", "read_int8"); ("write_int16", "read_int16"); ("write_int32", "read_int32");
    ("write_int64", "read_int64"); ("write_uint8", "read_uint8"); ("write_uint16", "read_uint16");
    ("write_uint32", "read_uint32"); ("write_uint64", "read_uint64");
    ("write_float64", "read_float64");
    ("write_legacy_string", "read_legacy_string");
    ("write_nullable_legacy_string", "read_nullable_legacy_string");
    ("write_nullable_legacy_string", "read_legacy_string");
    ("write_legacy_bytes", "read_legacy_bytes");
    ("write_nullable_legacy_bytes", "read_nullable_legacy_bytes");
    ("write_nullable_legacy_bytes", "read_legacy_bytes");
    ("write_legacy_array_length", "read_legacy_array_length");
    ("write_uuid", "read_uuid"); ("write_error_code", "read_error_code");
    ("write_timedelta_i32", "read_timedelta_i32"); ("write_timedelta_i64", "read_timedelta_i64");
    ("write_datetime_i64", "read_datetime_i64");
    ("write_nullable_datetime_i64", "read_nullable_datetime_i64");
    ("write_nullable_datetime_i64", "read_datetime_i64") ].
Proof. vm_compute. reflexivity. Qed.

(* ------------------------------------------------------------------------------------------ *)
(* a writer codec that is the nullable variant of the reader codec writes what the reader
   returns identically *)
Lemma enc_psub_mono a b v enc : psub a b = true -> enc_prim a v = Ok enc -> enc_prim b v = Ok enc.
Proof.
  intros Hs He. apply psub_inv in Hs.
  destruct Hs as [->|[[c [-> ->]]|[[c [-> ->]]|[-> ->]]]]; [exact He| | |];
    destruct v; cbn [enc_prim write_string_like write_datetime blob_of] in *;
    try discriminate He; exact He.
Qed.

Section Rows.
Variable ec : list Z.

Definition row_accepts (p : string * string * (list Z -> value -> bool)) : Prop :=
  public_strict_row (fst (fst p)) (snd (fst p)) = true ->
  forall bs v rest, bytes_ok bs = true ->
    run (public_read ec (snd (fst p))) bs = Ok (v, rest) ->
    exists enc, public_write (fst (fst p)) v = Ok enc /\ bs = enc ++ rest.

Lemma int_row_accepts w s wn rn dom : (0 < w)%nat ->
  (forall z, public_write wn (VInt z) = write_int w s z) ->
  public_read ec rn = rint (read_int w s) ->
  row_accepts (wn, rn, dom).
Proof.
  intros Hw Hpw Hpr _ bs v rest Hb H. cbn [fst snd] in *. rewrite Hpr in H. unfold rint in H.
  apply run_bind_inv in H. destruct H as (z & r & H1 & H2).
  apply run_ret_inv in H2. destruct H2 as [-> ->].
  rewrite Hpw. eapply read_int_accepts; eassumption.
Qed.

Lemma prim_row_accepts wc rc wn rn dom : strict_codec rc = true -> psub rc wc = true ->
  (forall v, public_write wn v = enc_prim wc v) ->
  public_read ec rn = dec_prim ec rc ->
  row_accepts (wn, rn, dom).
Proof.
  intros Hs Hsub Hpw Hpr _ bs v rest Hb H. cbn [fst snd] in *. rewrite Hpr in H.
  destruct (prim_reader_accepts_only_encodings ec rc bs v rest Hs Hb H) as (enc & He & Hbs).
  exists enc. split; [|exact Hbs]. rewrite Hpw. eapply enc_psub_mono; eassumption.
Qed.

Lemma lenient_row_accepts wn rn dom : public_strict_row wn rn = false -> row_accepts (wn, rn, dom).
Proof. intros Hf Ht. cbn [fst snd] in Ht. rewrite Hf in Ht. discriminate Ht. Qed.

Ltac int_row w s := apply (int_row_accepts w s); [lia|reflexivity|reflexivity].
Ltac prim_row wc rc :=
  apply (prim_row_accepts wc rc); [reflexivity|reflexivity|intros; reflexivity|reflexivity].
Ltac lenient_row := apply lenient_row_accepts; vm_compute; reflexivity.

Lemma all_rows_accept : Forall row_accepts public_pairs.
Proof.
  unfold public_pairs.
  apply Forall_cons; [lenient_row|].
  apply Forall_cons; [int_row 1%nat true|].
  apply Forall_cons; [int_row 2%nat true|].
  apply Forall_cons; [int_row 4%nat true|].
  apply Forall_cons; [int_row 8%nat true|].
  apply Forall_cons; [int_row 1%nat false|].
  apply Forall_cons; [int_row 2%nat false|].
  apply Forall_cons; [int_row 4%nat false|].
  apply Forall_cons; [int_row 8%nat false|].
  (* varints *)
  apply Forall_cons; [lenient_row|].
  apply Forall_cons; [lenient_row|].
  apply Forall_cons; [lenient_row|].
  apply Forall_cons; [lenient_row|].
  apply Forall_cons; [prim_row PF64 PF64|].
  (* compact, str and bytes *)
  apply Forall_cons; [lenient_row|].
  apply Forall_cons; [lenient_row|].
  apply Forall_cons; [lenient_row|].
  apply Forall_cons; [lenient_row|].
  apply Forall_cons; [lenient_row|].
  apply Forall_cons; [lenient_row|].
  apply Forall_cons; [lenient_row|].
  apply Forall_cons; [lenient_row|].
  (* legacy, str *)
  apply Forall_cons; [prim_row (PStr false false) (PStr false false)|].
  apply Forall_cons; [lenient_row|].
  apply Forall_cons; [prim_row (PStr false true) (PStr false true)|].
  apply Forall_cons; [prim_row (PStr false true) (PStr false false)|].
  (* legacy, bytes *)
  apply Forall_cons; [prim_row (PBytes false false) (PBytes false false)|].
  apply Forall_cons; [lenient_row|].
  apply Forall_cons; [prim_row (PBytes false true) (PBytes false true)|].
  apply Forall_cons; [prim_row (PBytes false true) (PBytes false false)|].
  (* array lengths *)
  apply Forall_cons; [int_row 4%nat true|].
  apply Forall_cons; [lenient_row|].
  apply Forall_cons; [prim_row PUuid PUuid|].
  apply Forall_cons; [prim_row PErrorCode PErrorCode|].
  apply Forall_cons; [prim_row PTd32 PTd32|].
  apply Forall_cons; [prim_row PTd64 PTd64|].
  apply Forall_cons; [prim_row (PDt false) (PDt false)|].
  apply Forall_cons; [lenient_row|].
  apply Forall_cons; [prim_row (PDt true) (PDt true)|].
  apply Forall_cons; [prim_row (PDt true) (PDt false)|].
  apply Forall_nil.
Qed.
End Rows.

(* ------------------------------------------------------------------------------------------ *)
Theorem public_reader_accepts_only_encodings : forall ec w r dom bs v rest,
  In (w, r, dom) public_pairs -> public_strict_row w r = true -> bytes_ok bs = true ->
  run (public_read ec r) bs = Ok (v, rest) ->
  exists enc, public_write w v = Ok enc /\ bs = enc ++ rest.
Proof.
  intros ec w r dom bs v rest Hin Hs Hb H.
  pose proof (proj1 (Forall_forall _ _) (all_rows_accept ec) _ Hin) as Hp.
  exact (Hp Hs bs v rest Hb H).
Qed.
Print Assumptions public_reader_accepts_only_encodings.

Example public_reader_accepts_only_encodings_nonvacuous :
  In ("write_nullable_legacy_string", "read_legacy_string", dom_prim (PStr false false)) public_pairs /\
  public_strict_row "write_nullable_legacy_string" "read_legacy_string" = true /\
  bytes_ok [0; 2; 104; 105; 9] = true /\
  run (public_read [] "read_legacy_string") [0; 2; 104; 105; 9] = Ok (VStr [104; 105], [9]) /\
  public_write "write_nullable_legacy_string" (VStr [104; 105]) = Ok [0; 2; 104; 105] /\
  run (public_read [] "read_int16") [255; 254; 9] = Ok (VInt (-2), [9]) /\
  public_write "write_int16" (VInt (-2)) = Ok [255; 254].
Proof.
  split; [unfold public_pairs; cbn [In]; do 25 right; left; reflexivity|].
  vm_compute. repeat split; reflexivity.
Qed.

(* ------------------------------------------------------------------------------------------ *)
(* the excluded rows are not strict: a concrete accepted byte string that is not the writer's
   output (or that the writer rejects) for each of them *)
Definition lenient_witness (r : string) : list Z :=
  if r ==s "read_boolean" then [2]
  else if r ==s "read_nullable_legacy_string" then [255; 255]
  else if r ==s "read_nullable_legacy_bytes" then [255; 255; 255; 255]
  else if r ==s "read_nullable_datetime_i64" then [255; 255; 255; 255; 255; 255; 255; 255]
  else [129; 0].

Definition row_refuted (w r : string) (bs : list Z) : bool :=
  bytes_ok bs &&
  match run (public_read [] r) bs with
  | Ok (v, rest) => match public_write w v with
                    | Ok enc => negb (zlist_eqb bs (enc ++ rest))
                    | Err _ => true
                    end
  | Err _ => false
  end.

Example public_lenient_rows_refuted_bool :
  forallb (fun p => let w := fst (fst p) in let r := snd (fst p) in
                    public_strict_row w r || row_refuted w r (lenient_witness r))
          public_pairs = true.
Proof. vm_compute. reflexivity. Qed.

Lemma zlist_eqb_refl l : zlist_eqb l l = true.
Proof. induction l as [|x l IH]; cbn [zlist_eqb]; [reflexivity|]. rewrite Z.eqb_refl, IH. reflexivity. Qed.

Theorem public_lenient_rows_refuted : forall w r dom,
  In (w, r, dom) public_pairs -> public_strict_row w r = false ->
  exists bs v rest, bytes_ok bs = true /\ run (public_read [] r) bs = Ok (v, rest) /\
    ~ (exists enc, public_write w v = Ok enc /\ bs = enc ++ rest).
Proof.
  intros w r dom Hin Hs.
  pose proof (proj1 (forallb_forall _ _) public_lenient_rows_refuted_bool _ Hin) as H.
  cbn [fst snd] in H. cbv zeta in H. rewrite Hs in H. cbn [orb] in H.
  unfold row_refuted in H. apply andb_true_iff in H. destruct H as [Hb H].
  destruct (run (public_read [] r) (lenient_witness r)) as [[v rest]|e] eqn:E; [|discriminate H].
  exists (lenient_witness r), v, rest. split; [exact Hb|]. split; [exact E|].
  intros (enc & He & Hbs). rewrite He in H. rewrite <- Hbs, zlist_eqb_refl in H. discriminate H.
Qed.
Print Assumptions public_lenient_rows_refuted.

(* a few of the witnesses, spelled out *)
Example public_bool_row_refuted :
  run (public_read [] "read_boolean") [2] = Ok (VBool true, []) /\
  public_write "write_boolean" (VBool true) = Ok [1].
Proof. vm_compute. split; reflexivity. Qed.

Example public_uvarint_row_refuted :
  run (public_read [] "read_unsigned_varint") [129; 0] = Ok (VInt 1, []) /\
  public_write "write_unsigned_varint" (VInt 1) = Ok [1].
Proof. vm_compute. split; reflexivity. Qed.

Example public_compact_string_row_refuted :
  run (public_read [] "read_compact_string") [129; 0] = Ok (VStr [], []) /\
  public_write "write_compact_string" (VStr []) = Ok [1].
Proof. vm_compute. split; reflexivity. Qed.

Example public_compact_array_length_row_refuted :
  run (public_read [] "read_compact_array_length") [129; 0] = Ok (VInt 0, []) /\
  public_write "write_compact_array_length" (VInt 0) = Ok [1].
Proof. vm_compute. split; reflexivity. Qed.

Example public_null_mismatch_rows_refuted :
  run (public_read [] "read_nullable_legacy_string") [255; 255] = Ok (VNull, []) /\
  public_write "write_legacy_string" VNull = Err EType /\
  run (public_read [] "read_nullable_legacy_bytes") [255; 255; 255; 255] = Ok (VNull, []) /\
  public_write "write_legacy_bytes" VNull = Err EType /\
  run (public_read [] "read_nullable_datetime_i64") [255; 255; 255; 255; 255; 255; 255; 255]
    = Ok (VNull, []) /\
  public_write "write_datetime_i64" VNull = Err EType.
Proof. vm_compute. repeat split; reflexivity. Qed.
