(* The public primitive readers and writers of kio.serial.readers / kio.serial.writers by name,
   as the C11 correspondence addresses them, and the checksummed range sweeps used to compare
   whole domains without shipping every case as a literal.  Definitions only. *)
From Coq Require Import ZArith List Bool String.
From KioV Require Import Base.Res Base.Prog Prim.Bytes Prim.Varint Prim.Utf8 Prim.Time Codec.Value
  Codec.PrimCodec Records.Crc.
Import ListNotations.
Open Scope string_scope.
Open Scope Z_scope.

Notation "a ==s b" := (String.eqb a b) (at level 70).

Section Public.
Variable ec : list Z.

Definition vint (r : res (list Z)) := r.

Definition public_write (name : string) (v : value) : res (list Z) :=
  let int_of := match v with VInt z => Some z | VBool b => Some (if b then 1 else 0) | _ => None end in
  let with_int (f : Z -> res (list Z)) := match int_of with Some z => f z | None => Err EType end in
  if name ==s "write_boolean" then enc_prim PBool v
  else if name ==s "write_int8" then with_int (write_int 1 true)
  else if name ==s "write_int16" then with_int (write_int 2 true)
  else if name ==s "write_int32" then with_int (write_int 4 true)
  else if name ==s "write_int64" then with_int (write_int 8 true)
  else if name ==s "write_uint8" then with_int (write_int 1 false)
  else if name ==s "write_uint16" then with_int (write_int 2 false)
  else if name ==s "write_uint32" then with_int (write_int 4 false)
  else if name ==s "write_uint64" then with_int (write_int 8 false)
  else if (name ==s "write_unsigned_varint") || (name ==s "write_unsigned_varlong") then with_int write_varint
  else if name ==s "write_signed_varint" then with_int write_svarint
  else if name ==s "write_signed_varlong" then with_int write_svarlong
  else if name ==s "write_float64" then enc_prim PF64 v
  else if name ==s "write_nullable_compact_string" then write_string_like true true 2 v
  else if name ==s "write_compact_string" then write_string_like true false 2 v
  else if name ==s "write_nullable_legacy_string" then enc_prim (PStr false true) v
  else if name ==s "write_legacy_string" then enc_prim (PStr false false) v
  else if name ==s "write_nullable_legacy_bytes" then enc_prim (PBytes false true) v
  else if name ==s "write_legacy_bytes" then enc_prim (PBytes false false) v
  else if name ==s "write_legacy_array_length" then with_int (write_int 4 true)
  else if name ==s "write_compact_array_length" then with_int (fun n => write_len_compact (n + 1))
  else if name ==s "write_uuid" then enc_prim PUuid v
  else if name ==s "write_error_code" then enc_prim PErrorCode v
  else if name ==s "write_timedelta_i32" then enc_prim PTd32 v
  else if name ==s "write_timedelta_i64" then enc_prim PTd64 v
  else if name ==s "write_datetime_i64" then enc_prim (PDt false) v
  else if name ==s "write_nullable_datetime_i64" then enc_prim (PDt true) v
  else Err ENotImplemented.

Definition rint (p : prog Z) : prog value := z <- p ;; Ret (VInt z).

Definition public_read (name : string) : prog value :=
  if name ==s "read_boolean" then dec_prim ec PBool
  else if name ==s "read_int8" then rint (read_int 1 true)
  else if name ==s "read_int16" then rint (read_int 2 true)
  else if name ==s "read_int32" then rint (read_int 4 true)
  else if name ==s "read_int64" then rint (read_int 8 true)
  else if name ==s "read_uint8" then rint (read_int 1 false)
  else if name ==s "read_uint16" then rint (read_int 2 false)
  else if name ==s "read_uint32" then rint (read_int 4 false)
  else if name ==s "read_uint64" then rint (read_int 8 false)
  else if name ==s "read_unsigned_varint" then rint read_uvarint
  else if name ==s "read_unsigned_varlong" then rint read_uvarlong
  else if name ==s "read_signed_varint" then rint read_svarint
  else if name ==s "read_signed_varlong" then rint read_svarlong
  else if name ==s "read_float64" then dec_prim ec PF64
  else if name ==s "read_compact_string_as_bytes" then dec_prim ec (PBytes true false)
  else if name ==s "read_compact_string_as_bytes_nullable" then dec_prim ec (PBytes true true)
  else if name ==s "read_compact_string" then dec_prim ec (PStr true false)
  else if name ==s "read_compact_string_nullable" then dec_prim ec (PStr true true)
  else if name ==s "read_legacy_bytes" then dec_prim ec (PBytes false false)
  else if name ==s "read_nullable_legacy_bytes" then dec_prim ec (PBytes false true)
  else if name ==s "read_legacy_string" then dec_prim ec (PStr false false)
  else if name ==s "read_nullable_legacy_string" then dec_prim ec (PStr false true)
  else if name ==s "read_legacy_array_length" then rint (read_int 4 true)
  else if name ==s "read_compact_array_length" then rint read_compact_len
  else if name ==s "read_uuid" then dec_prim ec PUuid
  else if name ==s "read_error_code" then dec_prim ec PErrorCode
  else if name ==s "read_timedelta_i32" then dec_prim ec PTd32
  else if name ==s "read_timedelta_i64" then dec_prim ec PTd64
  else if name ==s "read_datetime_i64" then dec_prim ec (PDt false)
  else if name ==s "read_nullable_datetime_i64" then dec_prim ec (PDt true)
  else Fail ENotImplemented.

Definition modelled_names : list string :=
  ["write_boolean"; "write_int8"; "write_int16"; "write_int32"; "write_int64"; "write_uint8"; "write_uint16";
   "write_uint32"; "write_uint64"; "write_unsigned_varint"; "write_unsigned_varlong"; "write_signed_varint";
   "write_signed_varlong"; "write_float64"; "write_nullable_compact_string"; "write_compact_string";
   "write_nullable_legacy_string"; "write_legacy_string"; "write_nullable_legacy_bytes"; "write_legacy_bytes";
   "write_legacy_array_length"; "write_compact_array_length"; "write_uuid"; "write_error_code";
   "write_timedelta_i32"; "write_timedelta_i64"; "write_datetime_i64"; "write_nullable_datetime_i64";
   "read_boolean"; "read_int8"; "read_int16"; "read_int32"; "read_int64"; "read_uint8"; "read_uint16";
   "read_uint32"; "read_uint64"; "read_unsigned_varint"; "read_unsigned_varlong"; "read_signed_varint";
   "read_signed_varlong"; "read_float64"; "read_compact_string_as_bytes"; "read_compact_string_as_bytes_nullable";
   "read_compact_string"; "read_compact_string_nullable"; "read_legacy_bytes"; "read_nullable_legacy_bytes";
   "read_legacy_string"; "read_nullable_legacy_string"; "read_legacy_array_length"; "read_compact_array_length";
   "read_uuid"; "read_error_code"; "read_timedelta_i32"; "read_timedelta_i64"; "read_datetime_i64";
   "read_nullable_datetime_i64"].

(* ---- single cases ---- *)
Definition err_code (e : err) : Z :=
  match e with
  | EUnderflow => 1 | EUnexpectedNull => 2 | EOutOfBound => 3 | ESchema => 4 | EValue => 5 | EOverflow => 5
  | EStruct => 7 | EType => 8 | ENotImplemented => 9 | EKey => 10 | EIndex => 11 | EAttr => 12
  | EAssert => 13 | ERecursion => 14 | EOutOfGas => 15
  end.

Record wpcase := { wp_name : string; wp_val : value; wp_out : res (list Z) }.
Definition check_wpcase (k : wpcase) : bool :=
  match public_write (wp_name k) (wp_val k), wp_out k with
  | Ok a, Ok b => zlist_eqb a b
  | Err e, Err f => err_code e =? err_code f
  | _, _ => false
  end.
Record rpcase := { rp_name : string; rp_in : list Z; rp_out : res (value * list Z) }.
Definition check_rpcase (k : rpcase) : bool :=
  match run (public_read (rp_name k)) (rp_in k), rp_out k with
  | Ok (v, r), Ok (v', r') => val_eqb v v' && zlist_eqb r r'
  | Err e, Err f => err_code e =? err_code f
  | _, _ => false
  end.

(* ---- range sweeps, compared through a CRC-32C of a canonical serialisation ---- *)
Definition ser_w (r : res (list Z)) : list Z :=
  match r with Ok b => zlen b mod 256 :: b | Err e => [255; err_code e] end.
(* integer results: 16 bytes two's complement; remainder length *)
Definition ser_r (r : res (value * list Z)) : list Z :=
  match r with
  | Ok (VInt z, rest) => 0 :: be_bytes 16 (z mod 2 ^ 128) ++ [zlen rest mod 256]
  | Ok (VBool b, rest) => [1; if b then 1 else 0; zlen rest mod 256]
  | Ok (VNull, rest) => [2; zlen rest mod 256]
  | Ok (VStr s, rest) => 3 :: s ++ [zlen rest mod 256]
  | Ok (VBytes s, rest) => 4 :: s ++ [zlen rest mod 256]
  | Ok (_, rest) => [9; zlen rest mod 256]
  | Err e => [255; err_code e]
  end.

Fixpoint zrange (lo : Z) (n : nat) : list Z :=
  match n with O => [] | S k => lo :: zrange (lo + 1) k end.

Definition sweep_write (name : string) (lo : Z) (n : nat) : Z :=
  crc32c (flat_map (fun z => ser_w (public_write name (VInt z))) (zrange lo n)).

(* all byte strings of length 2: b0 in [lo, lo+n), b1 in 0..255, followed by `suffix` *)
Definition sweep_read2 (name : string) (lo : Z) (n : nat) (suffix : list Z) : Z :=
  crc32c (flat_map (fun b0 => flat_map (fun b1 => ser_r (run (public_read name) (b0 :: b1 :: suffix)))
                                       (zrange 0 256)) (zrange lo n)).
Definition sweep_read1 (name : string) (suffix : list Z) : Z :=
  crc32c (flat_map (fun b0 => ser_r (run (public_read name) (b0 :: suffix))) (zrange 0 256)).
End Public.
