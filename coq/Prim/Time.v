(* Durations and timestamps as exact integers.  A duration is its number of microseconds
   (datetime.timedelta), a timestamp the number of microseconds since the Unix epoch of the
   instant (aware datetime.datetime; equality of aware datetimes is equality of instants).
   Definitions only. *)
From Coq Require Import ZArith List Bool.
From KioV Require Import Base.Res.
Open Scope Z_scope.

(* datetime.timedelta limits, in microseconds *)
Definition td_min_us : Z := -999999999 * 86400000000.
Definition td_max_us : Z := 999999999 * 86400000000 + 86399999999.
(* datetime.datetime limits as microseconds since the epoch (years 1 .. 9999, UTC) *)
Definition dt_min_us : Z := -62135596800000000.
Definition dt_max_us : Z := 253402300799999999.

(* timedelta(milliseconds=n): exact; OverflowError when |days| > 999999999 *)
Definition td_of_millis (n : Z) : res Z :=
  let us := n * 1000 in
  if (td_min_us <=? us) && (us <=? td_max_us) then Ok us else Err EOverflow.

(* round-half-even division by 1000: divmod, then compare twice the remainder *)
Definition round_half_even_1000 (us : Z) : Z :=
  let q := us / 1000 in
  let r := us mod 1000 in
  if (500 <? r) || ((r =? 500) && Z.odd q) then q + 1 else q.

(* epoch + timedelta(milliseconds=ms), then TZAware.truncate (parse: non-negative timestamp) *)
Definition tz_aware_from_millis (ms : Z) : res Z :=
  let us := ms * 1000 in
  if (us <? dt_min_us) || (dt_max_us <? us) then Err EOverflow
  else if us <? 0 then Err EOutOfBound
  else Ok us.
