(* Strict UTF-8 validity (RFC 3629), the model of bytes.decode(): overlong forms, surrogates
   and code points above U+10FFFF are rejected.  Definitions only. *)
From Coq Require Import ZArith List Bool.
Import ListNotations.
Open Scope Z_scope.

Definition in_rng (lo hi b : Z) : bool := (lo <=? b) && (b <=? hi).
Definition cont (b : Z) : bool := in_rng 128 191 b.

Fixpoint utf8_valid (l : list Z) : bool :=
  match l with
  | [] => true
  | b0 :: t0 =>
    if in_rng 0 127 b0 then utf8_valid t0
    else match t0 with
    | [] => false
    | b1 :: t1 =>
      if in_rng 194 223 b0 then cont b1 && utf8_valid t1
      else match t1 with
      | [] => false
      | b2 :: t2 =>
        if b0 =? 224 then in_rng 160 191 b1 && cont b2 && utf8_valid t2
        else if in_rng 225 236 b0 || in_rng 238 239 b0 then cont b1 && cont b2 && utf8_valid t2
        else if b0 =? 237 then in_rng 128 159 b1 && cont b2 && utf8_valid t2
        else match t2 with
        | [] => false
        | b3 :: t3 =>
          if b0 =? 240 then in_rng 144 191 b1 && cont b2 && cont b3 && utf8_valid t3
          else if in_rng 241 243 b0 then cont b1 && cont b2 && cont b3 && utf8_valid t3
          else if b0 =? 244 then in_rng 128 143 b1 && cont b2 && cont b3 && utf8_valid t3
          else false
        end
      end
    end
  end.
