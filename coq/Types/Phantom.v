(* The primitive value types of kio.static.primitive (phantom types): membership
   (isinstance = bound check + predicate) and the constructor call (parse).  Definitions only. *)
From Coq Require Import ZArith List Bool String.
From KioV Require Import Base.Res Prim.Bytes Prim.Time Codec.Value Codec.PrimCodec Schema.Raw.
Import ListNotations.
Open Scope string_scope.
Open Scope Z_scope.

(* the Python values the correspondence feeds to the types *)
Inductive pyval :=
| PyNone
| PyBool (b : bool)
| PyInt (z : Z)
| PyFloat (bits : Z)                 (* binary64 bit pattern *)
| PyStr (utf8 : list Z)
| PyBytes (b : list Z)
| PyTimedelta (us : Z)
| PyDatetime (aware : bool) (us : Z) (* instant in microseconds since the epoch; naive = no tzinfo *)
| PyUuid (b : list Z).

Definition pyval_eqb (a b : pyval) : bool :=
  match a, b with
  | PyNone, PyNone => true
  | PyBool x, PyBool y => Bool.eqb x y
  | PyInt x, PyInt y | PyFloat x, PyFloat y | PyTimedelta x, PyTimedelta y => x =? y
  | PyStr x, PyStr y | PyBytes x, PyBytes y | PyUuid x, PyUuid y => zlist_eqb x y
  | PyDatetime a x, PyDatetime b y => Bool.eqb a b && (x =? y)
  | _, _ => false
  end.

Inductive ptype :=
| TInterval (lo hi : Z)              (* any Interval subclass, by its bounds *)
| TF64 | TTd32 | TTd64 | TTzAware | TTzAwareMicros | TRecords.

Definition float_finite (bits : Z) : bool := negb (Z.land (Z.shiftr bits 52) 2047 =? 2047).

(* a bool is an int (int subclass) *)
Definition as_int (v : pyval) : option Z :=
  match v with PyInt z => Some z | PyBool b => Some (if b then 1 else 0) | _ => None end.

Definition td32_min_us : Z := - 2 ^ 31 * 1000.
Definition td32_max_us : Z := (2 ^ 31 - 1) * 1000.
(* i64_timedelta_max = timedelta.max - timedelta(days=1) *)
Definition td64_max_us : Z := td_max_us - 86400000000.

Definition isinstance (t : ptype) (v : pyval) : bool :=
  match t, v with
  | TInterval lo hi, _ => match as_int v with Some z => (lo <=? z) && (z <=? hi) | None => false end
  | TF64, PyFloat bits => float_finite bits
  | TTd32, PyTimedelta us => (td32_min_us <=? us) && (us <=? td32_max_us)
  | TTd64, PyTimedelta us => (td_min_us <=? us) && (us <=? td64_max_us)
  | TTzAware, PyDatetime true us => (us mod 1000 =? 0) && (0 <=? us)
  | TTzAwareMicros, PyDatetime true us => 0 <=? us
  | TRecords, PyBytes _ => true
  | _, _ => false
  end.

(* T(v) = T.parse(v) *)
Definition call (t : ptype) (v : pyval) : res pyval :=
  if isinstance t v then Ok v else Err EType.

(* the matching writer, on a member, and what the reader returns (C12's last clause) *)
Definition as_value (v : pyval) : value :=
  match v with
  | PyNone => VNull | PyBool b => VBool b | PyInt z => VInt z | PyFloat b => VF64 b
  | PyStr s => VStr s | PyBytes b => VBytes b | PyTimedelta us => VDur us
  | PyDatetime _ us => VTime us | PyUuid b => VUuid b
  end.

(* the documented domains *)
Definition documented_bounds : list (string * (Z * Z)) :=
  [("kio.static.primitive.i8", (- 2 ^ 7, 2 ^ 7 - 1)); ("kio.static.primitive.i16", (- 2 ^ 15, 2 ^ 15 - 1));
   ("kio.static.primitive.i32", (- 2 ^ 31, 2 ^ 31 - 1)); ("kio.static.primitive.i64", (- 2 ^ 63, 2 ^ 63 - 1));
   ("kio.static.primitive.u8", (0, 2 ^ 8 - 1)); ("kio.static.primitive.u16", (0, 2 ^ 16 - 1));
   ("kio.static.primitive.u32", (0, 2 ^ 32 - 1)); ("kio.static.primitive.u64", (0, 2 ^ 64 - 1));
   ("kio.static.primitive.uvarint", (0, 2 ^ 35 - 1)); ("kio.static.primitive.uvarlong", (0, 2 ^ 70 - 1));
   ("kio.static.primitive.svarint", (- 2 ^ 34, 2 ^ 34 - 1)); ("kio.static.primitive.svarlong", (- 2 ^ 69, 2 ^ 69 - 1))].

(* the translated interval table agrees with the documented one, both ways *)
Definition bounds_ok (ivs : list interval) : bool :=
  forallb (fun d => existsb (fun iv => String.eqb (iv_name iv) (fst d) && (iv_low iv =? fst (snd d))
                                       && (iv_high iv =? snd (snd d))) ivs) documented_bounds
  && forallb (fun iv => existsb (fun d => String.eqb (iv_name iv) (fst d)) documented_bounds) ivs.

(* nesting by subclassing as the translated MROs state it: every interval type's bounds lie
   within the bounds of each interval type in its MRO *)
Definition nesting_ok (ivs : list interval) : bool :=
  forallb (fun iv => forallb (fun m =>
      match find (fun jv => String.eqb (iv_name jv) m) ivs with
      | Some jv => (iv_low jv <=? iv_low iv) && (iv_high iv <=? iv_high jv)
      | None => true
      end) (iv_mro iv)) ivs
  && (* the documented chains are subclass chains *)
  forallb (fun p => match find (fun iv => String.eqb (iv_name iv) (fst p)) ivs with
                    | Some iv => existsb (String.eqb (snd p)) (iv_mro iv)
                    | None => false
                    end)
    [("kio.static.primitive.i8", "kio.static.primitive.i16"); ("kio.static.primitive.i16", "kio.static.primitive.i32");
     ("kio.static.primitive.i32", "kio.static.primitive.i64"); ("kio.static.primitive.u8", "kio.static.primitive.u16");
     ("kio.static.primitive.u16", "kio.static.primitive.u32"); ("kio.static.primitive.u32", "kio.static.primitive.u64")].

Definition c12_ok (s : schema) : bool := bounds_ok (s_intervals s) && nesting_ok (s_intervals s).

(* ---- executable comparison ---- *)
Record tcase := { t_type : ptype; t_val : pyval; t_isinstance : bool; t_call_ok : bool }.
Definition check_tcase (k : tcase) : bool :=
  Bool.eqb (isinstance (t_type k) (t_val k)) (t_isinstance k)
  && Bool.eqb (is_ok (call (t_type k) (t_val k))) (t_call_ok k).
