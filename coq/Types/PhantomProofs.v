(* Property C12: the primitive value types of kio.static.primitive (Types/Phantom.v) denote
   exactly their wire domains: the constructor call, nesting of the integer types, and for each
   type "member => the matching writer succeeds and the reader returns the (rounded) value". *)
From Coq Require Import ZArith List Bool Lia.
From KioV Require Import Base.Res Base.Prog Base.ProgProofs
  Prim.Bytes Prim.Time Prim.BytesProofs
  Codec.Value Codec.PrimCodec Codec.PrimCodecProofs Types.Phantom.
Import ListNotations.
Open Scope Z_scope.

(* ------------------------------------------------------------------------------------------ *)
(* constructor call: returns the value unchanged exactly for members, TypeError otherwise *)
Theorem call_spec : forall t v, call t v = if isinstance t v then Ok v else Err EType.
Proof. reflexivity. Qed.
Print Assumptions call_spec.

Corollary call_member : forall t v, isinstance t v = true <-> call t v = Ok v.
Proof.
  intros t v. rewrite call_spec. destruct (isinstance t v); split; intros H;
    try reflexivity; discriminate H.
Qed.
Print Assumptions call_member.

Corollary call_non_member : forall t v, isinstance t v = false <-> call t v = Err EType.
Proof.
  intros t v. rewrite call_spec. destruct (isinstance t v); split; intros H;
    try reflexivity; discriminate H.
Qed.
Print Assumptions call_non_member.

(* ------------------------------------------------------------------------------------------ *)
(* membership in an integer type is the bound check on the integer the value denotes *)
Lemma interval_spec lo hi v :
  isinstance (TInterval lo hi) v = true <-> exists z, as_int v = Some z /\ lo <= z <= hi.
Proof.
  cbn [isinstance]. destruct (as_int v) as [z|].
  - rewrite andb_true_iff, !Z.leb_le. split.
    + intros H. exists z. split; [reflexivity|exact H].
    + intros [z' [E H]]. inversion E. subst. exact H.
  - split; [discriminate|]. intros [z [E _]]. discriminate E.
Qed.

(* integer types nest by range: for ALL values (so in particular all integers) *)
Theorem interval_nesting : forall lo1 hi1 lo2 hi2 v, lo2 <= lo1 -> hi1 <= hi2 ->
  isinstance (TInterval lo1 hi1) v = true -> isinstance (TInterval lo2 hi2) v = true.
Proof.
  intros lo1 hi1 lo2 hi2 v Hlo Hhi H. apply interval_spec in H. destruct H as [z [E H]].
  apply interval_spec. exists z. split; [exact E|lia].
Qed.
Print Assumptions interval_nesting.

Corollary i8_i16_i32_i64 : forall v,
  (isinstance (TInterval (-2^7) (2^7-1)) v = true -> isinstance (TInterval (-2^15) (2^15-1)) v = true) /\
  (isinstance (TInterval (-2^15) (2^15-1)) v = true -> isinstance (TInterval (-2^31) (2^31-1)) v = true) /\
  (isinstance (TInterval (-2^31) (2^31-1)) v = true -> isinstance (TInterval (-2^63) (2^63-1)) v = true).
Proof.
  intros v. repeat split; apply interval_nesting; vm_compute; discriminate.
Qed.
Print Assumptions i8_i16_i32_i64.

Corollary u8_u16_u32_u64 : forall v,
  (isinstance (TInterval 0 (2^8-1)) v = true -> isinstance (TInterval 0 (2^16-1)) v = true) /\
  (isinstance (TInterval 0 (2^16-1)) v = true -> isinstance (TInterval 0 (2^32-1)) v = true) /\
  (isinstance (TInterval 0 (2^32-1)) v = true -> isinstance (TInterval 0 (2^64-1)) v = true).
Proof.
  intros v. repeat split; apply interval_nesting; vm_compute; discriminate.
Qed.
Print Assumptions u8_u16_u32_u64.

(* the nesting is strict: the upper end of each type is not in the type below *)
Example nesting_strict :
  isinstance (TInterval (-2^15) (2^15-1)) (PyInt (2^7)) = true /\
  isinstance (TInterval (-2^7) (2^7-1)) (PyInt (2^7)) = false /\
  isinstance (TInterval 0 (2^64-1)) (PyInt (2^32)) = true /\
  isinstance (TInterval 0 (2^32-1)) (PyInt (2^32)) = false /\
  (* unsigned types are not within the signed type of the same width, and conversely *)
  isinstance (TInterval 0 (2^8-1)) (PyInt 255) = true /\
  isinstance (TInterval (-2^7) (2^7-1)) (PyInt 255) = false /\
  isinstance (TInterval (-2^7) (2^7-1)) (PyInt (-1)) = true /\
  isinstance (TInterval 0 (2^8-1)) (PyInt (-1)) = false.
Proof. vm_compute. repeat split. Qed.

(* ------------------------------------------------------------------------------------------ *)
(* fixed-width integers *)
Lemma int_member_range w s z :
  isinstance (TInterval (int_lo w s) (int_hi w s)) (PyInt z) = in_int_range w s z.
Proof. reflexivity. Qed.

(* membership in the w-byte type <-> the matching writer succeeds.  (The hypothesis 0 < w is
   not needed for this direction-pair; it is kept to match the statement of the property.) *)
Theorem int_member_iff_writable : forall w s z, (0 < w)%nat ->
  (isinstance (TInterval (int_lo w s) (int_hi w s)) (PyInt z) = true <->
   exists bs, write_int w s z = Ok bs).
Proof.
  intros w s z _. rewrite int_member_range. unfold write_int.
  destruct (in_int_range w s z).
  - split; [intros _; eexists; reflexivity|reflexivity].
  - split; [discriminate|]. intros [bs H]. discriminate H.
Qed.
Print Assumptions int_member_iff_writable.

(* the rejection is the writer's own error (struct.error), never anything else *)
Corollary int_non_member_struct_error : forall w s z,
  isinstance (TInterval (int_lo w s) (int_hi w s)) (PyInt z) = false ->
  write_int w s z = Err EStruct.
Proof. intros w s z H. rewrite int_member_range in H. apply write_int_out_of_range. exact H. Qed.
Print Assumptions int_non_member_struct_error.

Theorem int_member_roundtrip : forall w s z bs tl, (0 < w)%nat ->
  isinstance (TInterval (int_lo w s) (int_hi w s)) (PyInt z) = true -> write_int w s z = Ok bs ->
  run (read_int w s) (bs ++ tl) = Ok (z, tl).
Proof. intros w s z bs tl Hw _ H. apply read_write_int; assumption. Qed.
Print Assumptions int_member_roundtrip.

(* the same at the level of the field codec PInt w s, on the value the member denotes *)
Corollary int_member_codec_roundtrip : forall ec w s z tl, (0 < w)%nat ->
  isinstance (TInterval (int_lo w s) (int_hi w s)) (PyInt z) = true ->
  exists bs, enc_prim (PInt w s) (as_value (PyInt z)) = Ok bs /\
             run (dec_prim ec (PInt w s)) (bs ++ tl) = Ok (as_value (PyInt z), tl).
Proof.
  intros ec w s z tl Hw H. apply (int_member_iff_writable w s z Hw) in H. destruct H as [bs H].
  exists bs. cbn [as_value enc_prim]. split; [exact H|].
  cbn [dec_prim]. rewrite run_bind, (read_write_int _ _ _ _ tl Hw H). reflexivity.
Qed.
Print Assumptions int_member_codec_roundtrip.

Lemma int_member_bounds w s z :
  isinstance (TInterval (int_lo w s) (int_hi w s)) (PyInt z) = true <-> int_lo w s <= z <= int_hi w s.
Proof. rewrite int_member_range. apply in_int_range_spec. Qed.

(* what the members are, concretely, for the eight fixed-width types *)
Corollary int_domains : forall z,
  (isinstance (TInterval (int_lo 1 true) (int_hi 1 true)) (PyInt z) = true <-> -2^7 <= z <= 2^7-1) /\
  (isinstance (TInterval (int_lo 2 true) (int_hi 2 true)) (PyInt z) = true <-> -2^15 <= z <= 2^15-1) /\
  (isinstance (TInterval (int_lo 4 true) (int_hi 4 true)) (PyInt z) = true <-> -2^31 <= z <= 2^31-1) /\
  (isinstance (TInterval (int_lo 8 true) (int_hi 8 true)) (PyInt z) = true <-> -2^63 <= z <= 2^63-1) /\
  (isinstance (TInterval (int_lo 1 false) (int_hi 1 false)) (PyInt z) = true <-> 0 <= z <= 2^8-1) /\
  (isinstance (TInterval (int_lo 2 false) (int_hi 2 false)) (PyInt z) = true <-> 0 <= z <= 2^16-1) /\
  (isinstance (TInterval (int_lo 4 false) (int_hi 4 false)) (PyInt z) = true <-> 0 <= z <= 2^32-1) /\
  (isinstance (TInterval (int_lo 8 false) (int_hi 8 false)) (PyInt z) = true <-> 0 <= z <= 2^64-1).
Proof.
  intros z.
  exact (conj (int_member_bounds 1 true z) (conj (int_member_bounds 2 true z)
        (conj (int_member_bounds 4 true z) (conj (int_member_bounds 8 true z)
        (conj (int_member_bounds 1 false z) (conj (int_member_bounds 2 false z)
        (conj (int_member_bounds 4 false z) (int_member_bounds 8 false z)))))))).
Qed.
Print Assumptions int_domains.

(* ------------------------------------------------------------------------------------------ *)
(* f64: a float is a member iff it is finite (exponent field <> 2047) *)
Lemma f64_member_iff bits :
  isinstance TF64 (PyFloat bits) = true <-> Z.land (Z.shiftr bits 52) 2047 <> 2047.
Proof.
  cbn [isinstance]. unfold float_finite. rewrite negb_true_iff, Z.eqb_neq. tauto.
Qed.

(* every member (given as a 64-bit pattern) is written and read back bit-identically.  The
   membership hypothesis is not used: the writer/reader pair is the identity on all 2^64
   patterns, including the infinities and NaNs the type rejects. *)
Theorem f64_member_roundtrip : forall ec bits tl, 0 <= bits < 2^64 ->
  isinstance TF64 (PyFloat bits) = true ->
  exists bs, enc_prim PF64 (VF64 bits) = Ok bs /\
             run (dec_prim ec PF64) (bs ++ tl) = Ok (VF64 bits, tl).
Proof.
  intros ec bits tl Hb _.
  assert (Ht: typed_prim ec PF64 (VF64 bits) = true).
  { cbn [typed_prim]. apply andb_true_iff. split; [apply Z.leb_le|apply Z.ltb_lt]; lia. }
  destruct (prim_enc_total ec _ _ Ht) as [bs He]. exists bs. split; [exact He|].
  apply prim_roundtrip_same; assumption.
Qed.
Print Assumptions f64_member_roundtrip.

Example f64_examples :
  isinstance TF64 (PyFloat 0) = true /\                              (* 0.0 *)
  isinstance TF64 (PyFloat (2^63)) = true /\                         (* -0.0 *)
  isinstance TF64 (PyFloat (2047 * 2^52 - 1)) = true /\              (* largest finite *)
  isinstance TF64 (PyFloat (2047 * 2^52)) = false /\                 (* +inf *)
  isinstance TF64 (PyFloat (2^63 + 2047 * 2^52)) = false /\          (* -inf *)
  isinstance TF64 (PyFloat (2047 * 2^52 + 2^51)) = false /\          (* quiet NaN *)
  isinstance TF64 (PyFloat (2^64 - 1)) = false.                      (* NaN, all ones *)
Proof. vm_compute. repeat split. Qed.

(* ------------------------------------------------------------------------------------------ *)
(* rounding half to even to whole milliseconds: within half a millisecond, monotone against
   whole-millisecond bounds *)
Lemma rhe_lower a us : a * 1000 <= us -> a <= round_half_even_1000 us.
Proof.
  intros H. unfold round_half_even_1000. cbv zeta.
  pose proof (Z.div_mod us 1000 ltac:(lia)) as Hd.
  pose proof (Z.mod_pos_bound us 1000 ltac:(lia)) as Hm.
  destruct ((500 <? us mod 1000) || ((us mod 1000 =? 500) && Z.odd (us / 1000))); lia.
Qed.

Lemma rhe_upper b us : us <= b * 1000 -> round_half_even_1000 us <= b.
Proof.
  intros H. unfold round_half_even_1000. cbv zeta.
  pose proof (Z.div_mod us 1000 ltac:(lia)) as Hd.
  pose proof (Z.mod_pos_bound us 1000 ltac:(lia)) as Hm.
  destruct ((500 <? us mod 1000) || ((us mod 1000 =? 500) && Z.odd (us / 1000))) eqn:E;
    [|lia].
  assert (500 <= us mod 1000) by (b2p; lia). lia.
Qed.

Lemma rhe_near us : us - 500 <= round_half_even_1000 us * 1000 <= us + 500.
Proof.
  unfold round_half_even_1000. cbv zeta.
  pose proof (Z.div_mod us 1000 ltac:(lia)) as Hd.
  pose proof (Z.mod_pos_bound us 1000 ltac:(lia)) as Hm.
  destruct ((500 <? us mod 1000) || ((us mod 1000 =? 500) && Z.odd (us / 1000))) eqn:E.
  - assert (500 <= us mod 1000) by (b2p; lia). lia.
  - assert (us mod 1000 <= 500) by (b2p; lia). lia.
Qed.

(* the duration reader after the integer writer *)
Lemma read_timedelta_after_write w m bs tl :
  write_int w true m = Ok bs -> td_min_us <= m * 1000 <= td_max_us ->
  run (read_timedelta w) (bs ++ tl) = Ok (VDur (m * 1000), tl).
Proof.
  intros Hw Hr. unfold read_timedelta.
  rewrite run_bind, (read_write_int_any _ _ _ _ _ Hw), run_bind, run_lift.
  unfold td_of_millis. cbv zeta.
  replace ((td_min_us <=? m * 1000) && (m * 1000 <=? td_max_us)) with true; [reflexivity|].
  symmetry. apply andb_true_iff. split; apply Z.leb_le; lia.
Qed.

(* durations, 32 bit: the bound of the type is in microseconds, (2^31-1)*1000 at the top and
   -2^31*1000 at the bottom, both whole milliseconds, so rounding cannot leave int32 *)
Lemma td32_member_iff us :
  isinstance TTd32 (PyTimedelta us) = true <-> -2147483648 * 1000 <= us <= 2147483647 * 1000.
Proof.
  cbn [isinstance]. rewrite andb_true_iff, !Z.leb_le. unfold td32_min_us, td32_max_us.
  change (2 ^ 31) with 2147483648. lia.
Qed.

Lemma td32_member_fits us :
  isinstance TTd32 (PyTimedelta us) = true -> in_int_range 4 true (round_half_even_1000 us) = true.
Proof.
  intros H. apply td32_member_iff in H. apply range_s4.
  pose proof (rhe_lower (-2147483648) us). pose proof (rhe_upper 2147483647 us). lia.
Qed.

Theorem td32_member_roundtrip : forall ec us tl, isinstance TTd32 (PyTimedelta us) = true ->
  exists bs, enc_prim PTd32 (VDur us) = Ok bs /\
             run (dec_prim ec PTd32) (bs ++ tl) = Ok (VDur (round_half_even_1000 us * 1000), tl).
Proof.
  intros ec us tl H. pose proof (td32_member_fits us H) as Hr.
  destruct (write_int_total _ _ _ Hr) as [bs Hbs]. exists bs.
  cbn [enc_prim write_timedelta dec_prim]. split; [exact Hbs|].
  apply read_timedelta_after_write; [exact Hbs|].
  apply range_s4 in Hr. unfold td_min_us, td_max_us. lia.
Qed.
Print Assumptions td32_member_roundtrip.

(* durations, 64 bit: the type's limits are timedelta.min and timedelta.max - 1 day *)
Lemma td64_member_iff us :
  isinstance TTd64 (PyTimedelta us) = true <->
  -86399999913600000000 <= us <= 86399999913599999999.
Proof.
  cbn [isinstance]. rewrite andb_true_iff, !Z.leb_le.
  unfold td64_max_us, td_min_us, td_max_us. lia.
Qed.

(* the rounded millisecond count of a member: fits int64 with a wide margin, and converting it
   back to a duration cannot overflow timedelta *)
Lemma td64_member_fits us : isinstance TTd64 (PyTimedelta us) = true ->
  in_int_range 8 true (round_half_even_1000 us) = true /\
  td_min_us <= round_half_even_1000 us * 1000 <= td_max_us.
Proof.
  intros H. apply td64_member_iff in H.
  pose proof (rhe_lower (-86399999913600000) us).
  pose proof (rhe_upper 86399999913600000 us).
  split; [apply range_s8; lia|unfold td_min_us, td_max_us; lia].
Qed.

Theorem td64_member_roundtrip : forall ec us tl, isinstance TTd64 (PyTimedelta us) = true ->
  exists bs, enc_prim PTd64 (VDur us) = Ok bs /\
             run (dec_prim ec PTd64) (bs ++ tl) = Ok (VDur (round_half_even_1000 us * 1000), tl).
Proof.
  intros ec us tl H. destruct (td64_member_fits us H) as [Hr Hb].
  destruct (write_int_total _ _ _ Hr) as [bs Hbs]. exists bs.
  cbn [enc_prim write_timedelta dec_prim]. split; [exact Hbs|].
  apply read_timedelta_after_write; assumption.
Qed.
Print Assumptions td64_member_roundtrip.

(* whole-millisecond members read back equal; any member reads back within half a millisecond *)
Corollary td_member_exact : forall ec us tl, us mod 1000 = 0 ->
  (isinstance TTd32 (PyTimedelta us) = true ->
   exists bs, enc_prim PTd32 (VDur us) = Ok bs /\ run (dec_prim ec PTd32) (bs ++ tl) = Ok (VDur us, tl)) /\
  (isinstance TTd64 (PyTimedelta us) = true ->
   exists bs, enc_prim PTd64 (VDur us) = Ok bs /\ run (dec_prim ec PTd64) (bs ++ tl) = Ok (VDur us, tl)).
Proof.
  intros ec us tl Hm.
  assert (E: round_half_even_1000 us * 1000 = us)
    by (rewrite rhe_exact by exact Hm; apply millis_exact; exact Hm).
  split; intros H.
  - destruct (td32_member_roundtrip ec us tl H) as [bs [H1 H2]]. rewrite E in H2. eauto.
  - destruct (td64_member_roundtrip ec us tl H) as [bs [H1 H2]]. rewrite E in H2. eauto.
Qed.
Print Assumptions td_member_exact.

(* Is the read-back duration of a member a member again (does rounding stay inside the type)?
   TRUE for the 32-bit type.  FALSE for the 64-bit type as one would state it
     forall us, isinstance TTd64 (PyTimedelta us) = true ->
                isinstance TTd64 (PyTimedelta (round_half_even_1000 us * 1000)) = true
   because the upper limit timedelta.max - 1 day = 999999998 days 23:59:59.999999 is not a whole
   millisecond: each of the top 500 members (us = td64_max_us - 499 .. td64_max_us) is written
   as 86399999913600000 ms and read back as exactly 999999999 days = td64_max_us + 1, which
   is_i64_timedelta rejects.  (Checked against the library: write_timedelta_i64 then
   read_timedelta_i64 of i64_timedelta_max returns timedelta(days=999999999), for which
   isinstance(_, i64Timedelta) is False.)  The lower end is a whole millisecond and is fine. *)
Example td64_rounded_member_cex :
  isinstance TTd64 (PyTimedelta td64_max_us) = true /\
  isinstance TTd64 (PyTimedelta (round_half_even_1000 td64_max_us * 1000)) = false /\
  isinstance TTd64 (PyTimedelta (td64_max_us - 499)) = true /\
  isinstance TTd64 (PyTimedelta (round_half_even_1000 (td64_max_us - 499) * 1000)) = false /\
  isinstance TTd64 (PyTimedelta (round_half_even_1000 (td64_max_us - 500) * 1000)) = true.
Proof. vm_compute. repeat split. Qed.

Corollary td_rounded_member_partial : forall us,
  (isinstance TTd32 (PyTimedelta us) = true ->
   isinstance TTd32 (PyTimedelta (round_half_even_1000 us * 1000)) = true) /\
  (isinstance TTd64 (PyTimedelta us) = true ->
   td_min_us <= round_half_even_1000 us * 1000 <= td64_max_us + 1 /\
   (us <= td64_max_us - 500 ->
    isinstance TTd64 (PyTimedelta (round_half_even_1000 us * 1000)) = true) /\
   (td64_max_us - 500 < us -> round_half_even_1000 us * 1000 = td64_max_us + 1)).
Proof.
  intros us. split; intros H.
  - apply td32_member_fits in H. apply range_s4 in H. apply td32_member_iff. lia.
  - apply td64_member_iff in H.
    pose proof (rhe_lower (-86399999913600000) us) as Hl.
    pose proof (rhe_upper 86399999913600000 us) as Hu.
    unfold td64_max_us, td_min_us, td_max_us. split; [lia|]. split.
    + intros Hs. apply td64_member_iff.
      pose proof (rhe_near us). lia.
    + intros Hs.
      (* us = 86399999913599999 * 1000 + r with 500 <= r <= 999, the quotient being odd *)
      assert (Eq: us / 1000 = 86399999913599999).
      { symmetry. apply (Z.div_unique us 1000 86399999913599999 (us - 86399999913599999000)); lia. }
      assert (Em: us mod 1000 = us - 86399999913599999000).
      { pose proof (Z.div_mod us 1000 ltac:(lia)). lia. }
      unfold round_half_even_1000. cbv zeta. rewrite Eq, Em.
      destruct ((500 <? us - 86399999913599999000) ||
                ((us - 86399999913599999000 =? 500) && Z.odd 86399999913599999)) eqn:E; [lia|].
      exfalso. apply orb_false_iff in E. destruct E as [E1 E2].
      apply Z.ltb_ge in E1. apply andb_false_iff in E2. destruct E2 as [E2|E2].
      * apply Z.eqb_neq in E2. lia.
      * vm_compute in E2. discriminate E2.
Qed.
Print Assumptions td_rounded_member_partial.

(* edge cases of the duration types, by computation *)
Example td32_edges :
  (* the top of the type, exactly and just below: rounds to 2^31-1, never to 2^31 *)
  round_half_even_1000 td32_max_us = 2^31 - 1 /\
  round_half_even_1000 (td32_max_us - 1) = 2^31 - 1 /\
  round_half_even_1000 (td32_max_us - 500) = 2^31 - 2 /\      (* tie, to the even 2^31-2 *)
  round_half_even_1000 (td32_max_us - 1500) = 2^31 - 2 /\     (* tie, up to the even 2^31-2 *)
  round_half_even_1000 td32_min_us = - 2^31 /\
  round_half_even_1000 (td32_min_us + 500) = - 2^31 /\        (* tie, to the even -2^31 *)
  (* one microsecond outside either end is rejected by the type although the writer alone
     would still accept it (it rounds back into int32): the type is the stricter of the two *)
  isinstance TTd32 (PyTimedelta (td32_max_us + 1)) = false /\
  is_ok (enc_prim PTd32 (VDur (td32_max_us + 1))) = true /\
  isinstance TTd32 (PyTimedelta (td32_min_us - 1)) = false /\
  is_ok (enc_prim PTd32 (VDur (td32_min_us - 1))) = true /\
  (* from half a millisecond outside on, the writer fails too *)
  enc_prim PTd32 (VDur (td32_max_us + 500)) = Err EStruct /\
  enc_prim PTd32 (VDur (td32_min_us - 501)) = Err EStruct.
Proof. vm_compute. repeat split. Qed.

Example td64_edges :
  isinstance TTd64 (PyTimedelta td_min_us) = true /\
  isinstance TTd64 (PyTimedelta (td_min_us - 1)) = false /\
  isinstance TTd64 (PyTimedelta td64_max_us) = true /\
  isinstance TTd64 (PyTimedelta (td64_max_us + 1)) = false /\
  (* the top member has 999 us of sub-millisecond part and rounds UP, still far from the limit *)
  td64_max_us mod 1000 = 999 /\
  round_half_even_1000 td64_max_us * 1000 = td64_max_us + 1 /\
  (* why the upper limit cannot be timedelta.max itself: timedelta.max is accepted by the
     writer, but rounds up to one microsecond past timedelta.max, which the reader cannot
     build (OverflowError) *)
  is_ok (enc_prim PTd64 (VDur td_max_us)) = true /\
  round_half_even_1000 td_max_us * 1000 = td_max_us + 1 /\
  td_of_millis (round_half_even_1000 td_max_us) = Err EOverflow /\
  (* the largest duration for which write-then-read succeeds is timedelta.max - 500 us *)
  td_of_millis (round_half_even_1000 (td_max_us - 500)) = Ok (td_max_us - 999) /\
  td_of_millis (round_half_even_1000 (td_max_us - 499)) = Err EOverflow.
Proof. vm_compute. repeat split. Qed.

(* ------------------------------------------------------------------------------------------ *)
(* timestamps *)
Lemma tz_member_iff a us :
  isinstance TTzAware (PyDatetime a us) = true <-> a = true /\ us mod 1000 = 0 /\ 0 <= us.
Proof.
  destruct a; cbn [isinstance].
  - rewrite andb_true_iff, Z.eqb_eq, Z.leb_le. tauto.
  - split; [discriminate|]. intros [H _]. discriminate H.
Qed.

(* every member within python's datetime range is accepted by the writer and reads back equal,
   with the nullable reader too: a member has us >= 0, so its millisecond count is never the
   null marker -1 *)
Theorem tz_member_roundtrip : forall ec us tl n,
  isinstance TTzAware (PyDatetime true us) = true -> us <= dt_max_us ->
  exists bs, enc_prim (PDt n) (VTime us) = Ok bs /\
             run (dec_prim ec (PDt n)) (bs ++ tl) = Ok (VTime us, tl).
Proof.
  intros ec us tl n H Hmax. apply tz_member_iff in H. destruct H as (_ & Hm & H0).
  assert (Ht: typed_prim ec (PDt n) (VTime us) = true).
  { cbn [typed_prim]. rewrite !andb_true_iff, Z.eqb_eq, !Z.leb_le. auto. }
  destruct (prim_enc_total ec _ _ Ht) as [bs He]. exists bs. split; [exact He|].
  apply prim_roundtrip_same; assumption.
Qed.
Print Assumptions tz_member_roundtrip.

(* a member written by the non-nullable writer is read back by the nullable reader as well
   (tagged fields) *)
Corollary tz_member_roundtrip_sub : forall ec us tl,
  isinstance TTzAware (PyDatetime true us) = true -> us <= dt_max_us ->
  exists bs, enc_prim (PDt false) (VTime us) = Ok bs /\
             run (dec_prim ec (PDt true)) (bs ++ tl) = Ok (VTime us, tl).
Proof.
  intros ec us tl H Hmax. apply tz_member_iff in H. destruct H as (_ & Hm & H0).
  assert (Ht: typed_prim ec (PDt false) (VTime us) = true).
  { cbn [typed_prim]. rewrite !andb_true_iff, Z.eqb_eq, !Z.leb_le. auto. }
  destruct (prim_enc_total ec _ _ Ht) as [bs He]. exists bs. split; [exact He|].
  apply (prim_roundtrip ec (PDt false) (PDt true) _ _ _ eq_refl Ht He).
Qed.
Print Assumptions tz_member_roundtrip_sub.

(* the microsecond-precision timestamp type contains the millisecond one *)
Lemma tz_aware_sub_micros v : isinstance TTzAware v = true -> isinstance TTzAwareMicros v = true.
Proof.
  destruct v as [| | | | | | |a us|]; try discriminate. destruct a; [|discriminate].
  cbn [isinstance]. intros H. apply andb_true_iff in H. tauto.
Qed.

Example tz_edges :
  isinstance TTzAware (PyDatetime true 0) = true /\
  isinstance TTzAware (PyDatetime true (-1000)) = false /\
  (* the last member inside python's range: 9999-12-31T23:59:59.999 *)
  isinstance TTzAware (PyDatetime true (dt_max_us - 999)) = true /\
  dt_max_us mod 1000 = 999 /\
  isinstance TTzAware (PyDatetime true dt_max_us) = false /\
  (* the model's type has no upper bound of its own (python cannot build such a datetime):
     the hypothesis us <= dt_max_us of the theorem is needed *)
  isinstance TTzAware (PyDatetime true (dt_max_us + 1)) = true /\
  tz_aware_from_millis (round_half_even_1000 (dt_max_us + 1)) = Err EOverflow.
Proof. vm_compute. repeat split. Qed.

(* ------------------------------------------------------------------------------------------ *)
(* non-members are rejected: examples of the 'everything else' clause, by computation *)
Example rejects :
  isinstance (TInterval 0 255) (PyFloat 0) = false /\ isinstance (TInterval 0 255) (PyStr []) = false
  /\ isinstance TF64 (PyInt 1) = false /\ isinstance TTzAware (PyDatetime false 0) = false
  /\ isinstance TTzAware (PyDatetime true 1500) = false
  /\ isinstance TTd32 (PyTimedelta (2^31 * 1000)) = false
  /\ call (TInterval (-128) 127) (PyInt 128) = Err EType
  /\ isinstance (TInterval 0 255) (PyBool true) = true.
Proof. vm_compute. repeat split. Qed.

(* the 'everything else' clause in general: a value of the wrong kind is never a member *)
Lemma interval_only_ints lo hi v :
  isinstance (TInterval lo hi) v = true -> exists z, as_int v = Some z.
Proof. intros H. apply interval_spec in H. destruct H as [z [E _]]. exists z. exact E. Qed.

Lemma members_kind t v : isinstance t v = true ->
  match t with
  | TInterval _ _ => exists z, as_int v = Some z
  | TF64 => exists b, v = PyFloat b
  | TTd32 | TTd64 => exists us, v = PyTimedelta us
  | TTzAware | TTzAwareMicros => exists us, v = PyDatetime true us
  | TRecords => exists b, v = PyBytes b
  end.
Proof.
  destruct t; intros H; [eapply interval_only_ints; exact H| | | | | |];
    destruct v as [| | | | | | |a us|]; try discriminate H; try (eexists; reflexivity);
    destruct a; try discriminate H; eexists; reflexivity.
Qed.

(* a bool is a member of every integer type containing 0/1 (bool is an int subclass), and the
   constructor returns it unchanged; note that as_value keeps it a VBool, which the integer
   writer of the value-level codec model does not take: the writer theorems above are therefore
   stated on PyInt *)
Example bool_member :
  call (TInterval 0 255) (PyBool true) = Ok (PyBool true) /\
  enc_prim (PInt 1 false) (as_value (PyBool true)) = Err EType /\
  enc_prim (PInt 1 false) (as_value (PyInt 1)) = Ok [1].
Proof. vm_compute. repeat split. Qed.
