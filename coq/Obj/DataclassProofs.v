From Coq Require Import ZArith List Bool.
From KioV Require Import Base.Res Codec.Value Codec.RoundtripProofs Obj.Dataclass.
Import ListNotations.

Lemma inst_eqb_eq a b : inst_eqb a b = true <-> a = b.
Proof.
  unfold inst_eqb. destruct a as [ca fa], b as [cb fb]. cbn [i_cls i_fields]. split.
  - intros H. apply andb_true_iff in H. destruct H as [H1 H2]. apply Nat.eqb_eq in H1.
    apply val_eqb_eq in H2. congruence.
  - intros H. injection H as -> ->. rewrite Nat.eqb_refl, val_eqb_refl. reflexivity.
Qed.

(* equality is an equivalence: instances are equal exactly when all fields are equal *)
Theorem eq_refl_inst a : inst_eqb a a = true.
Proof. apply inst_eqb_eq. reflexivity. Qed.
Theorem eq_sym_inst a b : inst_eqb a b = inst_eqb b a.
Proof.
  destruct (inst_eqb a b) eqn:E1, (inst_eqb b a) eqn:E2; try reflexivity.
  - apply inst_eqb_eq in E1. subst. rewrite eq_refl_inst in E2. discriminate.
  - apply inst_eqb_eq in E2. subst. rewrite eq_refl_inst in E1. discriminate.
Qed.
Theorem eq_trans_inst a b c : inst_eqb a b = true -> inst_eqb b c = true -> inst_eqb a c = true.
Proof. intros H1 H2. apply inst_eqb_eq in H1, H2. subst. apply eq_refl_inst. Qed.

(* any hash that is a function of the class and field values is consistent with equality *)
Section Hash.
  Variable H : nat -> list value -> Z.
  Definition hash_inst (x : inst) : Z := H (i_cls x) (i_fields x).
  Theorem eq_hash a b : inst_eqb a b = true -> hash_inst a = hash_inst b.
  Proof. intros E. apply inst_eqb_eq in E. subst. reflexivity. Qed.
End Hash.

(* no operation sequence changes the instance; copies are equal new instances *)
Theorem ops_leave_instance_unchanged : forall ops x, fold_left (fun s o => fst (step s o)) ops x = x.
Proof. induction ops as [|o ops IH]; intros x; cbn [fold_left]; [reflexivity|]. destruct o; cbn [step fst]; apply IH. Qed.
Theorem copies_are_equal : forall x o y, (o = Copy \/ o = DeepCopy \/ o = Pickle) -> snd (step x o) = Produced y -> inst_eqb x y = true.
Proof.
  intros x o y [->|[->| ->]] H; cbn [step snd] in H; injection H as <-; apply inst_eqb_eq; destruct x; reflexivity.
Qed.
Theorem mutation_refused : forall x o, (exists n v, o = SetAttr n v) \/ (exists n, o = DelAttr n) \/ (exists v, o = SetNew v) ->
  step x o = (x, Refused).
Proof. intros x o [[n [v ->]]|[[n ->]|[v ->]]]; reflexivity. Qed.
