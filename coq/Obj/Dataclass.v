(* Entities as immutable value objects: an abstract machine for frozen, slotted dataclass
   instances.  An instance is its class index and field values; the only operations that could
   change it (attribute assignment and deletion) are refused; equality is field-wise structural
   equality; copy / replace / pickle rebuild an instance from field values.  Definitions only. *)
From Coq Require Import ZArith List Bool.
From KioV Require Import Base.Res Codec.Value.
Import ListNotations.

Record inst := { i_cls : nat; i_fields : list value }.

Inductive op :=
| SetAttr (field : nat) (v : value)      (* object.__setattr__ via normal assignment *)
| DelAttr (field : nat)
| SetNew (v : value)                     (* assignment to a name that is not a field *)
| Copy | DeepCopy | Pickle               (* produce a new instance *)
| Replace (field : nat) (v : value).     (* dataclasses.replace(x, field=v) *)

Inductive outcome := Refused | Produced (i : inst).

Fixpoint set_nth (n : nat) (v : value) (l : list value) : list value :=
  match n, l with
  | _, [] => []
  | O, _ :: tl => v :: tl
  | S k, x :: tl => x :: set_nth k v tl
  end.

(* frozen = true: every mutation is refused and the instance is what it was *)
Definition step (x : inst) (o : op) : inst * outcome :=
  match o with
  | SetAttr _ _ | DelAttr _ | SetNew _ => (x, Refused)
  | Copy | DeepCopy | Pickle => (x, Produced {| i_cls := i_cls x; i_fields := i_fields x |})
  | Replace n v => (x, Produced {| i_cls := i_cls x; i_fields := set_nth n v (i_fields x) |})
  end.

Definition inst_eqb (a b : inst) : bool := Nat.eqb (i_cls a) (i_cls b) && val_eqb (VEnt (i_fields a)) (VEnt (i_fields b)).

(* executable comparison: two instances of one class, Python's == and hash agreement *)
Record eqcase := { e_a : value; e_b : value; e_py_eq : bool; e_hash_eq : bool }.
Definition check_eqcase (k : eqcase) : bool :=
  Bool.eqb (val_eqb (e_a k) (e_b k)) (e_py_eq k) && (if e_py_eq k then e_hash_eq k else true).
