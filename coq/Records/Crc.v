(* CRC-32C (Castagnoli), reflected, bit-serial: the specification of crc32c.crc32c.
   Definitions only. *)
From Coq Require Import ZArith List Bool.
Import ListNotations.
Open Scope Z_scope.

Definition crc_poly : Z := 0x82F63B78.
Definition crc_mask : Z := 2 ^ 32 - 1.

Definition crc_step (c : Z) : Z := Z.lxor (Z.shiftr c 1) (if Z.odd c then crc_poly else 0).

Definition crc_step8 (c : Z) : Z :=
  crc_step (crc_step (crc_step (crc_step (crc_step (crc_step (crc_step (crc_step c))))))).

Definition crc_byte (c b : Z) : Z := crc_step8 (Z.lxor c b).

(* the register after processing bs from state c *)
Definition crc_update (c : Z) (bs : list Z) : Z := fold_left crc_byte bs c.

Definition crc32c (bs : list Z) : Z := Z.lxor (crc_update crc_mask bs) crc_mask.
