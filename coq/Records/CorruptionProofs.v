(* Corruption of the checksum or of a checksummed byte of an accepted record batch is detected:
   - replacing any single byte from the CRC field (byte 17) to the end by a different byte,
   - replacing the four stored CRC bytes by any other four bytes,
   - any change confined to four consecutive checksummed bytes (a burst of at most 32 bits),
   each make read_batch fail.  The last one rests on the burst-error theorem for CRC-32C proved
   here (crc32c_burst4); the first two on crc32c_single_byte and on the injectivity of the
   big-endian value of the CRC field. *)
From Coq Require Import ZArith List Bool Lia.
From KioV Require Import Base.Res Base.Prog Base.ProgProofs Prim.Bytes Prim.BytesProofs
  Records.Crc Records.Batch Records.CrcProofs Records.BatchProofs.
Import ListNotations.
Open Scope Z_scope.

(* replace byte i of m by x *)
Definition set_byte (i : nat) (x : Z) (m : list Z) : list Z := firstn i m ++ x :: skipn (S i) m.

(* replace the bytes of m at positions i .. i + length w - 1 by w *)
Definition splice (i : nat) (w : list Z) (m : list Z) : list Z :=
  firstn i m ++ w ++ skipn (i + length w) m.

(* ------------------------------------------------------------------------------------------ *)
(* list facts about splice *)

Lemma set_byte_splice i x (m : list Z) : set_byte i x m = splice i [x] m.
Proof. unfold set_byte, splice. cbn [length app]. rewrite Nat.add_1_r. reflexivity. Qed.

Lemma splice_length i w (m : list Z) : (i + length w <= length m)%nat ->
  length (splice i w m) = length m.
Proof. intros H. unfold splice. rewrite !app_length, firstn_length, skipn_length. lia. Qed.

Lemma splice_firstn i w (m : list Z) n : (n <= i)%nat -> (i <= length m)%nat ->
  firstn n (splice i w m) = firstn n m.
Proof.
  intros Hn Hi. unfold splice. rewrite firstn_app, firstn_firstn, firstn_length.
  replace (n - Nat.min i (length m))%nat with 0%nat by lia. cbn [firstn]. rewrite app_nil_r.
  f_equal. lia.
Qed.

Lemma splice_skipn_after i w (m : list Z) n : (i + length w <= n)%nat -> (i <= length m)%nat ->
  skipn n (splice i w m) = skipn n m.
Proof.
  intros Hn Hi. unfold splice. rewrite app_assoc, skipn_app.
  assert (L: length (firstn i m ++ w) = (i + length w)%nat).
  { rewrite app_length, firstn_length. lia. }
  rewrite (skipn_all2 (firstn i m ++ w)) by lia. rewrite L. cbn [app].
  rewrite skipn_skipn. f_equal. lia.
Qed.

Lemma splice_skipn_before i w (m : list Z) n : (n <= i)%nat -> (i <= length m)%nat ->
  skipn n (splice i w m) = splice (i - n) w (skipn n m).
Proof.
  intros Hn Hi. unfold splice. rewrite skipn_app, skipn_firstn_comm, firstn_length.
  replace (n - Nat.min i (length m))%nat with 0%nat by lia. cbn [skipn].
  rewrite skipn_skipn. do 3 f_equal. lia.
Qed.

Lemma splice_self i k (m : list Z) : (i + k <= length m)%nat -> splice i (slice i k m) m = m.
Proof.
  intros H. unfold splice, slice.
  assert (L: length (firstn k (skipn i m)) = k) by (rewrite firstn_length, skipn_length; lia).
  rewrite L. replace (skipn (i + k) m) with (skipn k (skipn i m)) by apply skipn_skipn.
  rewrite firstn_skipn. apply firstn_skipn.
Qed.

Lemma splice_slice i w (m : list Z) : (i <= length m)%nat ->
  slice i (length w) (splice i w m) = w.
Proof.
  intros H. unfold slice, splice. rewrite skipn_app, firstn_length.
  rewrite (skipn_all2 (firstn i m)) by (rewrite firstn_length; lia).
  replace (i - Nat.min i (length m))%nat with 0%nat by lia. cbn [skipn app].
  rewrite firstn_app, firstn_all, Nat.sub_diag. cbn [firstn]. apply app_nil_r.
Qed.

Lemma bytes_ok_firstn n (l : list Z) : bytes_ok l = true -> bytes_ok (firstn n l) = true.
Proof.
  intros H. rewrite <- (firstn_skipn n l), bytes_ok_app in H. apply andb_true_iff in H. tauto.
Qed.

Lemma bytes_ok_skipn n (l : list Z) : bytes_ok l = true -> bytes_ok (skipn n l) = true.
Proof.
  intros H. rewrite <- (firstn_skipn n l), bytes_ok_app in H. apply andb_true_iff in H. tauto.
Qed.

Lemma splice_bytes_ok i w (m : list Z) : bytes_ok m = true -> bytes_ok w = true ->
  bytes_ok (splice i w m) = true.
Proof.
  intros Hm Hw. unfold splice. rewrite !bytes_ok_app, Hw.
  rewrite (bytes_ok_firstn i m Hm), (bytes_ok_skipn (i + length w) m Hm). reflexivity.
Qed.

Lemma slice_1 i (m : list Z) : (i < length m)%nat -> slice i 1 m = [nth i m 0].
Proof.
  intros H. unfold slice.
  assert (E: nth i m 0 = nth i (firstn i m ++ skipn i m) 0) by (rewrite firstn_skipn; reflexivity).
  rewrite app_nth2, firstn_length in E by (rewrite firstn_length; lia).
  replace (i - Nat.min i (length m))%nat with 0%nat in E by lia.
  destruct (skipn i m) as [|b tl] eqn:Es.
  - exfalso. assert (L: length (skipn i m) = (length m - i)%nat) by apply skipn_length.
    rewrite Es in L. cbn [length] in L. lia.
  - cbn [nth] in E. cbn [firstn]. rewrite E. reflexivity.
Qed.

Lemma bytes_ok_In (l : list Z) : bytes_ok l = true -> forall x, In x l -> 0 <= x < 256.
Proof.
  unfold bytes_ok. rewrite forallb_forall. intros H x Hx. apply byte_ok_range, H, Hx.
Qed.

Lemma byte_ok_intro x : 0 <= x < 256 -> byte_ok x = true.
Proof. intros H. unfold byte_ok. apply andb_true_iff. split; [apply Z.leb_le|apply Z.ltb_lt]; lia. Qed.

(* ------------------------------------------------------------------------------------------ *)
(* CRC-32C detects every error confined to four consecutive bytes *)

Lemma lxor_move : forall a b c, Z.lxor a b = c -> a = Z.lxor c b.
Proof.
  intros a b c H. subst c. rewrite Z.lxor_assoc, Z.lxor_nilpotent, Z.lxor_0_r. reflexivity.
Qed.

Lemma lxor_byte : forall a b, 0 <= a < 256 -> 0 <= b < 256 -> 0 <= Z.lxor a b < 256.
Proof.
  intros a b Ha Hb. pose proof (lxor_range 8 a b ltac:(lia) ltac:(lia) ltac:(lia)). lia.
Qed.

Lemma lxor_swap4 : forall a d b b',
  Z.lxor (Z.lxor a d) b' = Z.lxor (Z.lxor a b) (Z.lxor d (Z.lxor b b')).
Proof.
  intros a d b b'. apply Z.bits_inj'. intros n Hn. rewrite !Z.lxor_spec.
  destruct (Z.testbit a n), (Z.testbit d n), (Z.testbit b n), (Z.testbit b' n); reflexivity.
Qed.

(* on an even register the step is a pure shift *)
Lemma crc_step_double : forall k, crc_step (2 * k) = k.
Proof.
  intros k. unfold crc_step.
  replace (Z.odd (2 * k)) with false by (rewrite Z.odd_mul; reflexivity).
  rewrite Z.lxor_0_r, Z.shiftr_div_pow2 by lia. change (2 ^ 1) with 2.
  rewrite Z.mul_comm, Z.div_mul by lia. reflexivity.
Qed.

Lemma crc_step8_shift : forall v, crc_step8 (256 * v) = v.
Proof.
  intros v. rewrite crc_step8_eq.
  replace (256 * v) with (2 * (2 * (2 * (2 * (2 * (2 * (2 * (2 * v)))))))) by lia.
  rewrite !crc_step_double. reflexivity.
Qed.

(* eight steps are undone by a shift: the only 32-bit register that eight steps send to a
   24-bit value e is e shifted left by eight *)
Lemma crc_step8_peel : forall x e, 0 <= x < 2^32 -> 0 <= e < 2^24 -> crc_step8 x = e ->
  x = 256 * e.
Proof.
  intros x e Hx He H. apply Z.lxor_eq. apply crc_step8_inj0.
  - apply lxor_range; lia.
  - rewrite crc_step8_lin, crc_step8_shift, H. apply Z.lxor_nilpotent.
Qed.

Lemma crc_update_nil : forall c, crc_update c [] = c.
Proof. reflexivity. Qed.

(* four difference bytes, fed to a zero register, leave it zero only if they are all zero *)
Lemma crc_update4_zero : forall d1 d2 d3 d4,
  0 <= d1 < 256 -> 0 <= d2 < 256 -> 0 <= d3 < 256 -> 0 <= d4 < 256 ->
  crc_update 0 [d1; d2; d3; d4] = 0 -> d1 = 0 /\ d2 = 0 /\ d3 = 0 /\ d4 = 0.
Proof.
  intros d1 d2 d3 d4 H1 H2 H3 H4.
  rewrite !crc_update_cons, crc_update_nil, !crc_byte_eq, Z.lxor_0_l.
  remember (crc_step8 d1) as D1 eqn:E1.
  assert (R1: 0 <= D1 < 2^32) by (rewrite E1; apply crc_step8_range; lia).
  remember (crc_step8 (Z.lxor D1 d2)) as D2 eqn:E2.
  assert (R2: 0 <= D2 < 2^32) by (rewrite E2; apply crc_step8_range; apply lxor_range; lia).
  remember (crc_step8 (Z.lxor D2 d3)) as D3 eqn:E3.
  assert (R3: 0 <= D3 < 2^32) by (rewrite E3; apply crc_step8_range; apply lxor_range; lia).
  intros H.
  apply crc_step8_inj0 in H; [|apply lxor_range; lia]. apply Z.lxor_eq in H.
  (* D3 = d4 *)
  rewrite E3 in H. apply crc_step8_peel in H; [|apply lxor_range; lia|lia].
  apply lxor_move in H.
  assert (Q2: 0 <= Z.lxor (256 * d4) d3 < 2^16) by (apply lxor_range; lia).
  remember (Z.lxor (256 * d4) d3) as F2 eqn:EF2.
  (* D2 = F2 *)
  rewrite E2 in H. apply crc_step8_peel in H; [|apply lxor_range; lia|lia].
  apply lxor_move in H.
  assert (Q1: 0 <= Z.lxor (256 * F2) d2 < 2^24) by (apply lxor_range; lia).
  remember (Z.lxor (256 * F2) d2) as F1 eqn:EF1.
  (* D1 = F1 *)
  rewrite E1 in H. apply crc_step8_peel in H; [|lia|lia].
  assert (F1 = 0) by lia. assert (d1 = 0) by lia.
  assert (G1: Z.lxor (256 * F2) d2 = 0) by congruence. apply Z.lxor_eq in G1.
  assert (F2 = 0) by lia. assert (d2 = 0) by lia.
  assert (G2: Z.lxor (256 * d4) d3 = 0) by congruence. apply Z.lxor_eq in G2.
  lia.
Qed.

(* byte-wise xor of two messages *)
Fixpoint xorl (l1 l2 : list Z) : list Z :=
  match l1, l2 with
  | a :: t1, b :: t2 => Z.lxor a b :: xorl t1 t2
  | _, _ => []
  end.

(* GF(2)-linearity of the register update in the state and the data together *)
Lemma crc_update_lin2 : forall w w' a d, length w = length w' ->
  crc_update (Z.lxor a d) w' = Z.lxor (crc_update a w) (crc_update d (xorl w w')).
Proof.
  induction w as [|b w IH]; intros [|b' w'] a d HL; try discriminate HL.
  - reflexivity.
  - cbn [xorl]. rewrite !crc_update_cons, !crc_byte_eq.
    rewrite (lxor_swap4 a d b b'), crc_step8_lin. apply IH.
    injection HL as HL. exact HL.
Qed.

Theorem crc32c_burst4 : forall pre w w' post, bytes_ok (pre ++ w ++ post) = true ->
  bytes_ok w' = true -> length w = 4%nat -> length w' = 4%nat -> w <> w' ->
  crc32c (pre ++ w' ++ post) <> crc32c (pre ++ w ++ post).
Proof.
  intros pre w w' post Hok Hw' L L' Hne.
  rewrite !bytes_ok_app in Hok. apply andb_true_iff in Hok. destruct Hok as [_ Hok].
  apply andb_true_iff in Hok. destruct Hok as [Hw _].
  pose proof (bytes_ok_In w Hw) as Rw. pose proof (bytes_ok_In w' Hw') as Rw'.
  destruct w as [|a1 [|a2 [|a3 [|a4 [|? ?]]]]]; try discriminate L.
  destruct w' as [|b1 [|b2 [|b3 [|b4 [|? ?]]]]]; try discriminate L'.
  assert (A1: 0 <= a1 < 256) by (apply Rw; cbn [In]; tauto).
  assert (A2: 0 <= a2 < 256) by (apply Rw; cbn [In]; tauto).
  assert (A3: 0 <= a3 < 256) by (apply Rw; cbn [In]; tauto).
  assert (A4: 0 <= a4 < 256) by (apply Rw; cbn [In]; tauto).
  assert (B1: 0 <= b1 < 256) by (apply Rw'; cbn [In]; tauto).
  assert (B2: 0 <= b2 < 256) by (apply Rw'; cbn [In]; tauto).
  assert (B3: 0 <= b3 < 256) by (apply Rw'; cbn [In]; tauto).
  assert (B4: 0 <= b4 < 256) by (apply Rw'; cbn [In]; tauto).
  clear Rw Rw'.
  pose proof (lxor_byte a1 b1 A1 B1) as X1. pose proof (lxor_byte a2 b2 A2 B2) as X2.
  pose proof (lxor_byte a3 b3 A3 B3) as X3. pose proof (lxor_byte a4 b4 A4 B4) as X4.
  unfold crc32c. rewrite !crc_update_app.
  generalize (crc_update crc_mask pre). intro c.
  assert (E: crc_update c [b1; b2; b3; b4] =
             Z.lxor (crc_update c [a1; a2; a3; a4])
                    (crc_update 0 [Z.lxor a1 b1; Z.lxor a2 b2; Z.lxor a3 b3; Z.lxor a4 b4])).
  { rewrite <- (Z.lxor_0_r c) at 1.
    apply (crc_update_lin2 [a1; a2; a3; a4] [b1; b2; b3; b4] c 0). reflexivity. }
  rewrite E, crc_update_lin, map_zero_repeat. clear E.
  intro Heq. apply lxor_inj_r, lxor_cancel_l in Heq.
  apply crc_update_zero_inj in Heq.
  2:{ apply crc_update_range; [|lia]. unfold bytes_ok. cbn [forallb].
      rewrite !byte_ok_intro by assumption. reflexivity. }
  apply crc_update4_zero in Heq; try assumption.
  destruct Heq as (Z1 & Z2 & Z3 & Z4).
  apply Z.lxor_eq in Z1, Z2, Z3, Z4. apply Hne. congruence.
Qed.
Print Assumptions crc32c_burst4.

(* the same two facts, phrased with splice *)
Lemma crc32c_splice1 : forall m j x, bytes_ok m = true -> (j < length m)%nat -> 0 <= x < 256 ->
  nth j m 0 <> x -> crc32c (splice j [x] m) <> crc32c m.
Proof.
  intros m j x Hok Hj Hx Hne.
  assert (Hm: splice j (slice j 1 m) m = m) by (apply splice_self; lia).
  rewrite slice_1 in Hm by exact Hj.
  rewrite <- Hm at 2. rewrite <- Hm in Hok. unfold splice in *. cbn [length app] in *.
  apply crc32c_single_byte; [exact Hok|exact Hx|exact Hne].
Qed.

Lemma crc32c_splice4 : forall m j w, bytes_ok m = true -> (j + 4 <= length m)%nat ->
  bytes_ok w = true -> length w = 4%nat -> w <> slice j 4 m ->
  crc32c (splice j w m) <> crc32c m.
Proof.
  intros m j w Hok Hj Hw Lw Hne.
  assert (Hm: splice j (slice j 4 m) m = m) by (apply splice_self; lia).
  assert (Ls: length (slice j 4 m) = 4%nat).
  { unfold slice. rewrite firstn_length, skipn_length. lia. }
  rewrite <- Hm at 2. rewrite <- Hm in Hok. unfold splice in *. rewrite Lw. rewrite Ls in *.
  apply crc32c_burst4; [exact Hok|exact Hw|exact Ls|exact Lw|].
  intro E. apply Hne. symmetry. exact E.
Qed.

(* ------------------------------------------------------------------------------------------ *)
(* the reader: any same-length input that agrees with an accepted batch on the first 17 bytes
   and whose stored CRC does not match its checksummed part is rejected *)

Lemma accepted_crc : forall bs b, read_batch bs = Ok (b, []) ->
  sint 4 (slice 8 4 bs) = zlen bs - 12 ->
  (61 <= length bs)%nat /\ be_val (slice 17 4 bs) = crc32c (skipn 21 bs).
Proof.
  intros bs b Hread Hlen.
  apply read_batch_inv in Hread. destruct Hread as (_ & L61 & _ & Hcrc & _).
  rewrite (covered_of_all bs ltac:(lia) bs Hlen ltac:(lia)) in Hcrc. split; assumption.
Qed.

Lemma crc_mismatch_rejected : forall bs bs', (21 <= length bs)%nat ->
  sint 4 (slice 8 4 bs) = zlen bs - 12 -> length bs' = length bs ->
  firstn 17 bs' = firstn 17 bs ->
  be_val (slice 17 4 bs') <> crc32c (skipn 21 bs') -> exists e, read_batch bs' = Err e.
Proof.
  intros bs bs' L21 Hlen Lf F17 Hne.
  assert (Hbl': sint 4 (slice 8 4 bs') = zlen bs - 12).
  { rewrite <- Hlen. rewrite <- (slice_firstn bs' 8 4 17), <- (slice_firstn bs 8 4 17) by lia.
    rewrite F17. reflexivity. }
  rewrite read_batch_staged_eq. unfold read_batch_staged.
  destruct (length bs' <? 12)%nat; [eexists; reflexivity|].
  destruct (length (body_of bs') <? 5)%nat; [eexists; reflexivity|].
  destruct (negb (sint 1 (slice 4 1 (body_of bs')) =? 2)); [eexists; reflexivity|].
  destruct (Nat.ltb_spec (length (body_of bs')) 9) as [L1|L1]; [eexists; reflexivity|].
  rewrite hdr_of_hdr21 by exact L1. cbn [hdr21 b_crc].
  rewrite (covered_of_all bs ltac:(lia) bs' Hbl' ltac:(lia)).
  apply Z.eqb_neq in Hne. rewrite Hne. cbn [negb]. eexists; reflexivity.
Qed.

(* any change inside the CRC field *)
Lemma splice_crc_field_rejected : forall bs b, read_batch bs = Ok (b, []) ->
  bytes_ok bs = true -> sint 4 (slice 8 4 bs) = zlen bs - 12 ->
  forall i w, (17 <= i)%nat -> (i + length w <= 21)%nat -> bytes_ok w = true ->
  w <> slice i (length w) bs ->
  exists e, read_batch (splice i w bs) = Err e.
Proof.
  intros bs b Hread Hok Hlen i w Hi Hiw Hw Hne.
  destruct (accepted_crc bs b Hread Hlen) as [L61 Hcrc].
  pose proof (splice_length i w bs ltac:(lia)) as Lf.
  pose proof (splice_bytes_ok i w bs Hok Hw) as Hok'.
  assert (F17: firstn 17 (splice i w bs) = firstn 17 bs) by (apply splice_firstn; lia).
  assert (S21: skipn 21 (splice i w bs) = skipn 21 bs) by (apply splice_skipn_after; lia).
  apply (crc_mismatch_rejected bs); [lia|exact Hlen|exact Lf|exact F17|].
  rewrite S21, <- Hcrc. intros Heq.
  apply be_val_inj in Heq; try (apply bytes_ok_slice; assumption).
  2:{ unfold slice. rewrite !firstn_length, !skipn_length. lia. }
  apply Hne.
  assert (Hsame: splice i w bs = bs).
  { etransitivity; [apply split_17_4|]. rewrite F17, Heq, S21. symmetry. apply split_17_4. }
  rewrite <- Hsame at 1. symmetry. apply splice_slice. lia.
Qed.

(* any change inside the checksummed part that changes the checksum *)
Lemma splice_covered_rejected : forall bs b, read_batch bs = Ok (b, []) ->
  sint 4 (slice 8 4 bs) = zlen bs - 12 ->
  forall i w, (21 <= i)%nat -> (i + length w <= length bs)%nat ->
  crc32c (splice (i - 21) w (skipn 21 bs)) <> crc32c (skipn 21 bs) ->
  exists e, read_batch (splice i w bs) = Err e.
Proof.
  intros bs b Hread Hlen i w Hi Hiw Hne.
  destruct (accepted_crc bs b Hread Hlen) as [L61 Hcrc].
  pose proof (splice_length i w bs ltac:(lia)) as Lf.
  assert (F17: firstn 17 (splice i w bs) = firstn 17 bs) by (apply splice_firstn; lia).
  assert (F21: firstn 21 (splice i w bs) = firstn 21 bs) by (apply splice_firstn; lia).
  apply (crc_mismatch_rejected bs); [lia|exact Hlen|exact Lf|exact F17|].
  rewrite <- (slice_firstn (splice i w bs) 17 4 21) by lia. rewrite F21, slice_firstn by lia.
  rewrite Hcrc, splice_skipn_before by lia. apply not_eq_sym. exact Hne.
Qed.

(* ------------------------------------------------------------------------------------------ *)
(* 1. replacing any one byte, from the CRC field to the end, by a different byte *)
Theorem read_batch_byte_change_rejected : forall bs b, read_batch bs = Ok (b, []) ->
  bytes_ok bs = true -> sint 4 (slice 8 4 bs) = zlen bs - 12 ->
  forall i x, (17 <= i < length bs)%nat -> 0 <= x < 256 -> nth i bs 0 <> x ->
  exists e, read_batch (set_byte i x bs) = Err e.
Proof.
  intros bs b Hread Hok Hlen i x [Hi1 Hi2] Hx Hne.
  rewrite set_byte_splice.
  destruct (Nat.lt_ge_cases i 21) as [Hc|Hc].
  - apply (splice_crc_field_rejected bs b Hread Hok Hlen); cbn [length]; try lia.
    + unfold bytes_ok. cbn [forallb]. rewrite byte_ok_intro by exact Hx. reflexivity.
    + rewrite slice_1 by exact Hi2. intro E. apply Hne. congruence.
  - apply (splice_covered_rejected bs b Hread Hlen); cbn [length]; try lia.
    apply crc32c_splice1.
    + apply bytes_ok_skipn. exact Hok.
    + rewrite skipn_length. lia.
    + exact Hx.
    + intro E. apply Hne. rewrite <- E.
      assert (S1: slice (i - 21) 1 (skipn 21 bs) = slice i 1 bs).
      { rewrite slice_skipn. f_equal. lia. }
      rewrite !slice_1 in S1 by (rewrite ?skipn_length; lia). congruence.
Qed.
Print Assumptions read_batch_byte_change_rejected.

(* 2. replacing the stored checksum by any other four bytes *)
Theorem read_batch_crc_field_corrupted : forall bs b c', read_batch bs = Ok (b, []) ->
  bytes_ok bs = true -> sint 4 (slice 8 4 bs) = zlen bs - 12 ->
  bytes_ok c' = true -> length c' = 4%nat -> c' <> slice 17 4 bs ->
  exists e, read_batch (firstn 17 bs ++ c' ++ skipn 21 bs) = Err e.
Proof.
  intros bs b c' Hread Hok Hlen Hc' Lc Hne.
  replace (firstn 17 bs ++ c' ++ skipn 21 bs) with (splice 17 c' bs)
    by (unfold splice; rewrite Lc; reflexivity).
  apply (splice_crc_field_rejected bs b Hread Hok Hlen); rewrite ?Lc; try lia; assumption.
Qed.
Print Assumptions read_batch_crc_field_corrupted.

(* 3. any change confined to four consecutive checksummed bytes *)
Theorem read_batch_burst4_rejected : forall bs b, read_batch bs = Ok (b, []) ->
  bytes_ok bs = true -> sint 4 (slice 8 4 bs) = zlen bs - 12 ->
  forall i w', (21 <= i)%nat -> (i + 4 <= length bs)%nat ->
  bytes_ok w' = true -> length w' = 4%nat -> w' <> slice i 4 bs ->
  exists e, read_batch (firstn i bs ++ w' ++ skipn (i + 4) bs) = Err e.
Proof.
  intros bs b Hread Hok Hlen i w' Hi1 Hi2 Hw' Lw Hne.
  replace (firstn i bs ++ w' ++ skipn (i + 4) bs) with (splice i w' bs)
    by (unfold splice; rewrite Lw; reflexivity).
  apply (splice_covered_rejected bs b Hread Hlen); rewrite ?Lw; try lia.
  apply crc32c_splice4.
  - apply bytes_ok_skipn. exact Hok.
  - rewrite skipn_length. lia.
  - exact Hw'.
  - exact Lw.
  - rewrite slice_skipn. replace (21 + (i - 21))%nat with i by lia. exact Hne.
Qed.
Print Assumptions read_batch_burst4_rejected.

(* ------------------------------------------------------------------------------------------ *)
(* non-vacuity *)
Example set_byte_example : set_byte 2 9 [1; 2; 3; 4] = [1; 2; 9; 4].
Proof. vm_compute. reflexivity. Qed.

Example splice_example : splice 1 [8; 9] [1; 2; 3; 4] = [1; 8; 9; 4].
Proof. vm_compute. reflexivity. Qed.

(* a two-byte change inside a four-byte window *)
Example crc32c_two_byte_change :
  crc32c [49; 50; 51; 52; 53; 54; 55; 56; 57] = 0xE3069283 /\
  crc32c [49; 50; 0; 52; 255; 54; 55; 56; 57] <> 0xE3069283.
Proof. vm_compute. split; [reflexivity|discriminate]. Qed.
