(* The model's own reader against the model's own prepared-batch writer (Records/Batch.v).
   read_batch inverts write_prepared_batch up to the reader's known defect: record timestamps come
   back truncated to whole seconds (record_timestamp).  Writing what was read reproduces the bytes
   exactly when every record timestamp is a whole second, and provably does not when some record
   has a millisecond part. *)
From Coq Require Import ZArith List Bool Lia ZifyBool.
From KioV Require Import Base.Res Base.Prog Base.ProgProofs
  Prim.Bytes Prim.Varint Prim.Time Prim.BytesProofs Prim.VarintProofs
  Records.Crc Records.CrcProofs Records.Batch Records.BatchProofs.
Import ListNotations.
Open Scope Z_scope.

(* ------------------------------------------------------------------------------------------ *)
(* 1. definitions *)

(* what the reader makes of a record: the timestamp (microseconds) cut to whole seconds *)
Definition floor_seconds_record (r : record) : record :=
  {| r_attributes := r_attributes r;
     r_timestamp := r_timestamp r / 1000000 * 1000000;
     r_offset := r_offset r; r_key := r_key r; r_value := r_value r;
     r_headers := r_headers r |}.

Definition floor_seconds (b : batch) : batch :=
  {| b_base_offset := b_base_offset b; b_batch_length := b_batch_length b;
     b_partition_leader_epoch := b_partition_leader_epoch b; b_crc := b_crc b;
     b_attributes := b_attributes b; b_last_offset_delta := b_last_offset_delta b;
     b_base_timestamp := b_base_timestamp b; b_max_timestamp := b_max_timestamp b;
     b_producer_id := b_producer_id b; b_producer_epoch := b_producer_epoch b;
     b_base_sequence := b_base_sequence b;
     b_records := map floor_seconds_record (b_records b) |}.

(* a record the reader accepts back, relative to the batch's base timestamp, base offset and
   max timestamp:
   - record_ok (BatchProofs): attributes int8, millisecond delta int64, offset delta int32, key,
     value and header blobs shorter than 2^31, fewer than 2^31 headers;
   - the timestamp is not before the epoch and inside the datetime range, which is exactly when
     record_timestamp succeeds on the millisecond value the writer stored (record_timestamp_floor,
     record_timestamp_floor_iff below);
   - base_offset + delta, as the reader computes it, is an int64 (phantom 8 true);
   - the comparison read_one_record makes, literally as the model computes it on the record it
     has just built: max_timestamp (milliseconds) against whole seconds *)
Definition own_record_ok (base_ts base_off max_ts : Z) (r : record) : bool :=
  record_ok base_ts base_off r
  && (0 <=? r_timestamp r) && (r_timestamp r <=? dt_max_us)
  && in_int_range 8 true (base_off + (r_offset r - base_off))
  && negb (max_ts <? r_timestamp (floor_seconds_record r) / 1000000).

(* header fields within the widths struct.pack is given *)
Definition fields_ok (b : batch) : bool :=
  in_int_range 8 true (b_base_offset b) && in_int_range 4 true (b_batch_length b)
  && in_int_range 4 true (b_partition_leader_epoch b) && in_int_range 4 false (b_crc b)
  && in_int_range 2 true (b_attributes b) && in_int_range 4 true (b_last_offset_delta b)
  && in_int_range 8 true (b_base_timestamp b) && in_int_range 8 true (b_max_timestamp b)
  && in_int_range 8 true (b_producer_id b) && in_int_range 2 true (b_producer_epoch b)
  && in_int_range 4 true (b_base_sequence b).

Definition records_ok (b : batch) : bool :=
  (zlen (b_records b) <? 2 ^ 31)
  && forallb (own_record_ok (b_base_timestamp b) (b_base_offset b) (b_max_timestamp b))
             (b_records b).

(* the part the CRC covers, as the model's writer lays it out *)
Definition post_of (b : batch) : res (list Z) :=
  write_post (b_attributes b) (b_last_offset_delta b) (b_base_timestamp b) (b_max_timestamp b)
             (b_producer_id b) (b_producer_epoch b) (b_base_sequence b) (b_base_offset b)
             (b_records b).

(* the stored length and checksum are the ones of what is written *)
Definition sealed_ok (b : batch) : bool :=
  match post_of b with
  | Ok post => (b_batch_length b =? zlen post + 9) && (b_crc b =? crc32c post)
  | Err _ => false
  end.

(* all that the round trip needs *)
Definition prepared_core (b : batch) : bool := fields_ok b && records_ok b && sealed_ok b.

(* every byte of the encoding is a byte; since a blob is copied into the encoding this is also
   what says that keys, values and header blobs hold legal bytes (bytes objects always do).  The
   21 bytes in front come from be_bytes and are always legal (prepared_bytes_ok). *)
Definition encoding_bytes_ok (b : batch) : bool :=
  match post_of b with Ok post => bytes_ok post | Err _ => false end.

Definition prepared_ok (b : batch) : bool := prepared_core b && encoding_bytes_ok b.

(* Not separate conjuncts because they follow: each record body is shorter than 2^31 (it is part
   of post, and zlen post + 9 is an int32); the record count is also checked by write_post. *)

(* ------------------------------------------------------------------------------------------ *)
(* small facts *)
Lemma write_int_ok_range w s z bs : write_int w s z = Ok bs -> in_int_range w s z = true.
Proof. unfold write_int. destruct (in_int_range w s z); [reflexivity|discriminate]. Qed.

Lemma write_int_in_range w s z : in_int_range w s z = true -> exists bs, write_int w s z = Ok bs.
Proof. unfold write_int. intros ->. eexists. reflexivity. Qed.

Lemma py_read_exact n (a t : list Z) : Z.of_nat (length a) = n -> py_read n (a ++ t) = (a, t).
Proof.
  intros H. unfold py_read. destruct (Z.ltb_spec n 0) as [Hn|Hn]; [lia|].
  replace (Z.to_nat n) with (length a) by lia.
  rewrite firstn_app, skipn_app, Nat.sub_diag, firstn_all, skipn_all. cbn [firstn skipn].
  rewrite app_nil_r. reflexivity.
Qed.

Lemma py_read_all n (a : list Z) : Z.of_nat (length a) = n -> py_read n a = (a, []).
Proof. intros H. rewrite <- (app_nil_r a) at 1. apply py_read_exact. exact H. Qed.

Lemma floor_us_bounds ts : 0 <= ts <= dt_max_us ->
  0 <= ts / 1000000 * 1000000 <= ts.
Proof.
  intros H. pose proof (Z.div_mod ts 1000000 ltac:(lia)) as Hd.
  pose proof (Z.mod_pos_bound ts 1000000 ltac:(lia)) as Hm.
  assert (0 <= ts / 1000000) by (apply Z.div_pos; lia). lia.
Qed.

(* the reader's timestamp, on the millisecond value the writer stored *)
Lemma record_timestamp_floor ts : 0 <= ts <= dt_max_us ->
  record_timestamp (millis_of ts) = Ok (ts / 1000000 * 1000000).
Proof.
  intros H. pose proof (floor_us_bounds ts H) as Hb.
  unfold record_timestamp, millis_of. cbv zeta. rewrite Z.div_div by lia.
  change (1000 * 1000) with 1000000.
  unfold dt_max_us, dt_min_us in *.
  destruct (Z.ltb_spec (ts / 1000000 * 1000000) (-62135596800000000)) as [H1|H1]; [lia|].
  destruct (Z.ltb_spec 253402300799999999 (ts / 1000000 * 1000000)) as [H2|H2]; [lia|].
  cbn [orb].
  destruct (Z.ltb_spec (ts / 1000000 * 1000000) 0) as [H3|H3]; [lia|]. reflexivity.
Qed.

(* ... and the condition is exactly the one under which it succeeds *)
Lemma record_timestamp_floor_iff ts :
  (exists us, record_timestamp (millis_of ts) = Ok us) <-> 0 <= ts <= dt_max_us.
Proof.
  split; [|intros H; eexists; apply record_timestamp_floor; exact H].
  intros [us H]. unfold record_timestamp, millis_of in H. cbv zeta in H.
  rewrite Z.div_div in H by lia. change (1000 * 1000) with 1000000 in H.
  unfold dt_max_us, dt_min_us in *.
  pose proof (Z.div_mod ts 1000000 ltac:(lia)) as Hd.
  pose proof (Z.mod_pos_bound ts 1000000 ltac:(lia)) as Hm.
  destruct (Z.ltb_spec (ts / 1000000 * 1000000) (-62135596800000000)) as [H1|H1];
    [discriminate|].
  destruct (Z.ltb_spec 253402300799999999 (ts / 1000000 * 1000000)) as [H2|H2];
    [discriminate|].
  cbn [orb] in H.
  destruct (Z.ltb_spec (ts / 1000000 * 1000000) 0) as [H3|H3]; [discriminate|]. lia.
Qed.

Lemma floor_seconds_record_div r :
  r_timestamp (floor_seconds_record r) / 1000000 = r_timestamp r / 1000000.
Proof. cbn [floor_seconds_record r_timestamp]. apply Z.div_mul. lia. Qed.

(* ------------------------------------------------------------------------------------------ *)
(* one record: the model's reader on the model's writer's output *)
Lemma read_write_record_own F bts boff mts r e tl :
  own_record_ok bts boff mts r = true -> write_record r bts boff = Ok e ->
  zlen e < 2 ^ 31 -> (length e <= F)%nat ->
  run (read_one_record F bts boff mts) (e ++ tl) = Ok (floor_seconds_record r, tl).
Proof.
  intros Hown H Hsz HF. unfold own_record_ok in Hown.
  apply andb_true_iff in Hown. destruct Hown as [Hown Hmts].
  apply andb_true_iff in Hown. destruct Hown as [Hown Hoff].
  apply andb_true_iff in Hown. destruct Hown as [Hown Hhi].
  apply andb_true_iff in Hown. destruct Hown as [Hok Hlo].
  apply Z.leb_le in Hlo. apply Z.leb_le in Hhi. apply negb_true_iff in Hmts.
  unfold record_ok in Hok.
  apply andb_true_iff in Hok. destruct Hok as [Hok Hhs].
  apply andb_true_iff in Hok. destruct Hok as [Hok Hnh].
  apply andb_true_iff in Hok. destruct Hok as [Hok Hval].
  apply andb_true_iff in Hok. destruct Hok as [Hok Hkey].
  apply andb_true_iff in Hok. destruct Hok as [Hok Hod].
  apply andb_true_iff in Hok. destruct Hok as [_ Htd].
  apply range_s8 in Htd. apply range_s4 in Hod. apply Z.ltb_lt in Hnh.
  unfold write_record in H. apply rbind_inv in H. destruct H as (body & Hbody & H).
  apply cat2_inv in H. destruct H as (lenb & y & Hlen & Hy & ->).
  assert (y = body) as -> by congruence. clear Hy.
  apply cat_cons_inv in Hbody. destruct Hbody as (a0 & t0 & H0 & Hbody & ->).
  apply cat_cons_inv in Hbody. destruct Hbody as (a1 & t1 & H1 & Hbody & ->).
  apply cat_cons_inv in Hbody. destruct Hbody as (a2 & t2 & H2 & Hbody & ->).
  apply cat_cons_inv in Hbody. destruct Hbody as (a3 & t3 & H3 & Hbody & ->).
  apply cat_cons_inv in Hbody. destruct Hbody as (a4 & t4 & H4 & Hbody & ->).
  apply cat_cons_inv in Hbody. destruct Hbody as (a5 & t5 & H5 & Hbody & ->).
  apply cat_cons_inv in Hbody. destruct Hbody as (hb & t6 & H6 & Hbody & ->).
  apply cat_nil_inv in Hbody. subst t6.
  set (body := a0 ++ a1 ++ a2 ++ a3 ++ a4 ++ a5 ++ hb ++ []) in *.
  assert (Hbl: (length body <= length (lenb ++ body))%nat) by (rewrite app_length; lia).
  assert (Hhl: (length (r_headers r) <= length hb)%nat).
  { eapply cat_map_length; [|exact H6]. apply write_header_nonempty. }
  assert (Hhb: (length hb <= length body)%nat).
  { unfold body. rewrite !app_length. lia. }
  assert (Hts: record_timestamp (bts + (millis_of (r_timestamp r) - bts))
               = Ok (r_timestamp r / 1000000 * 1000000)).
  { replace (bts + (millis_of (r_timestamp r) - bts)) with (millis_of (r_timestamp r)) by lia.
    apply record_timestamp_floor. lia. }
  assert (Hrun: run (read_record_body F bts boff) body = Ok (floor_seconds_record r, [])).
  { unfold read_record_body, body.
    rewrite run_bind, (read_write_int 1 true (r_attributes r) a0) by (try assumption; lia).
    cbv beta iota.
    rewrite run_bind, (read_write_svarlong (millis_of (r_timestamp r) - bts) a1)
      by (try assumption; lia).
    cbv beta iota.
    rewrite run_bind, run_lift, Hts. cbv beta iota.
    rewrite run_bind, (read_write_svarint (r_offset r - boff) a2) by (try assumption; lia).
    cbv beta iota.
    rewrite run_bind, run_lift. unfold phantom. rewrite Hoff. cbv beta iota.
    rewrite run_bind, (read_write_scbytes (r_key r) a3) by assumption. cbv beta iota.
    rewrite run_bind, (read_write_scbytes (r_value r) a4) by assumption. cbv beta iota.
    assert (0 <= zlen (r_headers r)) by (unfold zlen; lia).
    rewrite run_bind, (read_write_svarint (zlen (r_headers r)) a5) by (try assumption; lia).
    cbv beta iota.
    rewrite run_bind.
    rewrite (repeat_prog_encodings write_header read_header (fun h => h)
               (fun h => blob_ok (h_key h) && blob_ok (h_value h) = true)).
    - rewrite map_id. cbn [run]. unfold floor_seconds_record.
      replace (boff + (r_offset r - boff)) with (r_offset r) by lia. reflexivity.
    - intros a e tl' Ha He. apply read_write_header; assumption.
    - intros a Ha. rewrite forallb_forall in Hhs. apply Hhs. exact Ha.
    - exact H6.
    - lia. }
  unfold read_one_record, read_record.
  assert (0 <= zlen body <= zlen (lenb ++ body)) by (unfold zlen; lia).
  rewrite run_bind, run_bind, <- app_assoc, (read_write_svarint (zlen body) lenb)
    by (try assumption; lia).
  rewrite run_read_app by reflexivity. rewrite Hrun. cbn [run].
  rewrite Hmts. reflexivity.
Qed.

(* ------------------------------------------------------------------------------------------ *)
(* 2. the reader inverts the prepared-batch writer (any trailing bytes are left alone) *)
Theorem read_write_prepared_core : forall b bs tl,
  prepared_core b = true -> write_prepared_batch b = Ok bs ->
  read_batch (bs ++ tl) = Ok (floor_seconds b, tl).
Proof.
  intros b bs tl Hok H. unfold prepared_core in Hok.
  apply andb_true_iff in Hok. destruct Hok as [Hok Hsealed].
  apply andb_true_iff in Hok. destruct Hok as [_ Hrecs_ok].
  unfold records_ok in Hrecs_ok. apply andb_true_iff in Hrecs_ok.
  destruct Hrecs_ok as [_ Hall].
  unfold write_prepared_batch in H. apply cat2_inv in H.
  destruct H as (pre & post & Hpre & Hpost & ->).
  unfold sealed_ok, post_of in Hsealed. rewrite Hpost in Hsealed.
  apply andb_true_iff in Hsealed. destruct Hsealed as [Hbl Hcrc].
  apply Z.eqb_eq in Hbl. apply Z.eqb_eq in Hcrc.
  apply write_pre_inv in Hpre.
  destruct Hpre as (b0 & b1 & b2 & b3 & b4 & W0 & W1 & W2 & W3 & W4 & ->).
  pose proof (write_int_length _ _ _ _ W2) as L2.
  pose proof (write_int_length _ _ _ _ W3) as L3.
  pose proof (write_int_length _ _ _ _ W4) as L4.
  pose proof (write_int_ok_range _ _ _ _ W1) as Rbl. apply range_s4 in Rbl.
  unfold read_batch.
  set (F := S (length (((b0 ++ b1 ++ b2 ++ b3 ++ b4) ++ post) ++ tl))).
  assert (HF: (length post <= F)%nat) by (unfold F; rewrite !app_length; lia).
  clearbody F.
  rewrite <- !app_assoc.
  rewrite run_bind, (read_write_int 8 true (b_base_offset b) b0) by (try assumption; lia).
  cbv beta iota.
  rewrite run_bind, (read_write_int 4 true (b_batch_length b) b1) by (try assumption; lia).
  cbv beta iota. cbn [run].
  replace (b2 ++ b3 ++ b4 ++ post ++ tl) with ((b2 ++ b3 ++ b4 ++ post) ++ tl)
    by (rewrite <- !app_assoc; reflexivity).
  rewrite py_read_exact by (rewrite !app_length, L2, L3, L4; unfold zlen in Hbl; lia).
  unfold read_batch_inner.
  rewrite run_bind, (read_write_int 4 true (b_partition_leader_epoch b) b2)
    by (try assumption; lia).
  cbv beta iota.
  rewrite run_bind, (read_write_int 1 true 2 b3) by (try assumption; lia).
  cbv beta iota. change (negb (2 =? 2)) with false. cbv beta iota.
  rewrite run_bind, (read_write_int 4 false (b_crc b) b4) by (try assumption; lia).
  cbv beta iota. cbn [run].
  rewrite py_read_all by (unfold zlen in Hbl; lia). cbn [b_crc].
  rewrite <- Hcrc, Z.eqb_refl. cbn [negb].
  (* the fields after the CRC and the records *)
  apply write_post_inv in Hpost.
  destruct Hpost as (c0 & c1 & c2 & c3 & c4 & c5 & c6 & c7 & recs &
                     V0 & V1 & V2 & V3 & V4 & V5 & V6 & V7 & Hrecs & Hpost).
  assert (HFr: (length recs <= F)%nat) by (rewrite Hpost, !app_length in HF; lia).
  assert (Hszr: zlen recs < 2 ^ 31).
  { rewrite Hpost in Hbl. unfold zlen in *. rewrite !app_length in Hbl. lia. }
  rewrite Hpost. unfold read_batch_rest. cbn [b_base_offset].
  rewrite run_bind, (read_write_int 2 true (b_attributes b) c0) by (try assumption; lia).
  cbv beta iota.
  rewrite run_bind, (read_write_int 4 true (b_last_offset_delta b) c1) by (try assumption; lia).
  cbv beta iota.
  rewrite run_bind, (read_write_int 8 true (b_base_timestamp b) c2) by (try assumption; lia).
  cbv beta iota.
  rewrite run_bind, (read_write_int 8 true (b_max_timestamp b) c3) by (try assumption; lia).
  cbv beta iota.
  rewrite run_bind, (read_write_int 8 true (b_producer_id b) c4) by (try assumption; lia).
  cbv beta iota.
  rewrite run_bind, (read_write_int 2 true (b_producer_epoch b) c5) by (try assumption; lia).
  cbv beta iota.
  rewrite run_bind, (read_write_int 4 true (b_base_sequence b) c6) by (try assumption; lia).
  cbv beta iota.
  rewrite run_bind.
  replace (c7 ++ recs) with (c7 ++ recs ++ []) by (rewrite app_nil_r; reflexivity).
  rewrite (read_write_int 4 true (zlen (b_records b)) c7) by (try assumption; lia).
  cbv beta iota.
  rewrite run_bind.
  rewrite (repeat_prog_encodings
             (fun r => write_record r (b_base_timestamp b) (b_base_offset b))
             (read_one_record F (b_base_timestamp b) (b_base_offset b) (b_max_timestamp b))
             floor_seconds_record
             (fun r => own_record_ok (b_base_timestamp b) (b_base_offset b) (b_max_timestamp b) r
                       = true /\
                       forall e, write_record r (b_base_timestamp b) (b_base_offset b) = Ok e ->
                                 (length e <= length recs)%nat)).
  - cbn [run]. reflexivity.
  - intros a e tl' [Ha Hle] He. specialize (Hle e He).
    apply read_write_record_own; try assumption; unfold zlen in *; lia.
  - intros a Ha. split.
    + rewrite forallb_forall in Hall. apply Hall. exact Ha.
    + intros e He. eapply cat_map_In_length; eassumption.
  - exact Hrecs.
  - pose proof (cat_map_length _ (fun a e => write_record_nonempty a (b_base_timestamp b)
                                               (b_base_offset b) e) _ _ Hrecs). lia.
Qed.
Print Assumptions read_write_prepared_core.

Lemma prepared_ok_core b : prepared_ok b = true -> prepared_core b = true.
Proof. unfold prepared_ok. intros H. apply andb_true_iff in H. tauto. Qed.

Theorem read_write_prepared : forall b bs tl,
  prepared_ok b = true -> write_prepared_batch b = Ok bs ->
  read_batch (bs ++ tl) = Ok (floor_seconds b, tl).
Proof.
  intros b bs tl Hok H. apply read_write_prepared_core; [apply prepared_ok_core; exact Hok|exact H].
Qed.
Print Assumptions read_write_prepared.

(* ------------------------------------------------------------------------------------------ *)
(* prepared_ok is about batches that can be written, and whose encoding consists of bytes *)
Lemma fields_ok_inv b : fields_ok b = true ->
  in_int_range 8 true (b_base_offset b) = true /\ in_int_range 4 true (b_batch_length b) = true /\
  in_int_range 4 true (b_partition_leader_epoch b) = true /\ in_int_range 4 false (b_crc b) = true /\
  in_int_range 8 true (b_base_timestamp b) = true.
Proof.
  unfold fields_ok. rewrite !andb_true_iff.
  intros ((((((((((F0 & F1) & F2) & F3) & F4) & F5) & F6) & F7) & F8) & F9) & F10).
  repeat split; assumption.
Qed.

Lemma prepared_core_inv b : prepared_core b = true ->
  fields_ok b = true /\
  forallb (own_record_ok (b_base_timestamp b) (b_base_offset b) (b_max_timestamp b))
          (b_records b) = true /\
  exists post, post_of b = Ok post /\ b_batch_length b = zlen post + 9 /\ b_crc b = crc32c post.
Proof.
  unfold prepared_core, records_ok, sealed_ok. rewrite !andb_true_iff.
  intros [[Hf [_ Hall]] Hs]. split; [exact Hf|]. split; [exact Hall|].
  destruct (post_of b) as [post|e]; [|discriminate].
  apply andb_true_iff in Hs. destruct Hs as [H1 H2].
  apply Z.eqb_eq in H1. apply Z.eqb_eq in H2. exists post. repeat split; assumption.
Qed.

Theorem prepared_writes : forall b, prepared_core b = true ->
  exists bs, write_prepared_batch b = Ok bs.
Proof.
  intros b Hok. apply prepared_core_inv in Hok.
  destruct Hok as (Hf & _ & post & Hpost & _).
  apply fields_ok_inv in Hf. destruct Hf as (F0 & F1 & F2 & F3 & _).
  unfold write_prepared_batch. fold (post_of b). rewrite Hpost.
  unfold write_pre, write_int. rewrite F0, F1, F2, F3.
  change (in_int_range 1 true 2) with true. cbv beta iota.
  cbn [cat cat2 rbind]. eexists. reflexivity.
Qed.
Print Assumptions prepared_writes.

Lemma write_int_bytes_ok w s z bs : write_int w s z = Ok bs -> bytes_ok bs = true.
Proof.
  unfold write_int. destruct (in_int_range w s z); [|discriminate].
  intros H. assert (bs = be_bytes w (z mod 2 ^ (8 * Z.of_nat w))) as -> by congruence.
  apply be_bytes_bytes_ok.
Qed.

Theorem prepared_bytes_ok : forall b bs, prepared_ok b = true -> write_prepared_batch b = Ok bs ->
  bytes_ok bs = true.
Proof.
  intros b bs Hok H. unfold prepared_ok in Hok. apply andb_true_iff in Hok.
  destruct Hok as [_ Hbytes]. unfold encoding_bytes_ok in Hbytes.
  unfold write_prepared_batch in H. fold (post_of b) in H.
  apply cat2_inv in H. destruct H as (pre & post & Hpre & Hpost & ->).
  rewrite Hpost in Hbytes.
  apply write_pre_inv in Hpre.
  destruct Hpre as (b0 & b1 & b2 & b3 & b4 & W0 & W1 & W2 & W3 & W4 & ->).
  apply write_int_bytes_ok in W0, W1, W2, W3, W4.
  rewrite !bytes_ok_app, W0, W1, W2, W3, W4, Hbytes. reflexivity.
Qed.
Print Assumptions prepared_bytes_ok.

(* ------------------------------------------------------------------------------------------ *)
(* 3. whole-second timestamps: what was read is what was written, so writing it again gives the
   same bytes *)
Lemma floor_seconds_record_id r : r_timestamp r mod 1000000 = 0 -> floor_seconds_record r = r.
Proof.
  intros H. destruct r as [a ts o k v hs]. unfold floor_seconds_record.
  cbn [r_attributes r_timestamp r_offset r_key r_value r_headers] in *.
  pose proof (Z.div_mod ts 1000000 ltac:(lia)) as Hd.
  replace (ts / 1000000 * 1000000) with ts by lia. reflexivity.
Qed.

Lemma floor_seconds_id b :
  forallb (fun r => r_timestamp r mod 1000000 =? 0) (b_records b) = true -> floor_seconds b = b.
Proof.
  intros H. destruct b as [bo bl ple crc at_ lod bts mts pid pe bseq rs]. unfold floor_seconds.
  cbn [b_base_offset b_batch_length b_partition_leader_epoch b_crc b_attributes
       b_last_offset_delta b_base_timestamp b_max_timestamp b_producer_id b_producer_epoch
       b_base_sequence b_records] in *.
  f_equal. induction rs as [|r rs IH]; [reflexivity|].
  cbn [forallb] in H. apply andb_true_iff in H. destruct H as [Hr Hrs].
  apply Z.eqb_eq in Hr. cbn [map]. rewrite (floor_seconds_record_id r Hr), (IH Hrs). reflexivity.
Qed.

Corollary rewrite_reproduces : forall b bs, prepared_ok b = true ->
  forallb (fun r => (r_timestamp r mod 1000000 =? 0)%Z) (b_records b) = true ->
  write_prepared_batch b = Ok bs ->
  exists b', read_batch bs = Ok (b', []) /\ write_prepared_batch b' = Ok bs.
Proof.
  intros b bs Hok Hwhole H. exists b. split; [|exact H].
  pose proof (read_write_prepared b bs [] Hok H) as Hr.
  rewrite app_nil_r, (floor_seconds_id b Hwhole) in Hr. exact Hr.
Qed.
Print Assumptions rewrite_reproduces.

(* ------------------------------------------------------------------------------------------ *)
(* 4. the known defect as a theorem: writing what was read gives the bytes back exactly when no
   record has a millisecond part (the writer stores whole milliseconds, the reader keeps whole
   seconds) *)
Definition subsecond_ms (r : record) : bool :=
  negb (millis_of (r_timestamp r) =? millis_of (r_timestamp (floor_seconds_record r))).

Lemma write_record_floor_same r bts boff : subsecond_ms r = false ->
  write_record (floor_seconds_record r) bts boff = write_record r bts boff.
Proof.
  unfold subsecond_ms. intros H. apply negb_false_iff, Z.eqb_eq in H.
  unfold write_record. rewrite <- H.
  cbn [floor_seconds_record r_attributes r_offset r_key r_value r_headers]. reflexivity.
Qed.

Lemma floor_millis_bounds ts : 0 <= ts <= dt_max_us ->
  0 <= millis_of (ts / 1000000 * 1000000) <= millis_of ts.
Proof.
  intros H. pose proof (floor_us_bounds ts H) as Hb. unfold millis_of. split.
  - apply Z.div_pos; lia.
  - apply Z.div_le_mono; lia.
Qed.

Lemma floor_record_ok bts boff mts r : in_int_range 8 true bts = true ->
  own_record_ok bts boff mts r = true -> record_ok bts boff (floor_seconds_record r) = true.
Proof.
  intros Hbts Hown. unfold own_record_ok in Hown. rewrite !andb_true_iff in Hown.
  destruct Hown as [[[[Hok Hlo] Hhi] _] _]. apply Z.leb_le in Hlo. apply Z.leb_le in Hhi.
  unfold record_ok in *. rewrite !andb_true_iff in Hok.
  destruct Hok as [[[[[[K0 K1] K2] K3] K4] K5] K6].
  cbn [floor_seconds_record r_attributes r_timestamp r_offset r_key r_value r_headers].
  rewrite K0, K2, K3, K4, K5, K6, !andb_true_r. cbn [andb].
  apply range_s8 in K1. apply range_s8 in Hbts. apply range_s8.
  pose proof (floor_millis_bounds (r_timestamp r) ltac:(lia)). lia.
Qed.

(* equal encodings of two record lists decode (by the independent record decoder) to equal
   format-level records *)
Lemma records_encoding_inj bts boff (l1 l2 : list record) recs :
  length l1 = length l2 -> zlen recs < 2 ^ 31 ->
  forallb (record_ok bts boff) l1 = true -> forallb (record_ok bts boff) l2 = true ->
  cat (map (fun r => write_record r bts boff) l1) = Ok recs ->
  cat (map (fun r => write_record r bts boff) l2) = Ok recs ->
  map (to_spec bts boff) l1 = map (to_spec bts boff) l2.
Proof.
  intros Hlen Hsz Hok1 Hok2 H1 H2.
  assert (Hdec: forall l, forallb (record_ok bts boff) l = true ->
            cat (map (fun r => write_record r bts boff) l) = Ok recs ->
            run (repeat_prog (length recs) (zlen l) (spec_record_prog (length recs))) (recs ++ [])
            = Ok (map (to_spec bts boff) l, [])).
  { intros l Hok Hl.
    apply (repeat_prog_encodings (fun r => write_record r bts boff)
             (spec_record_prog (length recs)) (to_spec bts boff)
             (fun r => record_ok bts boff r = true /\
                       forall e, write_record r bts boff = Ok e -> (length e <= length recs)%nat)).
    - intros a e tl [Ha Hle] He. specialize (Hle e He).
      apply read_write_record; try assumption; unfold zlen in *; lia.
    - intros a Ha. split.
      + rewrite forallb_forall in Hok. apply Hok. exact Ha.
      + intros e He. eapply cat_map_In_length; eassumption.
    - exact Hl.
    - exact (cat_map_length _ (fun a e => write_record_nonempty a bts boff e) _ _ Hl). }
  pose proof (Hdec l1 Hok1 H1) as D1. pose proof (Hdec l2 Hok2 H2) as D2.
  unfold zlen in D1. rewrite Hlen in D1. unfold zlen in D2. congruence.
Qed.

Lemma to_spec_floor_same bts boff (l : list record) :
  map (to_spec bts boff) l = map (to_spec bts boff) (map floor_seconds_record l) ->
  existsb subsecond_ms l = false.
Proof.
  induction l as [|r l IH]; intros H; [reflexivity|].
  cbn [map] in H.
  assert (Hr: to_spec bts boff r = to_spec bts boff (floor_seconds_record r)) by congruence.
  assert (Hl: map (to_spec bts boff) l = map (to_spec bts boff) (map floor_seconds_record l))
    by congruence.
  clear H. cbn [existsb]. rewrite (IH Hl), orb_false_r.
  apply (f_equal sr_ts_delta) in Hr. cbn [to_spec sr_ts_delta] in Hr.
  unfold subsecond_ms. apply negb_false_iff, Z.eqb_eq. lia.
Qed.

Lemma map_write_record_floor bts boff (l : list record) : existsb subsecond_ms l = false ->
  map (fun r => write_record r bts boff) (map floor_seconds_record l) =
  map (fun r => write_record r bts boff) l.
Proof.
  induction l as [|r l IH]; intros H; [reflexivity|].
  cbn [existsb] in H. apply orb_false_iff in H. destruct H as [Hr Hl].
  cbn [map]. rewrite (write_record_floor_same r bts boff Hr), (IH Hl). reflexivity.
Qed.

Lemma rewrite_iff_core : forall b bs, prepared_core b = true -> write_prepared_batch b = Ok bs ->
  (write_prepared_batch (floor_seconds b) = Ok bs <-> existsb subsecond_ms (b_records b) = false).
Proof.
  intros b bs Hok H. split.
  - intros H'. apply prepared_core_inv in Hok.
    destruct Hok as (Hf & Hall & post0 & Hpost0 & Hbl & _).
    apply fields_ok_inv in Hf. destruct Hf as (_ & Rbl & _ & _ & Rbts). apply range_s4 in Rbl.
    unfold write_prepared_batch in H, H'. fold (post_of b) in H.
    cbn [floor_seconds b_base_offset b_batch_length b_partition_leader_epoch b_crc b_attributes
         b_last_offset_delta b_base_timestamp b_max_timestamp b_producer_id b_producer_epoch
         b_base_sequence b_records] in H'.
    apply cat2_inv in H. destruct H as (pre & post & Hpre & Hpost & ->).
    apply cat2_inv in H'. destruct H' as (pre' & post' & Hpre' & Hpost' & Heq).
    assert (pre' = pre) as -> by congruence. apply app_inv_head in Heq. subst post'.
    assert (post0 = post) as -> by congruence. clear Hpost0.
    unfold post_of in Hpost.
    apply write_post_inv in Hpost.
    destruct Hpost as (c0 & c1 & c2 & c3 & c4 & c5 & c6 & c7 & recs &
                       V0 & V1 & V2 & V3 & V4 & V5 & V6 & V7 & Hrecs & Hp).
    apply write_post_inv in Hpost'.
    destruct Hpost' as (d0 & d1 & d2 & d3 & d4 & d5 & d6 & d7 & recs' &
                        U0 & U1 & U2 & U3 & U4 & U5 & U6 & U7 & Hrecs' & Hp').
    pose proof (write_int_length _ _ _ _ V7) as L7.
    pose proof (write_int_length _ _ _ _ U7) as M7.
    assert (d0 = c0) as -> by congruence. assert (d1 = c1) as -> by congruence.
    assert (d2 = c2) as -> by congruence. assert (d3 = c3) as -> by congruence.
    assert (d4 = c4) as -> by congruence. assert (d5 = c5) as -> by congruence.
    assert (d6 = c6) as -> by congruence.
    rewrite Hp in Hp'. do 7 apply app_inv_head in Hp'.
    assert (Hrr: recs' = recs).
    { apply (f_equal (skipn 4)) in Hp'.
      rewrite (skipn_app_exact c7 recs 4 L7), (skipn_app_exact d7 recs' 4 M7) in Hp'.
      symmetry. exact Hp'. }
    subst recs'.
    assert (Hsz: zlen recs < 2 ^ 31).
    { rewrite Hp in Hbl. unfold zlen in *. rewrite !app_length in Hbl. lia. }
    apply (to_spec_floor_same (b_base_timestamp b) (b_base_offset b)).
    apply (records_encoding_inj _ _ _ _ recs); try assumption.
    + rewrite map_length. reflexivity.
    + rewrite forallb_forall in *. intros r Hr. specialize (Hall r Hr).
      unfold own_record_ok in Hall. rewrite !andb_true_iff in Hall. tauto.
    + rewrite forallb_forall in *. intros r' Hr'. apply in_map_iff in Hr'.
      destruct Hr' as (r & <- & Hr). eapply floor_record_ok; [exact Rbts|]. apply Hall. exact Hr.
  - intros Hnone. rewrite <- H. unfold write_prepared_batch, write_post.
    cbn [floor_seconds b_base_offset b_batch_length b_partition_leader_epoch b_crc b_attributes
         b_last_offset_delta b_base_timestamp b_max_timestamp b_producer_id b_producer_epoch
         b_base_sequence b_records].
    rewrite (map_write_record_floor _ _ _ Hnone). unfold zlen. rewrite map_length. reflexivity.
Qed.

Theorem rewrite_differs_only_by_subsecond : forall b bs,
  prepared_ok b = true -> write_prepared_batch b = Ok bs ->
  (write_prepared_batch (floor_seconds b) = Ok bs <-> existsb subsecond_ms (b_records b) = false).
Proof. intros b bs Hok H. apply rewrite_iff_core; [apply prepared_ok_core; exact Hok|exact H]. Qed.
Print Assumptions rewrite_differs_only_by_subsecond.

(* the round trip "read, then write again" is refuted for batches with a millisecond part *)
Theorem rewrite_reproduces_refuted : forall b bs, prepared_ok b = true ->
  existsb subsecond_ms (b_records b) = true ->
  write_prepared_batch b = Ok bs ->
  exists b', read_batch bs = Ok (b', []) /\ write_prepared_batch b' <> Ok bs.
Proof.
  intros b bs Hok Hsub H. exists (floor_seconds b). split.
  - pose proof (read_write_prepared b bs [] Hok H) as Hr. rewrite app_nil_r in Hr. exact Hr.
  - intros H'. apply (rewrite_differs_only_by_subsecond b bs Hok H) in H'. congruence.
Qed.
Print Assumptions rewrite_reproduces_refuted.

(* the two computed conditions in plain arithmetic *)
Lemma subsecond_ms_spec r : subsecond_ms r = true <-> 1000 <= r_timestamp r mod 1000000.
Proof.
  unfold subsecond_ms, millis_of. cbn [floor_seconds_record r_timestamp].
  rewrite negb_true_iff, Z.eqb_neq.
  replace (r_timestamp r / 1000000 * 1000000 / 1000) with (r_timestamp r / 1000000 * 1000).
  2:{ replace (r_timestamp r / 1000000 * 1000000) with (r_timestamp r / 1000000 * 1000 * 1000)
        by lia. symmetry. apply Z.div_mul. lia. }
  pose proof (Z.div_mod (r_timestamp r) 1000000 ltac:(lia)) as D1.
  pose proof (Z.mod_pos_bound (r_timestamp r) 1000000 ltac:(lia)) as M1.
  pose proof (Z.div_mod (r_timestamp r) 1000 ltac:(lia)) as D2.
  pose proof (Z.mod_pos_bound (r_timestamp r) 1000 ltac:(lia)) as M2.
  lia.
Qed.

Lemma max_ts_check_spec mts r :
  negb (mts <? r_timestamp (floor_seconds_record r) / 1000000) = true <->
  r_timestamp r / 1000000 <= mts.
Proof. rewrite floor_seconds_record_div, negb_true_iff, Z.ltb_ge. reflexivity. Qed.

(* ------------------------------------------------------------------------------------------ *)
(* 5. the hypotheses are satisfiable: two records, one with key, value and a header, one with a
   null key and half a second past the second *)
Definition ex_r1 : record :=
  {| r_attributes := 0; r_timestamp := 1700000000000000; r_offset := 100;
     r_key := Some [107; 49]; r_value := Some [118; 49; 33];
     r_headers := [ {| h_key := Some [104]; h_value := Some [1; 2] |} ] |}.
Definition ex_r2 : record :=
  {| r_attributes := 0; r_timestamp := 1700000001500000; r_offset := 101;
     r_key := None; r_value := Some [118; 50]; r_headers := [] |}.
Definition ex_batch : batch :=
  {| b_base_offset := 100; b_batch_length := 76; b_partition_leader_epoch := 7;
     b_crc := 2104064282; b_attributes := 0; b_last_offset_delta := 1;
     b_base_timestamp := 1700000000000; b_max_timestamp := 1700000001500;
     b_producer_id := -1; b_producer_epoch := -1; b_base_sequence := -1;
     b_records := [ex_r1; ex_r2] |}.
Definition ex_bytes : list Z :=
  [0; 0; 0; 0; 0; 0; 0; 100; 0; 0; 0; 76; 0; 0; 0; 7; 2; 125; 105; 121; 26; 0; 0; 0; 0; 0; 1;
   0; 0; 1; 139; 207; 229; 104; 0; 0; 0; 1; 139; 207; 229; 109; 220; 255; 255; 255; 255; 255;
   255; 255; 255; 255; 255; 255; 255; 255; 255; 0; 0; 0; 2; 32; 0; 0; 0; 4; 107; 49; 6; 118;
   49; 33; 2; 2; 104; 4; 1; 2; 18; 0; 184; 23; 2; 1; 4; 118; 50; 0].

Example prepared_ok_nonvacuous :
  prepared_ok ex_batch = true /\
  write_prepared_batch ex_batch = Ok ex_bytes /\
  read_batch ex_bytes = Ok (floor_seconds ex_batch, []) /\
  read_batch (ex_bytes ++ [1; 2; 3]) = Ok (floor_seconds ex_batch, [1; 2; 3]) /\
  existsb subsecond_ms (b_records ex_batch) = true.
Proof. vm_compute. repeat split; reflexivity. Qed.
Print Assumptions prepared_ok_nonvacuous.

(* the same batch with the second record on a whole second: the full cycle *)
Definition ex_r2w : record :=
  {| r_attributes := 0; r_timestamp := 1700000001000000; r_offset := 101;
     r_key := None; r_value := Some [118; 50]; r_headers := [] |}.
Definition ex_batch_whole : batch :=
  {| b_base_offset := 100; b_batch_length := 76; b_partition_leader_epoch := 7;
     b_crc := 1670188930; b_attributes := 0; b_last_offset_delta := 1;
     b_base_timestamp := 1700000000000; b_max_timestamp := 1700000001000;
     b_producer_id := -1; b_producer_epoch := -1; b_base_sequence := -1;
     b_records := [ex_r1; ex_r2w] |}.
Definition ex_bytes_whole : list Z :=
  [0; 0; 0; 0; 0; 0; 0; 100; 0; 0; 0; 76; 0; 0; 0; 7; 2; 99; 141; 15; 130; 0; 0; 0; 0; 0; 1;
   0; 0; 1; 139; 207; 229; 104; 0; 0; 0; 1; 139; 207; 229; 107; 232; 255; 255; 255; 255; 255;
   255; 255; 255; 255; 255; 255; 255; 255; 255; 0; 0; 0; 2; 32; 0; 0; 0; 4; 107; 49; 6; 118;
   49; 33; 2; 2; 104; 4; 1; 2; 18; 0; 208; 15; 2; 1; 4; 118; 50; 0].

Example prepared_ok_whole_seconds :
  prepared_ok ex_batch_whole = true /\
  forallb (fun r => r_timestamp r mod 1000000 =? 0) (b_records ex_batch_whole) = true /\
  write_prepared_batch ex_batch_whole = Ok ex_bytes_whole /\
  read_batch ex_bytes_whole = Ok (ex_batch_whole, []).
Proof. vm_compute. repeat split; reflexivity. Qed.
Print Assumptions prepared_ok_whole_seconds.
