(* CRC-32C: GF(2)-linearity of the register update, zero-injectivity, and the resulting
   error-detection theorems (every single-bit / single-byte error changes the checksum). *)
From Coq Require Import ZArith List Bool Lia.
From KioV Require Import Base.Res Records.Crc.
Import ListNotations.
Open Scope Z_scope.

(* flip bit (i mod 8) of byte (i / 8) *)
Definition flip_bit (i : nat) (m : list Z) : list Z :=
  firstn (i / 8) m ++
  match skipn (i / 8) m with
  | [] => []
  | b :: tl => Z.lxor b (2 ^ Z.of_nat (i mod 8)) :: tl
  end.

(* ---------- generic xor facts ---------- *)

Lemma lxor_range : forall n a b, 0 <= n -> 0 <= a < 2 ^ n -> 0 <= b < 2 ^ n ->
  0 <= Z.lxor a b < 2 ^ n.
Proof.
  intros n a b Hn Ha Hb.
  assert (Hpow : 0 < 2 ^ n) by (apply Z.pow_pos_nonneg; lia).
  destruct (Z.eq_dec n 0) as [->|Hn0].
  { change (2 ^ 0) with 1 in *. assert (a = 0) by lia. assert (b = 0) by lia. subst.
    cbn. lia. }
  assert (H0 : 0 <= Z.lxor a b) by (apply Z.lxor_nonneg; lia).
  split; [exact H0|].
  destruct (Z.eq_dec (Z.lxor a b) 0) as [->|Hne]; [lia|].
  apply Z.log2_lt_pow2; [lia|].
  eapply Z.le_lt_trans; [apply Z.log2_lxor; lia|].
  apply Z.max_lub_lt.
  - destruct (Z.eq_dec a 0) as [->|]; [cbn; lia|]. apply Z.log2_lt_pow2; lia.
  - destruct (Z.eq_dec b 0) as [->|]; [cbn; lia|]. apply Z.log2_lt_pow2; lia.
Qed.

Lemma lxor_cancel_l : forall a x, Z.lxor a x = a -> x = 0.
Proof.
  intros a x H.
  assert (E : Z.lxor a (Z.lxor a x) = Z.lxor a a) by (rewrite H; reflexivity).
  rewrite <- Z.lxor_assoc, Z.lxor_nilpotent, Z.lxor_0_l in E. exact E.
Qed.

Lemma lxor_inj_r : forall a b m, Z.lxor a m = Z.lxor b m -> a = b.
Proof.
  intros a b m H.
  assert (E : Z.lxor (Z.lxor a m) m = Z.lxor (Z.lxor b m) m) by (rewrite H; reflexivity).
  rewrite !Z.lxor_assoc, Z.lxor_nilpotent, !Z.lxor_0_r in E. exact E.
Qed.

(* ---------- one bit step ---------- *)

Lemma crc_step_lin : forall a b, crc_step (Z.lxor a b) = Z.lxor (crc_step a) (crc_step b).
Proof.
  intros a b. unfold crc_step. rewrite Z.shiftr_lxor.
  replace (Z.odd (Z.lxor a b)) with (xorb (Z.odd a) (Z.odd b)).
  2:{ rewrite <- !Z.bit0_odd. rewrite Z.lxor_spec. reflexivity. }
  destruct (Z.odd a), (Z.odd b); cbn [xorb];
    rewrite ?Z.lxor_0_r, ?Z.lxor_0_l.
  - rewrite Z.lxor_assoc. rewrite <- (Z.lxor_assoc crc_poly).
    rewrite (Z.lxor_comm crc_poly (Z.shiftr b 1)).
    rewrite Z.lxor_assoc. rewrite Z.lxor_nilpotent, Z.lxor_0_r. reflexivity.
  - rewrite !Z.lxor_assoc. f_equal. apply Z.lxor_comm.
  - rewrite Z.lxor_assoc. reflexivity.
  - reflexivity.
Qed.

Lemma crc_step_inj0 : forall c, 0 <= c < 2^32 -> crc_step c = 0 -> c = 0.
Proof.
  intros c Hc Hf. unfold crc_step in Hf.
  destruct (Z.odd c) eqn:Ho.
  - exfalso. apply Z.lxor_eq in Hf.
    assert (Z.shiftr c 1 < 2^31).
    { rewrite Z.shiftr_div_pow2 by lia. apply Z.div_lt_upper_bound; lia. }
    unfold crc_poly in Hf. lia.
  - rewrite Z.lxor_0_r in Hf. rewrite Z.shiftr_div_pow2 in Hf by lia.
    assert (He: Z.even c = true) by (rewrite <- Z.negb_odd, Ho; reflexivity).
    apply Z.even_spec in He. destruct He as [k Hk]. subst c.
    change (2^1) with 2 in Hf. rewrite Z.mul_comm, Z.div_mul in Hf by lia. lia.
Qed.

Lemma crc_step_range : forall c, 0 <= c < 2^32 -> 0 <= crc_step c < 2^32.
Proof.
  intros c Hc. unfold crc_step.
  assert (H1: 0 <= Z.shiftr c 1 < 2^32).
  { rewrite Z.shiftr_div_pow2 by lia.
    split; [apply Z.div_pos; lia| apply Z.div_lt_upper_bound; lia]. }
  apply lxor_range; [lia|exact H1|].
  destruct (Z.odd c); unfold crc_poly; lia.
Qed.

(* ---------- eight bit steps ---------- *)

(* NB: hypotheses are never unfolded by conversion ([unfold .. in H]); the kernel re-checks such
   steps by reducing both sides, which is exponential in the 8-fold nesting.  Rewrite with these
   equations instead. *)
Lemma crc_step8_eq : forall c, crc_step8 c =
  crc_step (crc_step (crc_step (crc_step (crc_step (crc_step (crc_step (crc_step c))))))).
Proof. reflexivity. Qed.

Lemma crc_byte_eq : forall c b, crc_byte c b = crc_step8 (Z.lxor c b).
Proof. reflexivity. Qed.

Lemma crc_step8_lin : forall a b, crc_step8 (Z.lxor a b) = Z.lxor (crc_step8 a) (crc_step8 b).
Proof. intros a b. rewrite !crc_step8_eq. rewrite !crc_step_lin. reflexivity. Qed.

Lemma crc_step8_range : forall c, 0 <= c < 2^32 -> 0 <= crc_step8 c < 2^32.
Proof. intros c Hc. rewrite crc_step8_eq. do 8 apply crc_step_range. exact Hc. Qed.

Lemma crc_step8_inj0 : forall c, 0 <= c < 2^32 -> crc_step8 c = 0 -> c = 0.
Proof.
  intros c Hc. rewrite crc_step8_eq. intro H.
  pose proof (crc_step_range _ Hc) as H1.
  pose proof (crc_step_range _ H1) as H2.
  pose proof (crc_step_range _ H2) as H3.
  pose proof (crc_step_range _ H3) as H4.
  pose proof (crc_step_range _ H4) as H5.
  pose proof (crc_step_range _ H5) as H6.
  pose proof (crc_step_range _ H6) as H7.
  apply (crc_step_inj0 _ Hc), (crc_step_inj0 _ H1), (crc_step_inj0 _ H2), (crc_step_inj0 _ H3),
    (crc_step_inj0 _ H4), (crc_step_inj0 _ H5), (crc_step_inj0 _ H6), (crc_step_inj0 _ H7), H.
Qed.

(* ---------- whole-register update ---------- *)

Lemma byte_ok_range : forall b, byte_ok b = true -> 0 <= b < 256.
Proof. intros b H. unfold byte_ok in H. apply andb_true_iff in H. lia. Qed.

Lemma crc_byte_range : forall c b, 0 <= c < 2^32 -> 0 <= b < 256 -> 0 <= crc_byte c b < 2^32.
Proof.
  intros c b Hc Hb. rewrite crc_byte_eq. apply crc_step8_range.
  apply lxor_range; lia.
Qed.

Lemma crc_update_cons : forall c b bs, crc_update c (b :: bs) = crc_update (crc_byte c b) bs.
Proof. reflexivity. Qed.

Lemma crc_update_app : forall c l1 l2,
  crc_update c (l1 ++ l2) = crc_update (crc_update c l1) l2.
Proof. intros. unfold crc_update. apply fold_left_app. Qed.

Lemma crc_update_range : forall bs c, bytes_ok bs = true -> 0 <= c < 2^32 ->
  0 <= crc_update c bs < 2^32.
Proof.
  induction bs as [|b bs IH]; intros c Hb Hc.
  - exact Hc.
  - cbn [bytes_ok forallb] in Hb. apply andb_true_iff in Hb. destruct Hb as [Hb Hbs].
    rewrite crc_update_cons. apply IH; [exact Hbs|].
    apply crc_byte_range; [exact Hc| apply byte_ok_range; exact Hb].
Qed.

(* GF(2)-linearity of the whole register update in the initial state *)
Lemma crc_update_lin : forall bs a d,
  crc_update (Z.lxor a d) bs = Z.lxor (crc_update a bs) (crc_update d (map (fun _ => 0) bs)).
Proof.
  induction bs as [|b bs IH]; intros a d.
  - reflexivity.
  - cbn [map]. rewrite !crc_update_cons, !crc_byte_eq.
    replace (Z.lxor (Z.lxor a d) b) with (Z.lxor (Z.lxor a b) (Z.lxor d 0)).
    2:{ rewrite Z.lxor_0_r. rewrite !Z.lxor_assoc. f_equal. apply Z.lxor_comm. }
    rewrite crc_step8_lin. apply IH.
Qed.

Lemma map_zero_repeat : forall (bs : list Z), map (fun _ => 0) bs = repeat 0 (length bs).
Proof. induction bs as [|b bs IH]; [reflexivity|]. cbn [map length repeat]. f_equal. exact IH. Qed.

(* a non-zero register difference is never absorbed by later bytes *)
Lemma crc_update_zero_inj : forall n d, 0 <= d < 2^32 -> crc_update d (repeat 0 n) = 0 -> d = 0.
Proof.
  induction n as [|n IH]; intros d Hd.
  - intro H. exact H.
  - cbn [repeat]. rewrite crc_update_cons, crc_byte_eq, Z.lxor_0_r. intro H.
    apply crc_step8_inj0; [exact Hd|].
    apply IH; [apply crc_step8_range; exact Hd | exact H].
Qed.

(* ---------- error detection ---------- *)

Lemma bytes_ok_app : forall l1 l2, bytes_ok (l1 ++ l2) = bytes_ok l1 && bytes_ok l2.
Proof. intros. unfold bytes_ok. apply forallb_app. Qed.

Lemma bytes_ok_cons : forall b l, bytes_ok (b :: l) = byte_ok b && bytes_ok l.
Proof. reflexivity. Qed.

(* the checksum distinguishes a message from any different message of the same length that
   differs in exactly one byte *)
Theorem crc32c_single_byte : forall pre b b' post, bytes_ok (pre ++ b :: post) = true ->
  0 <= b' < 256 -> b <> b' -> crc32c (pre ++ b' :: post) <> crc32c (pre ++ b :: post).
Proof.
  intros pre b b' post Hok Hb' Hne.
  rewrite bytes_ok_app in Hok. apply andb_true_iff in Hok. destruct Hok as [_ Hok].
  rewrite bytes_ok_cons in Hok. apply andb_true_iff in Hok. destruct Hok as [Hb _].
  apply byte_ok_range in Hb.
  assert (Hx : 0 <= Z.lxor b b' < 2^32).
  { assert (0 <= Z.lxor b b' < 2^8) by (apply lxor_range; lia). lia. }
  unfold crc32c.
  rewrite !crc_update_app, !crc_update_cons, !crc_byte_eq.
  generalize (crc_update crc_mask pre). intro c.
  replace (Z.lxor c b') with (Z.lxor (Z.lxor c b) (Z.lxor b b')).
  2:{ rewrite Z.lxor_assoc. f_equal.
      rewrite <- Z.lxor_assoc, Z.lxor_nilpotent, Z.lxor_0_l. reflexivity. }
  rewrite crc_step8_lin, crc_update_lin, map_zero_repeat.
  intro Heq.
  apply lxor_inj_r, lxor_cancel_l in Heq.
  apply Hne. apply Z.lxor_eq.
  apply crc_step8_inj0; [exact Hx|].
  apply (crc_update_zero_inj (length post)); [apply crc_step8_range; exact Hx | exact Heq].
Qed.
Print Assumptions crc32c_single_byte.

(* main theorem: every single-bit error in a message of any length changes the checksum *)
Theorem crc32c_single_bit : forall m i, bytes_ok m = true -> (i < 8 * length m)%nat ->
  crc32c (flip_bit i m) <> crc32c m.
Proof.
  intros m i Hok Hi. unfold flip_bit.
  assert (Hk : (i / 8 < length m)%nat) by (apply Nat.div_lt_upper_bound; lia).
  assert (Hj : (i mod 8 < 8)%nat) by (apply Nat.mod_upper_bound; lia).
  set (k := (i / 8)%nat) in *. set (j := (i mod 8)%nat) in *.
  destruct (skipn k m) as [|b tl] eqn:Hs.
  - exfalso. assert (L : length (skipn k m) = (length m - k)%nat) by apply skipn_length.
    rewrite Hs in L. cbn [length] in L. lia.
  - assert (Hm : m = firstn k m ++ b :: tl) by (rewrite <- Hs; symmetry; apply firstn_skipn).
    replace (crc32c m) with (crc32c (firstn k m ++ b :: tl)) by (rewrite <- Hm; reflexivity).
    rewrite Hm in Hok.
    assert (Hb : 0 <= b < 256).
    { rewrite bytes_ok_app in Hok. apply andb_true_iff in Hok. destruct Hok as [_ Hok'].
      rewrite bytes_ok_cons in Hok'. apply andb_true_iff in Hok'. destruct Hok' as [Hb _].
      apply byte_ok_range; exact Hb. }
    assert (Hp : 0 < 2 ^ Z.of_nat j < 2 ^ 8).
    { split; [apply Z.pow_pos_nonneg; lia| apply Z.pow_lt_mono_r; lia]. }
    apply crc32c_single_byte.
    + exact Hok.
    + assert (0 <= Z.lxor b (2 ^ Z.of_nat j) < 2 ^ 8) by (apply lxor_range; lia). lia.
    + intro E. symmetry in E. apply lxor_cancel_l in E. lia.
Qed.
Print Assumptions crc32c_single_bit.

Theorem crc32c_range : forall bs, bytes_ok bs = true -> 0 <= crc32c bs < 2^32.
Proof.
  intros bs Hok. unfold crc32c.
  assert (Hm : 0 <= crc_mask < 2^32) by (unfold crc_mask; lia).
  apply lxor_range; [lia| apply crc_update_range; assumption | exact Hm].
Qed.
Print Assumptions crc32c_range.

(* "123456789" *)
Example crc32c_check : crc32c [49;50;51;52;53;54;55;56;57] = 0xE3069283.
Proof. vm_compute. reflexivity. Qed.
