(* Record batches (magic 2): the model of kio.records.writers and kio.records.readers, and an
   independent decoder written from the Kafka message-format description.  Definitions only. *)
From Coq Require Import ZArith List Bool.
From KioV Require Import Base.Res Base.Prog Prim.Bytes Prim.Varint Prim.Time Records.Crc.
Import ListNotations.
Open Scope Z_scope.

Record header := { h_key : option (list Z); h_value : option (list Z) }.
Record record := {
  r_attributes : Z;
  r_timestamp : Z;                (* microseconds since the epoch (TZAwareMicros) *)
  r_offset : Z;
  r_key : option (list Z);
  r_value : option (list Z);
  r_headers : list header
}.
Record batch := {
  b_base_offset : Z; b_batch_length : Z; b_partition_leader_epoch : Z; b_crc : Z;
  b_attributes : Z; b_last_offset_delta : Z; b_base_timestamp : Z; b_max_timestamp : Z;
  b_producer_id : Z; b_producer_epoch : Z; b_base_sequence : Z; b_records : list record
}.
Record new_batch := {
  n_producer_id : Z; n_producer_epoch : Z; n_partition_leader_epoch : Z; n_base_sequence : Z;
  n_records : list record; n_attributes : Z
}.

(* ---------------- writers ---------------- *)
Definition cat2 (a b : res (list Z)) : res (list Z) :=
  rbind a (fun x => rbind b (fun y => Ok (x ++ y))).
Fixpoint cat (l : list (res (list Z))) : res (list Z) :=
  match l with [] => Ok [] | x :: tl => cat2 x (cat tl) end.

(* write_signed_compact_bytes *)
Definition write_scbytes (v : option (list Z)) : res (list Z) :=
  match v with
  | None => write_svarint (-1)
  | Some b => cat2 (write_svarint (zlen b)) (Ok b)
  end.
Definition write_header (h : header) : res (list Z) :=
  cat2 (write_scbytes (h_key h)) (write_scbytes (h_value h)).

(* whole milliseconds of a timestamp (integer floor) *)
Definition millis_of (us : Z) : Z := us / 1000.

Definition write_record (r : record) (base_timestamp base_offset : Z) : res (list Z) :=
  rbind (cat [ write_int 1 true (r_attributes r);
               write_svarlong (millis_of (r_timestamp r) - base_timestamp);
               write_svarint (r_offset r - base_offset);
               write_scbytes (r_key r);
               write_scbytes (r_value r);
               write_svarint (zlen (r_headers r));
               cat (map write_header (r_headers r)) ]) (fun body =>
  cat2 (write_svarint (zlen body)) (Ok body)).

Definition write_pre (base_offset batch_length ple magic crc : Z) : res (list Z) :=
  cat [ write_int 8 true base_offset; write_int 4 true batch_length; write_int 4 true ple;
        write_int 1 true magic; write_int 4 false crc ].

Definition write_post (attributes lod base_ts max_ts pid pepoch bseq base_offset : Z)
           (rs : list record) : res (list Z) :=
  cat [ write_int 2 true attributes; write_int 4 true lod; write_int 8 true base_ts;
        write_int 8 true max_ts; write_int 8 true pid; write_int 2 true pepoch;
        write_int 4 true bseq;
        (if in_int_range 4 true (zlen rs) then write_int 4 true (zlen rs) else Err EType);
        cat (map (fun r => write_record r base_ts base_offset) rs) ].

Definition phantom (w : nat) (signed : bool) (z : Z) : res Z :=
  if in_int_range w signed z then Ok z else Err EType.     (* i32(...), i64(...), u32(...) *)

Definition max_timestamp_us (rs : list record) : Z :=
  fold_left Z.max (map r_timestamp rs) (match rs with r :: _ => r_timestamp r | [] => 0 end).

Definition write_new_batch (nb : new_batch) : res (list Z) :=
  match n_records nb with
  | [] => Err EValue
  | first :: _ =>
      let last_r := last (n_records nb) first in
      let base_offset := r_offset first in
      rbind (phantom 4 true (r_offset last_r - base_offset)) (fun lod =>
      rbind (phantom 8 true (millis_of (r_timestamp first))) (fun base_ts =>
      rbind (phantom 8 true (millis_of (max_timestamp_us (n_records nb)))) (fun max_ts =>
      rbind (write_post (n_attributes nb) lod base_ts max_ts (n_producer_id nb)
                        (n_producer_epoch nb) (n_base_sequence nb) base_offset (n_records nb))
            (fun post =>
      rbind (phantom 4 true (zlen post + 9)) (fun blen =>
      rbind (phantom 4 false (crc32c post)) (fun crc =>
      cat2 (write_pre base_offset blen (n_partition_leader_epoch nb) 2 crc) (Ok post)))))))
  end.

Definition write_prepared_batch (b : batch) : res (list Z) :=
  cat2 (write_pre (b_base_offset b) (b_batch_length b) (b_partition_leader_epoch b) 2 (b_crc b))
       (write_post (b_attributes b) (b_last_offset_delta b) (b_base_timestamp b)
                   (b_max_timestamp b) (b_producer_id b) (b_producer_epoch b)
                   (b_base_sequence b) (b_base_offset b) (b_records b)).

(* ---------------- readers ---------------- *)
(* read_signed_compact_string_as_bytes_nullable (with read_exact for the payload) *)
Definition read_scbytes : prog (option (list Z)) :=
  len <- read_svarint ;;
  if len =? -1 then Ret None
  else if len <? 0 then Fail EValue
  else Read len (fun b => Ret (Some b)).

Definition read_header : prog header :=
  k <- read_scbytes ;; v <- read_scbytes ;; Ret {| h_key := k; h_value := v |}.

(* the record's timestamp as the reader builds it: whole seconds (replace(microsecond=0));
   TZAwareMicros.parse raises TypeError for instants before the epoch; the datetime range is
   years 1..9999 *)
Definition record_timestamp (ms : Z) : res Z :=
  let secs := ms / 1000 in
  let us := secs * 1000000 in
  if (us <? dt_min_us) || (dt_max_us <? us) then Err EValue
  else if us <? 0 then Err EType
  else Ok us.

Definition read_record_body (fuel : nat) (base_timestamp base_offset : Z) : prog record :=
  attributes <- read_int 1 true ;;
  delta <- read_svarlong ;;
  ts <- lift (record_timestamp (base_timestamp + delta)) ;;
  odelta <- read_svarint ;;
  offset <- lift (phantom 8 true (base_offset + odelta)) ;;
  key <- read_scbytes ;;
  value <- read_scbytes ;;
  nh <- read_svarint ;;
  hs <- repeat_prog fuel nh read_header ;;
  Ret {| r_attributes := attributes; r_timestamp := ts; r_offset := offset;
         r_key := key; r_value := value; r_headers := hs |}.

(* read_record: length, then exactly that many bytes, which the body must use up *)
Definition read_record (fuel : nat) (base_timestamp base_offset : Z) : prog record :=
  len <- read_svarint ;;
  Read len (fun body =>
    match run (read_record_body fuel base_timestamp base_offset) body with
    | Err e => Fail e
    | Ok (r, []) => Ret r
    | Ok (_, _ :: _) => Fail EValue        (* "Record buffer is not empty" *)
    end).

Definition read_one_record (fuel : nat) (base_timestamp base_offset max_timestamp : Z) : prog record :=
  r <- read_record fuel base_timestamp base_offset ;;
  if max_timestamp <? r_timestamp r / 1000000 then Fail EValue else Ret r.

(* io.BytesIO.read(n): n < 0 reads everything, otherwise at most n bytes *)
Definition py_read (n : Z) (bs : list Z) : list Z * list Z :=
  if n <? 0 then (bs, []) else (firstn (Z.to_nat n) bs, skipn (Z.to_nat n) bs).

Definition read_batch_inner (fuel : nat) (base_offset batch_length : Z) : prog batch :=
  ple <- read_int 4 true ;;
  magic <- read_int 1 true ;;
  if negb (magic =? 2) then Fail EValue else
  crc <- read_int 4 false ;;
  Ret {| b_base_offset := base_offset; b_batch_length := batch_length;
         b_partition_leader_epoch := ple; b_crc := crc; b_attributes := 0;
         b_last_offset_delta := 0; b_base_timestamp := 0; b_max_timestamp := 0;
         b_producer_id := 0; b_producer_epoch := 0; b_base_sequence := 0; b_records := [] |}.

Definition read_batch_rest (fuel : nat) (h : batch) : prog batch :=
  attributes <- read_int 2 true ;;
  lod <- read_int 4 true ;;
  base_ts <- read_int 8 true ;;
  max_ts <- read_int 8 true ;;
  pid <- read_int 8 true ;;
  pepoch <- read_int 2 true ;;
  bseq <- read_int 4 true ;;
  n <- read_int 4 true ;;
  rs <- repeat_prog fuel n (read_one_record fuel base_ts (b_base_offset h) max_ts) ;;
  Ret {| b_base_offset := b_base_offset h; b_batch_length := b_batch_length h;
         b_partition_leader_epoch := b_partition_leader_epoch h; b_crc := b_crc h;
         b_attributes := attributes; b_last_offset_delta := lod; b_base_timestamp := base_ts;
         b_max_timestamp := max_ts; b_producer_id := pid; b_producer_epoch := pepoch;
         b_base_sequence := bseq; b_records := rs |}.

(* read_batch: returns the batch and what is left in the outer buffer *)
Definition read_batch (bs : list Z) : res (batch * list Z) :=
  let fuel := S (length bs) in
  match run (bo <- read_int 8 true ;; bl <- read_int 4 true ;; Ret (bo, bl)) bs with
  | Err e => Err e
  | Ok ((base_offset, batch_length), rest) =>
      let (body, outer_rest) := py_read batch_length rest in
      match run (read_batch_inner fuel base_offset batch_length) body with
      | Err e => Err e
      | Ok (h, after_crc) =>
          (* attributes_pos = 9; batch_buffer.read(batch_length - 9) *)
          let (covered, _) := py_read (batch_length - 9) after_crc in
          if negb (b_crc h =? crc32c covered) then Err EValue
          else match run (read_batch_rest fuel h) after_crc with
               | Err e => Err e
               | Ok (b, _) => Ok (b, outer_rest)
               end
      end
  end.

(* ---------------- an independent decoder, from the format description ----------------
   RecordBatch: baseOffset int64 @0, batchLength int32 @8, partitionLeaderEpoch int32 @12,
   magic int8 @16, crc uint32 @17, attributes int16 @21, lastOffsetDelta int32 @23,
   baseTimestamp int64 @27, maxTimestamp int64 @35, producerId int64 @43,
   producerEpoch int16 @51, baseSequence int32 @53, records count int32 @57, records @61.
   The CRC covers everything from the attributes (offset 21) to the end. *)
Definition slice (off len : nat) (bs : list Z) : list Z := firstn len (skipn off bs).
Definition sint (w : nat) (bs : list Z) : Z := to_signed w (be_val bs).

Record spec_header := {
  sh_base_offset : Z; sh_batch_length : Z; sh_ple : Z; sh_magic : Z; sh_crc : Z;
  sh_attributes : Z; sh_lod : Z; sh_base_ts : Z; sh_max_ts : Z; sh_pid : Z; sh_pepoch : Z;
  sh_bseq : Z; sh_count : Z
}.

Definition spec_parse_header (bs : list Z) : option spec_header :=
  if (length bs <? 61)%nat then None else
  Some {| sh_base_offset := sint 8 (slice 0 8 bs); sh_batch_length := sint 4 (slice 8 4 bs);
          sh_ple := sint 4 (slice 12 4 bs); sh_magic := sint 1 (slice 16 1 bs);
          sh_crc := be_val (slice 17 4 bs); sh_attributes := sint 2 (slice 21 2 bs);
          sh_lod := sint 4 (slice 23 4 bs); sh_base_ts := sint 8 (slice 27 8 bs);
          sh_max_ts := sint 8 (slice 35 8 bs); sh_pid := sint 8 (slice 43 8 bs);
          sh_pepoch := sint 2 (slice 51 2 bs); sh_bseq := sint 4 (slice 53 4 bs);
          sh_count := sint 4 (slice 57 4 bs) |}.

(* the format's well-formedness conditions on a whole batch *)
Definition spec_batch_ok (bs : list Z) : bool :=
  match spec_parse_header bs with
  | None => false
  | Some h => (sh_magic h =? 2) && (sh_batch_length h =? zlen bs - 12)
              && (sh_crc h =? crc32c (skipn 21 bs))
  end.

(* a record as the format stores it: millisecond timestamp delta, offset delta *)
Record spec_record := {
  sr_attributes : Z; sr_ts_delta : Z; sr_offset_delta : Z;
  sr_key : option (list Z); sr_value : option (list Z); sr_headers : list header
}.
Definition spec_record_body (fuel : nat) : prog spec_record :=
  attributes <- read_int 1 true ;;
  td <- read_svarlong ;;
  od <- read_svarint ;;
  key <- read_scbytes ;;
  value <- read_scbytes ;;
  nh <- read_svarint ;;
  hs <- repeat_prog fuel nh read_header ;;
  Ret {| sr_attributes := attributes; sr_ts_delta := td; sr_offset_delta := od;
         sr_key := key; sr_value := value; sr_headers := hs |}.
Definition spec_record_prog (fuel : nat) : prog spec_record :=
  len <- read_svarint ;;
  Read len (fun body =>
    match run (spec_record_body fuel) body with
    | Ok (r, []) => Ret r
    | Ok (_, _ :: _) => Fail EValue
    | Err e => Fail e
    end).
Definition spec_decode (bs : list Z) : res (spec_header * list spec_record) :=
  match spec_parse_header bs with
  | None => Err EUnderflow
  | Some h =>
      if negb (spec_batch_ok bs) then Err EValue else
      match run (repeat_prog (S (length bs)) (sh_count h) (spec_record_prog (S (length bs)))) (skipn 61 bs) with
      | Ok (rs, []) => Ok (h, rs)
      | Ok (_, _ :: _) => Err EValue
      | Err e => Err e
      end
  end.
