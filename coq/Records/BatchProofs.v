(* Theorems about record batches (Records/Batch.v): the layout of what the writer produces,
   checked against the independent header parser and decoder; the facts the reader guarantees
   about what it accepts (magic, CRC, field positions); truncation and single-bit damage. *)
From Coq Require Import ZArith List Bool Lia.
From KioV Require Import Base.Res Base.Prog Base.ProgProofs
  Prim.Bytes Prim.Varint Prim.Time Prim.BytesProofs Prim.VarintProofs
  Records.Crc Records.Batch.
Import ListNotations.
Open Scope Z_scope.

(* ------------------------------------------------------------------------------------------ *)
(* 1. an empty batch cannot be written *)
Theorem write_new_batch_empty : forall nb, n_records nb = [] -> write_new_batch nb = Err EValue.
Proof. intros nb H. unfold write_new_batch. rewrite H. reflexivity. Qed.
Print Assumptions write_new_batch_empty.

(* ------------------------------------------------------------------------------------------ *)
(* list helpers: slices of concatenations *)
Lemma slice_skip (a b : list Z) n off len :
  length a = n -> (n <=? off)%nat = true -> slice off len (a ++ b) = slice (off - n) len b.
Proof.
  intros Ha Hle. apply Nat.leb_le in Hle. unfold slice. rewrite skipn_app, Ha.
  rewrite (skipn_all2 a) by lia. reflexivity.
Qed.

Lemma slice_take (a b : list Z) len : length a = len -> slice 0 len (a ++ b) = a.
Proof.
  intros Ha. unfold slice. cbn [skipn]. rewrite firstn_app, Ha, Nat.sub_diag.
  cbn [firstn]. rewrite app_nil_r. rewrite <- Ha. apply firstn_all.
Qed.

Lemma skipn_app_exact (a b : list Z) n : length a = n -> skipn n (a ++ b) = b.
Proof.
  intros Ha. rewrite skipn_app, Ha, Nat.sub_diag. rewrite (skipn_all2 a) by lia. reflexivity.
Qed.

(* ------------------------------------------------------------------------------------------ *)
(* inversion of the writer combinators *)
Lemma cat2_inv a b r : cat2 a b = Ok r -> exists x y, a = Ok x /\ b = Ok y /\ r = x ++ y.
Proof.
  unfold cat2, rbind. destruct a as [x|]; [|discriminate]. destruct b as [y|]; [|discriminate].
  intros H. exists x, y. repeat split. congruence.
Qed.

Lemma cat_cons_inv x l r : cat (x :: l) = Ok r -> exists a b, x = Ok a /\ cat l = Ok b /\ r = a ++ b.
Proof. cbn [cat]. apply cat2_inv. Qed.

Lemma cat_nil_inv r : cat [] = Ok r -> r = [].
Proof. cbn [cat]. congruence. Qed.

Lemma phantom_inv w s z v : phantom w s z = Ok v -> in_int_range w s z = true /\ v = z.
Proof. unfold phantom. destruct (in_int_range w s z); [|discriminate]. intros H. split; congruence. Qed.

Lemma rbind_inv {A B} (r : res A) (f : A -> res B) b : rbind r f = Ok b -> exists a, r = Ok a /\ f a = Ok b.
Proof. destruct r as [a|]; [|discriminate]. intros H. exists a. split; [reflexivity|exact H]. Qed.

(* what write_int produces, read back at its own width *)
Lemma write_int_sint w z b : (0 < w)%nat -> write_int w true z = Ok b -> sint w b = z /\ length b = w.
Proof.
  intros Hw H. split; [|eapply write_int_length; exact H].
  unfold write_int in H. destruct (in_int_range w true z) eqn:E; [|discriminate].
  assert (b = be_bytes w (z mod 2 ^ (8 * Z.of_nat w))) as -> by congruence. clear H.
  apply in_int_range_spec in E. cbv [int_lo int_hi] in E.
  assert (Hpos: 0 < 2 ^ (8 * Z.of_nat w)) by (apply Z.pow_pos_nonneg; lia).
  unfold sint. rewrite be_val_be_bytes by (rewrite <- pow256; apply Z.mod_pos_bound; lia).
  apply to_signed_mod; assumption.
Qed.

Lemma write_int_uval w z b : write_int w false z = Ok b -> be_val b = z /\ length b = w.
Proof.
  intros H. split; [|eapply write_int_length; exact H].
  unfold write_int in H. destruct (in_int_range w false z) eqn:E; [|discriminate].
  assert (b = be_bytes w (z mod 2 ^ (8 * Z.of_nat w))) as -> by congruence. clear H.
  apply in_int_range_spec in E. cbv [int_lo int_hi] in E.
  assert (Hpos: 0 < 2 ^ (8 * Z.of_nat w)) by (apply Z.pow_pos_nonneg; lia).
  rewrite be_val_be_bytes by (rewrite <- pow256; apply Z.mod_pos_bound; lia).
  apply Z.mod_small. lia.
Qed.

(* ------------------------------------------------------------------------------------------ *)
(* the 61 header bytes as thirteen fields *)
Record hdr_fields := {
  f0 : list Z; f1 : list Z; f2 : list Z; f3 : list Z; f4 : list Z; f5 : list Z; f6 : list Z;
  f7 : list Z; f8 : list Z; f9 : list Z; f10 : list Z; f11 : list Z; f12 : list Z }.

Definition hdr_cat (f : hdr_fields) (recs : list Z) : list Z :=
  f0 f ++ f1 f ++ f2 f ++ f3 f ++ f4 f ++ f5 f ++ f6 f ++ f7 f ++ f8 f ++ f9 f ++ f10 f ++
  f11 f ++ f12 f ++ recs.

Definition hdr_lens (f : hdr_fields) : Prop :=
  length (f0 f) = 8%nat /\ length (f1 f) = 4%nat /\ length (f2 f) = 4%nat /\ length (f3 f) = 1%nat /\
  length (f4 f) = 4%nat /\ length (f5 f) = 2%nat /\ length (f6 f) = 4%nat /\ length (f7 f) = 8%nat /\
  length (f8 f) = 8%nat /\ length (f9 f) = 8%nat /\ length (f10 f) = 2%nat /\ length (f11 f) = 4%nat /\
  length (f12 f) = 4%nat.

Ltac slice_solve :=
  repeat (erewrite slice_skip by (first [eassumption | reflexivity]); cbn [Nat.sub]);
  apply slice_take; assumption.

Lemma hdr_cat_parse f recs : hdr_lens f ->
  length (hdr_cat f recs) = (61 + length recs)%nat /\
  skipn 21 (hdr_cat f recs) = f5 f ++ f6 f ++ f7 f ++ f8 f ++ f9 f ++ f10 f ++ f11 f ++ f12 f ++ recs /\
  skipn 61 (hdr_cat f recs) = recs /\
  spec_parse_header (hdr_cat f recs) =
    Some {| sh_base_offset := sint 8 (f0 f); sh_batch_length := sint 4 (f1 f);
            sh_ple := sint 4 (f2 f); sh_magic := sint 1 (f3 f); sh_crc := be_val (f4 f);
            sh_attributes := sint 2 (f5 f); sh_lod := sint 4 (f6 f); sh_base_ts := sint 8 (f7 f);
            sh_max_ts := sint 8 (f8 f); sh_pid := sint 8 (f9 f); sh_pepoch := sint 2 (f10 f);
            sh_bseq := sint 4 (f11 f); sh_count := sint 4 (f12 f) |}.
Proof.
  destruct f as [a0 a1 a2 a3 a4 a5 a6 a7 a8 a9 a10 a11 a12]. unfold hdr_lens, hdr_cat.
  cbn [f0 f1 f2 f3 f4 f5 f6 f7 f8 f9 f10 f11 f12].
  intros (L0&L1&L2&L3&L4&L5&L6&L7&L8&L9&L10&L11&L12).
  assert (Hlen: length (a0 ++ a1 ++ a2 ++ a3 ++ a4 ++ a5 ++ a6 ++ a7 ++ a8 ++ a9 ++ a10 ++ a11 ++ a12 ++ recs)
                = (61 + length recs)%nat).
  { rewrite !app_length. lia. }
  split; [exact Hlen|]. split; [|split].
  - replace (a0 ++ a1 ++ a2 ++ a3 ++ a4 ++ a5 ++ a6 ++ a7 ++ a8 ++ a9 ++ a10 ++ a11 ++ a12 ++ recs)
      with ((a0 ++ a1 ++ a2 ++ a3 ++ a4) ++ a5 ++ a6 ++ a7 ++ a8 ++ a9 ++ a10 ++ a11 ++ a12 ++ recs)
      by (rewrite <- !app_assoc; reflexivity).
    apply skipn_app_exact. rewrite !app_length. lia.
  - replace (a0 ++ a1 ++ a2 ++ a3 ++ a4 ++ a5 ++ a6 ++ a7 ++ a8 ++ a9 ++ a10 ++ a11 ++ a12 ++ recs)
      with ((a0 ++ a1 ++ a2 ++ a3 ++ a4 ++ a5 ++ a6 ++ a7 ++ a8 ++ a9 ++ a10 ++ a11 ++ a12) ++ recs)
      by (rewrite <- !app_assoc; reflexivity).
    apply skipn_app_exact. rewrite !app_length. lia.
  - unfold spec_parse_header. rewrite Hlen.
    replace (61 + length recs <? 61)%nat with false by (symmetry; apply Nat.ltb_ge; lia).
    f_equal. f_equal; f_equal; slice_solve.
Qed.
