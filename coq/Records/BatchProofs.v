(* Theorems about record batches (Records/Batch.v): the layout of what the writer produces,
   checked against the independent header parser and decoder; the facts the reader guarantees
   about what it accepts (magic, CRC, field positions); truncation and single-bit damage. *)
From Coq Require Import ZArith List Bool Lia.
From KioV Require Import Base.Res Base.Prog Base.ProgProofs
  Prim.Bytes Prim.Varint Prim.Time Prim.BytesProofs Prim.VarintProofs
  Records.Crc Records.Batch.
Import ListNotations.
Open Scope Z_scope.

(* ------------------------------------------------------------------------------------------ *)
(* 1. an empty batch cannot be written *)
Theorem write_new_batch_empty : forall nb, n_records nb = [] -> write_new_batch nb = Err EValue.
Proof. intros nb H. unfold write_new_batch. rewrite H. reflexivity. Qed.
Print Assumptions write_new_batch_empty.

(* ------------------------------------------------------------------------------------------ *)
(* list helpers: slices of concatenations *)
Lemma slice_skip (a b : list Z) n off len :
  length a = n -> (n <=? off)%nat = true -> slice off len (a ++ b) = slice (off - n) len b.
Proof.
  intros Ha Hle. apply Nat.leb_le in Hle. unfold slice. rewrite skipn_app, Ha.
  rewrite (skipn_all2 a) by lia. reflexivity.
Qed.

Lemma slice_take (a b : list Z) len : length a = len -> slice 0 len (a ++ b) = a.
Proof.
  intros Ha. unfold slice. cbn [skipn]. rewrite firstn_app, Ha, Nat.sub_diag.
  cbn [firstn]. rewrite app_nil_r. rewrite <- Ha. apply firstn_all.
Qed.

Lemma skipn_app_exact (a b : list Z) n : length a = n -> skipn n (a ++ b) = b.
Proof.
  intros Ha. rewrite skipn_app, Ha, Nat.sub_diag. rewrite (skipn_all2 a) by lia. reflexivity.
Qed.

(* ------------------------------------------------------------------------------------------ *)
(* inversion of the writer combinators *)
Lemma cat2_inv a b r : cat2 a b = Ok r -> exists x y, a = Ok x /\ b = Ok y /\ r = x ++ y.
Proof.
  unfold cat2, rbind. destruct a as [x|]; [|discriminate]. destruct b as [y|]; [|discriminate].
  intros H. exists x, y. repeat split. congruence.
Qed.

Lemma cat_cons_inv x l r : cat (x :: l) = Ok r -> exists a b, x = Ok a /\ cat l = Ok b /\ r = a ++ b.
Proof. cbn [cat]. apply cat2_inv. Qed.

Lemma cat_nil_inv r : cat [] = Ok r -> r = [].
Proof. cbn [cat]. congruence. Qed.

Lemma phantom_inv w s z v : phantom w s z = Ok v -> in_int_range w s z = true /\ v = z.
Proof. unfold phantom. destruct (in_int_range w s z); [|discriminate]. intros H. split; congruence. Qed.

Lemma rbind_inv {A B} (r : res A) (f : A -> res B) b : rbind r f = Ok b -> exists a, r = Ok a /\ f a = Ok b.
Proof. destruct r as [a|]; [|discriminate]. intros H. exists a. split; [reflexivity|exact H]. Qed.

(* what write_int produces, read back at its own width *)
Lemma write_int_sint w z b : (0 < w)%nat -> write_int w true z = Ok b -> sint w b = z /\ length b = w.
Proof.
  intros Hw H. split; [|eapply write_int_length; exact H].
  unfold write_int in H. destruct (in_int_range w true z) eqn:E; [|discriminate].
  assert (b = be_bytes w (z mod 2 ^ (8 * Z.of_nat w))) as -> by congruence. clear H.
  apply in_int_range_spec in E. cbv [int_lo int_hi] in E.
  assert (Hpos: 0 < 2 ^ (8 * Z.of_nat w)) by (apply Z.pow_pos_nonneg; lia).
  unfold sint. rewrite be_val_be_bytes by (rewrite <- pow256; apply Z.mod_pos_bound; lia).
  apply to_signed_mod; assumption.
Qed.

Lemma write_int_uval w z b : write_int w false z = Ok b -> be_val b = z /\ length b = w.
Proof.
  intros H. split; [|eapply write_int_length; exact H].
  unfold write_int in H. destruct (in_int_range w false z) eqn:E; [|discriminate].
  assert (b = be_bytes w (z mod 2 ^ (8 * Z.of_nat w))) as -> by congruence. clear H.
  apply in_int_range_spec in E. cbv [int_lo int_hi] in E.
  assert (Hpos: 0 < 2 ^ (8 * Z.of_nat w)) by (apply Z.pow_pos_nonneg; lia).
  rewrite be_val_be_bytes by (rewrite <- pow256; apply Z.mod_pos_bound; lia).
  apply Z.mod_small. lia.
Qed.

(* ------------------------------------------------------------------------------------------ *)
(* the 61 header bytes as thirteen fields *)
Record hdr_fields := {
  f0 : list Z; f1 : list Z; f2 : list Z; f3 : list Z; f4 : list Z; f5 : list Z; f6 : list Z;
  f7 : list Z; f8 : list Z; f9 : list Z; f10 : list Z; f11 : list Z; f12 : list Z }.

Definition hdr_cat (f : hdr_fields) (recs : list Z) : list Z :=
  f0 f ++ f1 f ++ f2 f ++ f3 f ++ f4 f ++ f5 f ++ f6 f ++ f7 f ++ f8 f ++ f9 f ++ f10 f ++
  f11 f ++ f12 f ++ recs.

Definition hdr_lens (f : hdr_fields) : Prop :=
  length (f0 f) = 8%nat /\ length (f1 f) = 4%nat /\ length (f2 f) = 4%nat /\ length (f3 f) = 1%nat /\
  length (f4 f) = 4%nat /\ length (f5 f) = 2%nat /\ length (f6 f) = 4%nat /\ length (f7 f) = 8%nat /\
  length (f8 f) = 8%nat /\ length (f9 f) = 8%nat /\ length (f10 f) = 2%nat /\ length (f11 f) = 4%nat /\
  length (f12 f) = 4%nat.

Ltac slice_solve :=
  repeat (erewrite slice_skip by (first [eassumption | reflexivity]); cbn [Nat.sub]);
  apply slice_take; assumption.

Lemma hdr_cat_parse f recs : hdr_lens f ->
  length (hdr_cat f recs) = (61 + length recs)%nat /\
  skipn 21 (hdr_cat f recs) = f5 f ++ f6 f ++ f7 f ++ f8 f ++ f9 f ++ f10 f ++ f11 f ++ f12 f ++ recs /\
  skipn 61 (hdr_cat f recs) = recs /\
  spec_parse_header (hdr_cat f recs) =
    Some {| sh_base_offset := sint 8 (f0 f); sh_batch_length := sint 4 (f1 f);
            sh_ple := sint 4 (f2 f); sh_magic := sint 1 (f3 f); sh_crc := be_val (f4 f);
            sh_attributes := sint 2 (f5 f); sh_lod := sint 4 (f6 f); sh_base_ts := sint 8 (f7 f);
            sh_max_ts := sint 8 (f8 f); sh_pid := sint 8 (f9 f); sh_pepoch := sint 2 (f10 f);
            sh_bseq := sint 4 (f11 f); sh_count := sint 4 (f12 f) |}.
Proof.
  destruct f as [a0 a1 a2 a3 a4 a5 a6 a7 a8 a9 a10 a11 a12]. unfold hdr_lens, hdr_cat.
  cbn [f0 f1 f2 f3 f4 f5 f6 f7 f8 f9 f10 f11 f12].
  intros (L0&L1&L2&L3&L4&L5&L6&L7&L8&L9&L10&L11&L12).
  assert (Hlen: length (a0 ++ a1 ++ a2 ++ a3 ++ a4 ++ a5 ++ a6 ++ a7 ++ a8 ++ a9 ++ a10 ++ a11 ++ a12 ++ recs)
                = (61 + length recs)%nat).
  { rewrite !app_length. lia. }
  split; [exact Hlen|]. split; [|split].
  - replace (a0 ++ a1 ++ a2 ++ a3 ++ a4 ++ a5 ++ a6 ++ a7 ++ a8 ++ a9 ++ a10 ++ a11 ++ a12 ++ recs)
      with ((a0 ++ a1 ++ a2 ++ a3 ++ a4) ++ a5 ++ a6 ++ a7 ++ a8 ++ a9 ++ a10 ++ a11 ++ a12 ++ recs)
      by (rewrite <- !app_assoc; reflexivity).
    apply skipn_app_exact. rewrite !app_length. lia.
  - replace (a0 ++ a1 ++ a2 ++ a3 ++ a4 ++ a5 ++ a6 ++ a7 ++ a8 ++ a9 ++ a10 ++ a11 ++ a12 ++ recs)
      with ((a0 ++ a1 ++ a2 ++ a3 ++ a4 ++ a5 ++ a6 ++ a7 ++ a8 ++ a9 ++ a10 ++ a11 ++ a12) ++ recs)
      by (rewrite <- !app_assoc; reflexivity).
    apply skipn_app_exact. rewrite !app_length. lia.
  - unfold spec_parse_header. rewrite Hlen.
    replace (61 + length recs <? 61)%nat with false by (symmetry; apply Nat.ltb_ge; lia).
    set (X := a0 ++ a1 ++ a2 ++ a3 ++ a4 ++ a5 ++ a6 ++ a7 ++ a8 ++ a9 ++ a10 ++ a11 ++ a12 ++ recs).
    assert (S0: slice 0 8 X = a0) by (unfold X; slice_solve).
    assert (S1: slice 8 4 X = a1) by (unfold X; slice_solve).
    assert (S2: slice 12 4 X = a2) by (unfold X; slice_solve).
    assert (S3: slice 16 1 X = a3) by (unfold X; slice_solve).
    assert (S4: slice 17 4 X = a4) by (unfold X; slice_solve).
    assert (S5: slice 21 2 X = a5) by (unfold X; slice_solve).
    assert (S6: slice 23 4 X = a6) by (unfold X; slice_solve).
    assert (S7: slice 27 8 X = a7) by (unfold X; slice_solve).
    assert (S8: slice 35 8 X = a8) by (unfold X; slice_solve).
    assert (S9: slice 43 8 X = a9) by (unfold X; slice_solve).
    assert (S10: slice 51 2 X = a10) by (unfold X; slice_solve).
    assert (S11: slice 53 4 X = a11) by (unfold X; slice_solve).
    assert (S12: slice 57 4 X = a12) by (unfold X; slice_solve).
    rewrite S0, S1, S2, S3, S4, S5, S6, S7, S8, S9, S10, S11, S12. reflexivity.
Qed.

(* ------------------------------------------------------------------------------------------ *)
(* shape of the two halves of the header *)
Lemma write_pre_inv bo bl ple magic crc pre : write_pre bo bl ple magic crc = Ok pre ->
  exists b0 b1 b2 b3 b4,
    write_int 8 true bo = Ok b0 /\ write_int 4 true bl = Ok b1 /\ write_int 4 true ple = Ok b2 /\
    write_int 1 true magic = Ok b3 /\ write_int 4 false crc = Ok b4 /\
    pre = b0 ++ b1 ++ b2 ++ b3 ++ b4.
Proof.
  unfold write_pre. intros H.
  apply cat_cons_inv in H. destruct H as (b0 & t0 & H0 & H & ->).
  apply cat_cons_inv in H. destruct H as (b1 & t1 & H1 & H & ->).
  apply cat_cons_inv in H. destruct H as (b2 & t2 & H2 & H & ->).
  apply cat_cons_inv in H. destruct H as (b3 & t3 & H3 & H & ->).
  apply cat_cons_inv in H. destruct H as (b4 & t4 & H4 & H & ->).
  apply cat_nil_inv in H. subst t4. rewrite app_nil_r.
  exists b0, b1, b2, b3, b4. repeat split; assumption.
Qed.

Lemma write_post_inv at_ lod bts mts pid pe bseq boff rs post :
  write_post at_ lod bts mts pid pe bseq boff rs = Ok post ->
  exists c0 c1 c2 c3 c4 c5 c6 c7 recs,
    write_int 2 true at_ = Ok c0 /\ write_int 4 true lod = Ok c1 /\ write_int 8 true bts = Ok c2 /\
    write_int 8 true mts = Ok c3 /\ write_int 8 true pid = Ok c4 /\ write_int 2 true pe = Ok c5 /\
    write_int 4 true bseq = Ok c6 /\ write_int 4 true (zlen rs) = Ok c7 /\
    cat (map (fun r => write_record r bts boff) rs) = Ok recs /\
    post = c0 ++ c1 ++ c2 ++ c3 ++ c4 ++ c5 ++ c6 ++ c7 ++ recs.
Proof.
  unfold write_post. intros H.
  apply cat_cons_inv in H. destruct H as (c0 & t0 & H0 & H & ->).
  apply cat_cons_inv in H. destruct H as (c1 & t1 & H1 & H & ->).
  apply cat_cons_inv in H. destruct H as (c2 & t2 & H2 & H & ->).
  apply cat_cons_inv in H. destruct H as (c3 & t3 & H3 & H & ->).
  apply cat_cons_inv in H. destruct H as (c4 & t4 & H4 & H & ->).
  apply cat_cons_inv in H. destruct H as (c5 & t5 & H5 & H & ->).
  apply cat_cons_inv in H. destruct H as (c6 & t6 & H6 & H & ->).
  apply cat_cons_inv in H. destruct H as (c7 & t7 & H7 & H & ->).
  apply cat_cons_inv in H. destruct H as (recs & t8 & H8 & H & ->).
  apply cat_nil_inv in H. subst t8. rewrite app_nil_r.
  destruct (in_int_range 4 true (zlen rs)); [|discriminate].
  exists c0, c1, c2, c3, c4, c5, c6, c7, recs. repeat split; assumption.
Qed.

Lemma range_s4 z : in_int_range 4 true z = true <-> - 2 ^ 31 <= z <= 2 ^ 31 - 1.
Proof.
  rewrite in_int_range_spec. cbv [int_lo int_hi].
  change (8 * Z.of_nat 4 - 1) with 31. reflexivity.
Qed.
Lemma range_s8 z : in_int_range 8 true z = true <-> - 2 ^ 63 <= z <= 2 ^ 63 - 1.
Proof.
  rewrite in_int_range_spec. cbv [int_lo int_hi].
  change (8 * Z.of_nat 8 - 1) with 63. reflexivity.
Qed.

(* everything the later theorems need to know about a successfully written new batch *)
Lemma write_new_batch_shape nb bs first rest :
  n_records nb = first :: rest -> write_new_batch nb = Ok bs ->
  exists f recs, hdr_lens f /\ bs = hdr_cat f recs /\
    cat (map (fun r => write_record r (millis_of (r_timestamp first)) (r_offset first))
             (n_records nb)) = Ok recs /\
    zlen bs <= 2 ^ 31 + 11 /\
    sint 8 (f0 f) = r_offset first /\ sint 4 (f1 f) = zlen bs - 12 /\
    sint 4 (f2 f) = n_partition_leader_epoch nb /\ sint 1 (f3 f) = 2 /\
    be_val (f4 f) = crc32c (skipn 21 bs) /\ sint 2 (f5 f) = n_attributes nb /\
    sint 4 (f6 f) = r_offset (last (n_records nb) first) - r_offset first /\
    sint 8 (f7 f) = millis_of (r_timestamp first) /\
    sint 8 (f8 f) = millis_of (max_timestamp_us (n_records nb)) /\
    sint 8 (f9 f) = n_producer_id nb /\ sint 2 (f10 f) = n_producer_epoch nb /\
    sint 4 (f11 f) = n_base_sequence nb /\ sint 4 (f12 f) = zlen (n_records nb).
Proof.
  intros Hrs H. unfold write_new_batch in H. rewrite Hrs in H. rewrite <- Hrs in H.
  apply rbind_inv in H. destruct H as (lod & Hlod & H). apply phantom_inv in Hlod. destruct Hlod as [_ ->].
  apply rbind_inv in H. destruct H as (bts & Hbts & H). apply phantom_inv in Hbts. destruct Hbts as [_ ->].
  apply rbind_inv in H. destruct H as (mts & Hmts & H). apply phantom_inv in Hmts. destruct Hmts as [_ ->].
  apply rbind_inv in H. destruct H as (post & Hpost & H).
  apply rbind_inv in H. destruct H as (blen & Hblen & H). apply phantom_inv in Hblen. destruct Hblen as [Hbr ->].
  apply rbind_inv in H. destruct H as (crc & Hcrc & H). apply phantom_inv in Hcrc. destruct Hcrc as [_ ->].
  apply cat2_inv in H. destruct H as (pre & post' & Hpre & Hp & ->).
  assert (post' = post) as -> by congruence. clear Hp.
  apply write_pre_inv in Hpre. destruct Hpre as (b0 & b1 & b2 & b3 & b4 & W0 & W1 & W2 & W3 & W4 & ->).
  apply write_post_inv in Hpost.
  destruct Hpost as (c0 & c1 & c2 & c3 & c4 & c5 & c6 & c7 & recs & V0 & V1 & V2 & V3 & V4 & V5 & V6 & V7 & Hrecs & Hpost).
  apply write_int_sint in W0, W1, W2, W3, V0, V1, V2, V3, V4, V5, V6, V7; try lia.
  apply write_int_uval in W4.
  destruct W0 as [W0 L0], W1 as [W1 L1], W2 as [W2 L2], W3 as [W3 L3], W4 as [W4 L4].
  destruct V0 as [V0 M0], V1 as [V1 M1], V2 as [V2 M2], V3 as [V3 M3], V4 as [V4 M4],
           V5 as [V5 M5], V6 as [V6 M6], V7 as [V7 M7].
  set (f := {| f0 := b0; f1 := b1; f2 := b2; f3 := b3; f4 := b4; f5 := c0; f6 := c1; f7 := c2;
               f8 := c3; f9 := c4; f10 := c5; f11 := c6; f12 := c7 |}).
  assert (HL: hdr_lens f) by (unfold hdr_lens, f; cbn; repeat split; assumption).
  assert (Hbs: (b0 ++ b1 ++ b2 ++ b3 ++ b4) ++ post = hdr_cat f recs).
  { rewrite Hpost. unfold hdr_cat, f. cbn [f0 f1 f2 f3 f4 f5 f6 f7 f8 f9 f10 f11 f12].
    rewrite <- !app_assoc. reflexivity. }
  destruct (hdr_cat_parse f recs HL) as (Hlen & Hsk21 & _ & _).
  assert (Hsk: skipn 21 ((b0 ++ b1 ++ b2 ++ b3 ++ b4) ++ post) = post).
  { apply skipn_app_exact. rewrite !app_length. lia. }
  assert (Hz: zlen ((b0 ++ b1 ++ b2 ++ b3 ++ b4) ++ post) = zlen post + 21).
  { unfold zlen. rewrite !app_length. lia. }
  exists f, recs. split; [exact HL|]. split; [exact Hbs|]. split; [exact Hrecs|].
  rewrite Hsk, Hz. apply range_s4 in Hbr.
  unfold f; cbn [f0 f1 f2 f3 f4 f5 f6 f7 f8 f9 f10 f11 f12].
  repeat split; try assumption; try lia.
Qed.

(* 2. the header of a new batch, as the independent parser sees it *)
Theorem write_new_batch_header : forall nb bs first,
  hd_error (n_records nb) = Some first ->
  write_new_batch nb = Ok bs ->
  exists h, spec_parse_header bs = Some h /\
    sh_base_offset h = r_offset first /\
    sh_batch_length h = zlen bs - 12 /\
    sh_ple h = n_partition_leader_epoch nb /\
    sh_magic h = 2 /\
    sh_crc h = crc32c (skipn 21 bs) /\
    sh_attributes h = n_attributes nb /\
    sh_lod h = r_offset (last (n_records nb) first) - r_offset first /\
    sh_base_ts h = millis_of (r_timestamp first) /\
    sh_max_ts h = millis_of (max_timestamp_us (n_records nb)) /\
    sh_pid h = n_producer_id nb /\ sh_pepoch h = n_producer_epoch nb /\
    sh_bseq h = n_base_sequence nb /\ sh_count h = zlen (n_records nb) /\
    spec_batch_ok bs = true.
Proof.
  intros nb bs first Hhd H.
  destruct (n_records nb) as [|r rest] eqn:Hrs; [discriminate|].
  cbn [hd_error] in Hhd. assert (r = first) as -> by congruence. clear Hhd. rewrite <- Hrs.
  destruct (write_new_batch_shape nb bs first rest Hrs H)
    as (f & recs & HL & Hbs & _ & _ & E0 & E1 & E2 & E3 & E4 & E5 & E6 & E7 & E8 & E9 & E10 & E11 & E12).
  destruct (hdr_cat_parse f recs HL) as (_ & _ & _ & Hp). rewrite <- Hbs in Hp.
  eexists. split; [exact Hp|].
  cbn [sh_base_offset sh_batch_length sh_ple sh_magic sh_crc sh_attributes sh_lod sh_base_ts
       sh_max_ts sh_pid sh_pepoch sh_bseq sh_count].
  repeat (split; [assumption|]).
  unfold spec_batch_ok. rewrite Hp.
  cbn [sh_batch_length sh_magic sh_crc]. rewrite E1, E3, E4, !Z.eqb_refl. reflexivity.
Qed.
Print Assumptions write_new_batch_header.

(* ------------------------------------------------------------------------------------------ *)
(* the reader, in equational form *)
Lemma skipn_skipn {A} (x y : nat) (l : list A) : skipn x (skipn y l) = skipn (y + x) l.
Proof.
  revert l. induction y as [|y IH]; intros l; [reflexivity|].
  destruct l as [|a l]; [cbn [skipn Nat.add]; apply skipn_nil|]. cbn [skipn Nat.add]. apply IH.
Qed.

Lemma slice_skipn (l : list Z) off len k : slice off len (skipn k l) = slice (k + off) len l.
Proof. unfold slice. rewrite skipn_skipn. reflexivity. Qed.

Lemma slice_firstn (l : list Z) off len m : (off + len <= m)%nat ->
  slice off len (firstn m l) = slice off len l.
Proof.
  intros H. unfold slice. rewrite skipn_firstn_comm, firstn_firstn. f_equal. lia.
Qed.

Lemma run_read_int w s bs : run (read_int w s) bs =
  if (length bs <? w)%nat then Err EUnderflow
  else Ok ((if s then sint w (slice 0 w bs) else be_val (slice 0 w bs)), skipn w bs).
Proof.
  unfold read_int. cbn [run]. unfold slice, sint. cbn [skipn]. rewrite Nat2Z.id.
  destruct (Nat.ltb_spec (length bs) w) as [H|H].
  - replace ((Z.of_nat w <? 0) || (Z.of_nat (length bs) <? Z.of_nat w)) with true; [reflexivity|].
    symmetry. apply orb_true_iff. right. apply Z.ltb_lt. lia.
  - replace ((Z.of_nat w <? 0) || (Z.of_nat (length bs) <? Z.of_nat w)) with false; [reflexivity|].
    symmetry. apply orb_false_iff. split; apply Z.ltb_ge; lia.
Qed.

Lemma py_read_prefix n (l : list Z) :
  exists m, fst (py_read n l) = firstn m l /\ snd (py_read n l) = skipn m l.
Proof.
  unfold py_read. destruct (n <? 0).
  - exists (length l). cbn [fst snd]. rewrite firstn_all, skipn_all. split; reflexivity.
  - exists (Z.to_nat n). split; reflexivity.
Qed.

(* one step of a chain of fixed-width reads: either the input is too short (underflow, which
   closes the goal or contradicts the length hypothesis) or the read succeeds *)
Ltac rd :=
  rewrite run_bind, run_read_int, ?skipn_skipn, ?skipn_length;
  match goal with
  | |- context [if (?a <? ?b)%nat then Err EUnderflow else _] =>
      destruct (Nat.ltb_spec a b) as [?|?];
      [ try reflexivity; try (exfalso; lia) | try (exfalso; lia); cbv beta iota ]
  end.

Lemma run_outer bs :
  run (bo <- read_int 8 true ;; bl <- read_int 4 true ;; Ret (bo, bl)) bs =
  if (length bs <? 12)%nat then Err EUnderflow
  else Ok ((sint 8 (slice 0 8 bs), sint 4 (slice 8 4 bs)), skipn 12 bs).
Proof.
  destruct (Nat.ltb_spec (length bs) 12) as [H|H].
  - rd. rd.
  - rd. rd. reflexivity.
Qed.

Definition inner_hdr (bo bl : Z) (body : list Z) : batch :=
  {| b_base_offset := bo; b_batch_length := bl;
     b_partition_leader_epoch := sint 4 (slice 0 4 body); b_crc := be_val (slice 5 4 body);
     b_attributes := 0; b_last_offset_delta := 0; b_base_timestamp := 0; b_max_timestamp := 0;
     b_producer_id := 0; b_producer_epoch := 0; b_base_sequence := 0; b_records := [] |}.

Lemma run_inner f bo bl body :
  run (read_batch_inner f bo bl) body =
  if (length body <? 5)%nat then Err EUnderflow
  else if negb (sint 1 (slice 4 1 body) =? 2) then Err EValue
  else if (length body <? 9)%nat then Err EUnderflow
  else Ok (inner_hdr bo bl body, skipn 9 body).
Proof.
  unfold read_batch_inner.
  destruct (Nat.ltb_spec (length body) 5) as [H|H].
  - rd. rd.
  - rd. rd. rewrite slice_skipn. cbn [Nat.add].
    destruct (negb (sint 1 (slice 4 1 body) =? 2)); [reflexivity|].
    destruct (Nat.ltb_spec (length body) 9) as [H2|H2].
    + rd.
    + rd. rewrite slice_skipn. reflexivity.
Qed.

Definition rest_batch (h : batch) (after : list Z) (rs : list record) : batch :=
  {| b_base_offset := b_base_offset h; b_batch_length := b_batch_length h;
     b_partition_leader_epoch := b_partition_leader_epoch h; b_crc := b_crc h;
     b_attributes := sint 2 (slice 0 2 after); b_last_offset_delta := sint 4 (slice 2 4 after);
     b_base_timestamp := sint 8 (slice 6 8 after); b_max_timestamp := sint 8 (slice 14 8 after);
     b_producer_id := sint 8 (slice 22 8 after); b_producer_epoch := sint 2 (slice 30 2 after);
     b_base_sequence := sint 4 (slice 32 4 after); b_records := rs |}.

Lemma run_rest f h after :
  run (read_batch_rest f h) after =
  if (length after <? 40)%nat then Err EUnderflow
  else match run (repeat_prog f (sint 4 (slice 36 4 after))
                    (read_one_record f (sint 8 (slice 6 8 after)) (b_base_offset h)
                                     (sint 8 (slice 14 8 after)))) (skipn 40 after) with
       | Err e => Err e
       | Ok (rs, r) => Ok (rest_batch h after rs, r)
       end.
Proof.
  unfold read_batch_rest.
  destruct (Nat.ltb_spec (length after) 40) as [H|H].
  - rd. rd. rd. rd. rd. rd. rd. rd.
  - rd. rd. rd. rd. rd. rd. rd. rd.
    rewrite !slice_skipn. cbn [Nat.add]. rewrite run_bind.
    destruct (run _ _) as [[rs r]|e]; reflexivity.
Qed.

Definition bl_of (bs : list Z) : Z := sint 4 (slice 8 4 bs).
Definition body_of (bs : list Z) : list Z := fst (py_read (bl_of bs) (skipn 12 bs)).
Definition outer_of (bs : list Z) : list Z := snd (py_read (bl_of bs) (skipn 12 bs)).
Definition covered_of (bs : list Z) : list Z := fst (py_read (bl_of bs - 9) (skipn 9 (body_of bs))).
Definition hdr_of (bs : list Z) : batch := inner_hdr (sint 8 (slice 0 8 bs)) (bl_of bs) (body_of bs).

Definition read_batch_staged (bs : list Z) : res (batch * list Z) :=
  if (length bs <? 12)%nat then Err EUnderflow
  else if (length (body_of bs) <? 5)%nat then Err EUnderflow
  else if negb (sint 1 (slice 4 1 (body_of bs)) =? 2) then Err EValue
  else if (length (body_of bs) <? 9)%nat then Err EUnderflow
  else if negb (b_crc (hdr_of bs) =? crc32c (covered_of bs)) then Err EValue
  else match run (read_batch_rest (S (length bs)) (hdr_of bs)) (skipn 9 (body_of bs)) with
       | Err e => Err e
       | Ok (b, _) => Ok (b, outer_of bs)
       end.

Lemma read_batch_staged_eq bs : read_batch bs = read_batch_staged bs.
Proof.
  unfold read_batch, read_batch_staged. rewrite run_outer.
  destruct (length bs <? 12)%nat; [reflexivity|].
  unfold hdr_of, covered_of, outer_of, body_of. fold (bl_of bs).
  destruct (py_read (bl_of bs) (skipn 12 bs)) as [body outer]. cbn [fst snd].
  rewrite run_inner.
  destruct (length body <? 5)%nat; [reflexivity|].
  destruct (negb (sint 1 (slice 4 1 body) =? 2)); [reflexivity|].
  destruct (length body <? 9)%nat; [reflexivity|].
  destruct (py_read (bl_of bs - 9) (skipn 9 body)) as [covered x]. cbn [fst snd].
  reflexivity.
Qed.

(* body-relative positions are positions in the whole input *)
Lemma body_slice bs off len : (off + len <= length (body_of bs))%nat ->
  slice off len (body_of bs) = slice (12 + off) len bs.
Proof.
  unfold body_of. destruct (py_read_prefix (bl_of bs) (skipn 12 bs)) as (m & Hm & _).
  rewrite Hm. intros H. rewrite firstn_length in H.
  rewrite slice_firstn by lia. apply slice_skipn.
Qed.

Lemma body_length bs : (length (body_of bs) <= length bs - 12)%nat.
Proof.
  unfold body_of. destruct (py_read_prefix (bl_of bs) (skipn 12 bs)) as (m & Hm & _).
  rewrite Hm, firstn_length, skipn_length. lia.
Qed.

Definition hdr21 (bs : list Z) : batch :=
  {| b_base_offset := sint 8 (slice 0 8 bs); b_batch_length := sint 4 (slice 8 4 bs);
     b_partition_leader_epoch := sint 4 (slice 12 4 bs); b_crc := be_val (slice 17 4 bs);
     b_attributes := 0; b_last_offset_delta := 0; b_base_timestamp := 0; b_max_timestamp := 0;
     b_producer_id := 0; b_producer_epoch := 0; b_base_sequence := 0; b_records := [] |}.

Lemma hdr_of_hdr21 bs : (9 <= length (body_of bs))%nat -> hdr_of bs = hdr21 bs.
Proof.
  intros H. unfold hdr_of, inner_hdr, hdr21, bl_of. rewrite !body_slice by lia. reflexivity.
Qed.

(* what a successful read_batch tells us *)
Lemma read_batch_inv bs b rest : read_batch bs = Ok (b, rest) ->
  (49 <= length (body_of bs))%nat /\ (61 <= length bs)%nat /\
  sint 1 (slice 16 1 bs) = 2 /\
  be_val (slice 17 4 bs) = crc32c (covered_of bs) /\
  rest = outer_of bs /\
  exists rs r,
    run (repeat_prog (S (length bs)) (sint 4 (slice 57 4 bs))
           (read_one_record (S (length bs)) (sint 8 (slice 27 8 bs)) (sint 8 (slice 0 8 bs))
                            (sint 8 (slice 35 8 bs)))) (skipn 40 (skipn 9 (body_of bs))) = Ok (rs, r) /\
    run (read_batch_rest (S (length bs)) (hdr21 bs)) (skipn 9 (body_of bs)) = Ok (b, r) /\
    b = {| b_base_offset := sint 8 (slice 0 8 bs); b_batch_length := sint 4 (slice 8 4 bs);
           b_partition_leader_epoch := sint 4 (slice 12 4 bs); b_crc := be_val (slice 17 4 bs);
           b_attributes := sint 2 (slice 21 2 bs); b_last_offset_delta := sint 4 (slice 23 4 bs);
           b_base_timestamp := sint 8 (slice 27 8 bs); b_max_timestamp := sint 8 (slice 35 8 bs);
           b_producer_id := sint 8 (slice 43 8 bs); b_producer_epoch := sint 2 (slice 51 2 bs);
           b_base_sequence := sint 4 (slice 53 4 bs); b_records := rs |}.
Proof.
  rewrite read_batch_staged_eq. unfold read_batch_staged. intros H.
  destruct (Nat.ltb_spec (length bs) 12) as [L0|L0]; [discriminate|].
  destruct (Nat.ltb_spec (length (body_of bs)) 5) as [L1|L1]; [discriminate|].
  destruct (negb (sint 1 (slice 4 1 (body_of bs)) =? 2)) eqn:Emagic; [discriminate|].
  destruct (Nat.ltb_spec (length (body_of bs)) 9) as [L2|L2]; [discriminate|].
  destruct (negb (b_crc (hdr_of bs) =? crc32c (covered_of bs))) eqn:Ecrc; [discriminate|].
  destruct (run (read_batch_rest (S (length bs)) (hdr_of bs)) (skipn 9 (body_of bs)))
    as [[b' r]|e] eqn:Erest; [|discriminate].
  assert (b' = b) as -> by congruence. assert (rest = outer_of bs) as -> by congruence. clear H.
  rewrite hdr_of_hdr21 in * by exact L2.
  pose proof Erest as Erest'. rewrite run_rest in Erest.
  destruct (Nat.ltb_spec (length (skipn 9 (body_of bs))) 40) as [L3|L3]; [discriminate|].
  rewrite skipn_length in L3. pose proof (body_length bs) as L4.
  apply negb_false_iff, Z.eqb_eq in Emagic. apply negb_false_iff, Z.eqb_eq in Ecrc.
  rewrite body_slice in Emagic by lia. cbn [hdr21 b_crc b_base_offset] in Ecrc, Erest.
  rewrite !slice_skipn, !body_slice in Erest by lia. cbn [Nat.add] in Erest.
  destruct (run (repeat_prog _ _ _) _) as [[rs r']|e] eqn:Erep; [|discriminate].
  assert (r' = r) as -> by congruence.
  split; [lia|]. split; [lia|]. split; [exact Emagic|]. split; [exact Ecrc|]. split; [reflexivity|].
  exists rs, r. split; [reflexivity|]. split; [exact Erest'|].
  assert (Hb: rest_batch (hdr21 bs) (skipn 9 (body_of bs)) rs = b) by congruence.
  rewrite <- Hb. unfold rest_batch, hdr21.
  cbn [b_base_offset b_batch_length b_partition_leader_epoch b_crc].
  rewrite !slice_skipn, !body_slice by lia. reflexivity.
Qed.

(* 4. reader facts *)
Theorem read_batch_bad_magic : forall bs b rest,
  read_batch bs = Ok (b, rest) -> sint 1 (slice 16 1 bs) = 2.
Proof. intros bs b rest H. apply read_batch_inv in H. tauto. Qed.
Print Assumptions read_batch_bad_magic.

Theorem read_batch_crc_checked : forall bs b rest, read_batch bs = Ok (b, rest) ->
  b_batch_length b >= 9 ->
  b_crc b = crc32c (slice 21 (Z.to_nat (b_batch_length b - 9)) bs).
Proof.
  intros bs b rest H Hbl. apply read_batch_inv in H.
  destruct H as (_ & _ & _ & Hcrc & _ & rs & r & _ & _ & ->).
  cbn [b_batch_length b_crc] in *. rewrite Hcrc. f_equal.
  unfold covered_of, body_of, bl_of, py_read.
  set (bl := sint 4 (slice 8 4 bs)) in *.
  destruct (Z.ltb_spec (bl - 9) 0) as [|_]; [lia|].
  destruct (Z.ltb_spec bl 0) as [|_]; [lia|]. cbn [fst].
  change (firstn (Z.to_nat (bl - 9)) (skipn 9 (firstn (Z.to_nat bl) (skipn 12 bs))))
    with (slice 9 (Z.to_nat (bl - 9)) (firstn (Z.to_nat bl) (skipn 12 bs))).
  rewrite slice_firstn by lia. apply slice_skipn.
Qed.
Print Assumptions read_batch_crc_checked.

Lemma repeat_prog_length {A} (p : prog A) : forall f n bs l r,
  run (repeat_prog f n p) bs = Ok (l, r) -> zlen l = Z.max 0 n.
Proof.
  induction f as [|f IH]; intros n bs l r H; cbn [repeat_prog] in H.
  - destruct (Z.leb_spec n 0); [|discriminate]. cbn [run] in H.
    assert (l = []) as -> by congruence. unfold zlen. cbn. lia.
  - destruct (Z.leb_spec n 0).
    + cbn [run] in H. assert (l = []) as -> by congruence. unfold zlen. cbn. lia.
    + rewrite run_bind in H. destruct (run p bs) as [[x r1]|e]; [|discriminate].
      rewrite run_bind in H.
      destruct (run (repeat_prog f (n - 1) p) r1) as [[xs r2]|e] eqn:E; [|discriminate].
      cbn [run] in H. assert (l = x :: xs) as -> by congruence.
      apply IH in E. unfold zlen in *. cbn [length]. lia.
Qed.

Theorem read_batch_fields : forall bs b rest, read_batch bs = Ok (b, rest) ->
  exists h, spec_parse_header bs = Some h /\ b_base_offset b = sh_base_offset h /\ b_batch_length b = sh_batch_length h
    /\ b_partition_leader_epoch b = sh_ple h /\ b_crc b = sh_crc h /\ b_attributes b = sh_attributes h
    /\ b_last_offset_delta b = sh_lod h /\ b_base_timestamp b = sh_base_ts h /\ b_max_timestamp b = sh_max_ts h
    /\ b_producer_id b = sh_pid h /\ b_producer_epoch b = sh_pepoch h /\ b_base_sequence b = sh_bseq h
    /\ zlen (b_records b) = Z.max 0 (sh_count h).
Proof.
  intros bs b rest H. apply read_batch_inv in H.
  destruct H as (_ & L & _ & _ & _ & rs & r & Hrep & _ & ->).
  unfold spec_parse_header.
  replace (length bs <? 61)%nat with false by (symmetry; apply Nat.ltb_ge; lia).
  eexists. split; [reflexivity|].
  cbn [b_base_offset b_batch_length b_partition_leader_epoch b_crc b_attributes b_last_offset_delta
       b_base_timestamp b_max_timestamp b_producer_id b_producer_epoch b_base_sequence b_records
       sh_base_offset sh_batch_length sh_ple sh_magic sh_crc sh_attributes sh_lod sh_base_ts
       sh_max_ts sh_pid sh_pepoch sh_bseq sh_count].
  repeat (split; [reflexivity|]).
  eapply repeat_prog_length. exact Hrep.
Qed.
Print Assumptions read_batch_fields.

(* ------------------------------------------------------------------------------------------ *)
(* 3. the records of a new batch, through the independent decoder *)
Definition to_spec (base_ts base_off : Z) (r : record) : spec_record :=
  {| sr_attributes := r_attributes r; sr_ts_delta := millis_of (r_timestamp r) - base_ts;
     sr_offset_delta := r_offset r - base_off; sr_key := r_key r; sr_value := r_value r;
     sr_headers := r_headers r |}.
Definition blob_ok (o : option (list Z)) : bool :=
  match o with None => true | Some b => zlen b <? 2^31 end.
Definition record_ok (base_ts base_off : Z) (r : record) : bool :=
  in_int_range 1 true (r_attributes r)
  && in_int_range 8 true (millis_of (r_timestamp r) - base_ts)
  && in_int_range 4 true (r_offset r - base_off)
  && blob_ok (r_key r) && blob_ok (r_value r) && (zlen (r_headers r) <? 2^31)
  && forallb (fun h => blob_ok (h_key h) && blob_ok (h_value h)) (r_headers r).

Lemma cat_map_cons_inv {A} (enc : A -> res (list Z)) a l eb :
  cat (map enc (a :: l)) = Ok eb ->
  exists e eb', enc a = Ok e /\ cat (map enc l) = Ok eb' /\ eb = e ++ eb'.
Proof. cbn [map]. apply cat_cons_inv. Qed.

Lemma cat_map_length {A} (enc : A -> res (list Z)) :
  (forall a e, enc a = Ok e -> (1 <= length e)%nat) ->
  forall l eb, cat (map enc l) = Ok eb -> (length l <= length eb)%nat.
Proof.
  intros Hne. induction l as [|a l IH]; intros eb H; [cbn; lia|].
  apply cat_map_cons_inv in H. destruct H as (e & eb' & He & Hl & ->).
  apply Hne in He. apply IH in Hl. rewrite app_length. cbn [length]. lia.
Qed.

Lemma cat_map_In_length {A} (enc : A -> res (list Z)) : forall l eb a e,
  cat (map enc l) = Ok eb -> In a l -> enc a = Ok e -> (length e <= length eb)%nat.
Proof.
  induction l as [|x l IH]; intros eb a e H Hin He; [destruct Hin|].
  apply cat_map_cons_inv in H. destruct H as (e0 & eb' & He0 & Hl & ->).
  rewrite app_length. destruct Hin as [->|Hin].
  - assert (e0 = e) as -> by congruence. lia.
  - specialize (IH _ _ _ Hl Hin He). lia.
Qed.

(* decoding a concatenation of encodings, one item per iteration *)
Lemma repeat_prog_encodings {A B} (enc : A -> res (list Z)) (dec : prog B) (g : A -> B)
      (P : A -> Prop) :
  (forall a e tl, P a -> enc a = Ok e -> run dec (e ++ tl) = Ok (g a, tl)) ->
  forall l F eb tl, (forall a, In a l -> P a) -> cat (map enc l) = Ok eb -> (length l <= F)%nat ->
    run (repeat_prog F (zlen l) dec) (eb ++ tl) = Ok (map g l, tl).
Proof.
  intros Hdec. induction l as [|a l IH]; intros F eb tl HP H HF.
  - apply cat_nil_inv in H. subst eb. destruct F; reflexivity.
  - destruct F as [|F]; [cbn [length] in HF; lia|].
    apply cat_map_cons_inv in H. destruct H as (e & eb' & He & Hl & ->).
    cbn [repeat_prog].
    destruct (Z.leb_spec (zlen (a :: l)) 0) as [Hz|Hz]; [unfold zlen in Hz; cbn [length] in Hz; lia|].
    rewrite run_bind, <- app_assoc, (Hdec a e _ (HP a (or_introl eq_refl)) He).
    rewrite run_bind.
    replace (zlen (a :: l) - 1) with (zlen l) by (unfold zlen; cbn [length]; lia).
    rewrite (IH F eb' tl); [reflexivity| |exact Hl|cbn [length] in HF; lia].
    intros x Hx. apply HP. right. exact Hx.
Qed.

Lemma write_svarint_nonempty v e : write_svarint v = Ok e -> (1 <= length e)%nat.
Proof.
  unfold write_svarint, write_varint. destruct (zigzag32 v <? 0); [discriminate|].
  intros H. assert (e = uvarint_bytes (zigzag32 v)) as -> by (unfold uvarint_bytes; congruence).
  apply uvarint_bytes_nonempty.
Qed.

Lemma write_scbytes_nonempty v e : write_scbytes v = Ok e -> (1 <= length e)%nat.
Proof.
  unfold write_scbytes. destruct v as [b|].
  - intros H. apply cat2_inv in H. destruct H as (x & y & Hx & _ & ->).
    apply write_svarint_nonempty in Hx. rewrite app_length. lia.
  - apply write_svarint_nonempty.
Qed.

Lemma write_header_nonempty h e : write_header h = Ok e -> (1 <= length e)%nat.
Proof.
  unfold write_header. intros H. apply cat2_inv in H. destruct H as (x & y & Hx & _ & ->).
  apply write_scbytes_nonempty in Hx. rewrite app_length. lia.
Qed.

Lemma read_write_scbytes v e tl : blob_ok v = true -> write_scbytes v = Ok e ->
  run read_scbytes (e ++ tl) = Ok (v, tl).
Proof.
  unfold write_scbytes, read_scbytes, blob_ok. destruct v as [b|]; intros Hok H.
  - apply cat2_inv in H. destruct H as (x & y & Hx & Hy & ->). assert (y = b) as -> by congruence.
    apply Z.ltb_lt in Hok. assert (0 <= zlen b) by (unfold zlen; lia).
    rewrite run_bind, <- app_assoc, (read_write_svarint (zlen b) x) by (try assumption; lia).
    destruct (Z.eqb_spec (zlen b) (-1)); [lia|]. destruct (Z.ltb_spec (zlen b) 0); [lia|].
    rewrite run_read_app by reflexivity. reflexivity.
  - rewrite run_bind, (read_write_svarint (-1) e) by (try assumption; lia). reflexivity.
Qed.

Lemma read_write_header h e tl : blob_ok (h_key h) && blob_ok (h_value h) = true ->
  write_header h = Ok e -> run read_header (e ++ tl) = Ok (h, tl).
Proof.
  unfold write_header, read_header. intros Hok H. apply andb_true_iff in Hok. destruct Hok as [Hk Hv].
  apply cat2_inv in H. destruct H as (x & y & Hx & Hy & ->).
  rewrite run_bind, <- app_assoc, (read_write_scbytes _ x _ Hk Hx).
  rewrite run_bind, (read_write_scbytes _ y _ Hv Hy). destruct h; reflexivity.
Qed.

Lemma write_record_nonempty r bts boff e : write_record r bts boff = Ok e -> (1 <= length e)%nat.
Proof.
  unfold write_record. intros H. apply rbind_inv in H. destruct H as (body & _ & H).
  apply cat2_inv in H. destruct H as (x & y & Hx & _ & ->).
  apply write_svarint_nonempty in Hx. rewrite app_length. lia.
Qed.

Lemma read_write_record F bts boff r e tl :
  record_ok bts boff r = true -> write_record r bts boff = Ok e ->
  zlen e < 2 ^ 31 -> (length e <= F)%nat ->
  run (spec_record_prog F) (e ++ tl) = Ok (to_spec bts boff r, tl).
Proof.
  intros Hok H Hsz HF. unfold record_ok in Hok.
  apply andb_true_iff in Hok. destruct Hok as [Hok Hhs].
  apply andb_true_iff in Hok. destruct Hok as [Hok Hnh].
  apply andb_true_iff in Hok. destruct Hok as [Hok Hval].
  apply andb_true_iff in Hok. destruct Hok as [Hok Hkey].
  apply andb_true_iff in Hok. destruct Hok as [Hok Hod].
  apply andb_true_iff in Hok. destruct Hok as [_ Htd].
  apply range_s8 in Htd. apply range_s4 in Hod. apply Z.ltb_lt in Hnh.
  unfold write_record in H. apply rbind_inv in H. destruct H as (body & Hbody & H).
  apply cat2_inv in H. destruct H as (lenb & y & Hlen & Hy & ->). assert (y = body) as -> by congruence.
  clear Hy.
  apply cat_cons_inv in Hbody. destruct Hbody as (a0 & t0 & H0 & Hbody & ->).
  apply cat_cons_inv in Hbody. destruct Hbody as (a1 & t1 & H1 & Hbody & ->).
  apply cat_cons_inv in Hbody. destruct Hbody as (a2 & t2 & H2 & Hbody & ->).
  apply cat_cons_inv in Hbody. destruct Hbody as (a3 & t3 & H3 & Hbody & ->).
  apply cat_cons_inv in Hbody. destruct Hbody as (a4 & t4 & H4 & Hbody & ->).
  apply cat_cons_inv in Hbody. destruct Hbody as (a5 & t5 & H5 & Hbody & ->).
  apply cat_cons_inv in Hbody. destruct Hbody as (hb & t6 & H6 & Hbody & ->).
  apply cat_nil_inv in Hbody. subst t6.
  set (body := a0 ++ a1 ++ a2 ++ a3 ++ a4 ++ a5 ++ hb ++ []) in *.
  assert (Hbl: (length body <= length (lenb ++ body))%nat) by (rewrite app_length; lia).
  assert (Hhl: (length (r_headers r) <= length hb)%nat).
  { eapply cat_map_length; [|exact H6]. apply write_header_nonempty. }
  assert (Hhb: (length hb <= length body)%nat).
  { unfold body. rewrite !app_length. lia. }
  assert (Hrun: run (spec_record_body F) body = Ok (to_spec bts boff r, [])).
  { unfold spec_record_body, body.
    rewrite run_bind, (read_write_int 1 true (r_attributes r) a0) by (try assumption; lia). cbv beta iota.
    rewrite run_bind, (read_write_svarlong (millis_of (r_timestamp r) - bts) a1) by (try assumption; lia). cbv beta iota.
    rewrite run_bind, (read_write_svarint (r_offset r - boff) a2) by (try assumption; lia). cbv beta iota.
    rewrite run_bind, (read_write_scbytes (r_key r) a3) by assumption. cbv beta iota.
    rewrite run_bind, (read_write_scbytes (r_value r) a4) by assumption. cbv beta iota.
    assert (0 <= zlen (r_headers r)) by (unfold zlen; lia).
    rewrite run_bind, (read_write_svarint (zlen (r_headers r)) a5) by (try assumption; lia). cbv beta iota.
    rewrite run_bind.
    rewrite (repeat_prog_encodings write_header read_header (fun h => h)
               (fun h => blob_ok (h_key h) && blob_ok (h_value h) = true)).
    - rewrite map_id. reflexivity.
    - intros a e tl' Ha He. apply read_write_header; assumption.
    - intros a Ha. rewrite forallb_forall in Hhs. apply Hhs. exact Ha.
    - exact H6.
    - lia. }
  unfold spec_record_prog.
  assert (0 <= zlen body <= zlen (lenb ++ body)) by (unfold zlen; lia).
  rewrite run_bind, <- app_assoc, (read_write_svarint (zlen body) lenb) by (try assumption; lia).
  rewrite run_read_app by reflexivity. rewrite Hrun. reflexivity.
Qed.

Theorem write_new_batch_decodes : forall nb bs first,
  hd_error (n_records nb) = Some first ->
  forallb (record_ok (millis_of (r_timestamp first)) (r_offset first)) (n_records nb) = true ->
  write_new_batch nb = Ok bs ->
  exists h, spec_decode bs =
            Ok (h, map (to_spec (millis_of (r_timestamp first)) (r_offset first)) (n_records nb)).
Proof.
  intros nb bs first Hhd Hok H.
  destruct (write_new_batch_header nb bs first Hhd H) as (h & Hp & Hfields).
  assert (Hcount: sh_count h = zlen (n_records nb)) by tauto.
  assert (Hbok: spec_batch_ok bs = true) by tauto. clear Hfields.
  destruct (n_records nb) as [|r rest] eqn:Hrs; [discriminate|].
  cbn [hd_error] in Hhd. assert (r = first) as -> by congruence. clear Hhd. rewrite <- Hrs in *.
  destruct (write_new_batch_shape nb bs first rest Hrs H) as (f & recs & HL & Hbs & Hrecs & Hsz & _).
  destruct (hdr_cat_parse f recs HL) as (Hlen & _ & Hsk & _). rewrite <- Hbs in Hlen, Hsk.
  exists h. unfold spec_decode. rewrite Hp, Hbok, Hcount. cbn [negb].
  replace (skipn 61 bs) with (recs ++ []) by (rewrite app_nil_r; symmetry; exact Hsk).
  set (bts := millis_of (r_timestamp first)) in *. set (boff := r_offset first) in *.
  rewrite (repeat_prog_encodings (fun r => write_record r bts boff)
             (spec_record_prog (S (length bs))) (to_spec bts boff)
             (fun r => record_ok bts boff r = true /\
                       forall e, write_record r bts boff = Ok e -> (length e <= length recs)%nat)).
  - reflexivity.
  - intros a e tl [Ha Hle] He. specialize (Hle e He).
    apply read_write_record; try assumption; unfold zlen in *; lia.
  - intros a Ha. split.
    + rewrite forallb_forall in Hok. apply Hok. exact Ha.
    + intros e He. eapply cat_map_In_length; eassumption.
  - exact Hrecs.
  - pose proof (cat_map_length _ (fun a e => write_record_nonempty a bts boff e) _ _ Hrecs). lia.
Qed.
Print Assumptions write_new_batch_decodes.

(* ------------------------------------------------------------------------------------------ *)
(* 5. truncation.  The reader's loops are bounded by a fuel computed from the length of its
   input, so a truncated input is read with less fuel: success is monotone in the fuel. *)
Definition ok_le {A} (p p' : prog A) : Prop := forall x r, run p x = Ok r -> run p' x = Ok r.

Lemma ok_le_refl {A} (p : prog A) : ok_le p p.
Proof. intros x r H. exact H. Qed.

Lemma ok_le_bind {A B} (p p' : prog A) (f f' : A -> prog B) :
  ok_le p p' -> (forall a, ok_le (f a) (f' a)) -> ok_le (bind p f) (bind p' f').
Proof.
  intros Hp Hf x r H. rewrite run_bind in *.
  destruct (run p x) as [[a r1]|e] eqn:E; [|discriminate].
  rewrite (Hp _ _ E). apply Hf. exact H.
Qed.

Lemma ok_le_read {A} n (k k' : list Z -> prog A) :
  (forall b, ok_le (k b) (k' b)) -> ok_le (Read n k) (Read n k').
Proof.
  intros Hk x r H. cbn [run] in *.
  destruct ((n <? 0) || (Z.of_nat (length x) <? n)); [discriminate|]. apply Hk. exact H.
Qed.

Lemma ok_le_repeat {A} (p p' : prog A) : ok_le p p' ->
  forall f f' n, (f <= f')%nat -> ok_le (repeat_prog f n p) (repeat_prog f' n p').
Proof.
  intros Hp. induction f as [|f IH]; intros f' n Hle x r H; cbn [repeat_prog] in H.
  - destruct (n <=? 0) eqn:E; [|discriminate].
    destruct f'; cbn [repeat_prog]; rewrite E; exact H.
  - destruct f' as [|f']; [lia|]. cbn [repeat_prog]. destruct (n <=? 0); [exact H|].
    revert x r H. apply ok_le_bind; [exact Hp|]. intros a.
    apply ok_le_bind; [apply IH; lia|]. intros xs. apply ok_le_refl.
Qed.

Lemma read_record_body_mono f f' bt bo : (f <= f')%nat ->
  ok_le (read_record_body f bt bo) (read_record_body f' bt bo).
Proof.
  intros Hle. unfold read_record_body.
  repeat (apply ok_le_bind; [apply ok_le_refl|intros ?]).
  apply ok_le_bind; [apply ok_le_repeat; [apply ok_le_refl|exact Hle]|].
  intros hs. apply ok_le_refl.
Qed.

Lemma read_record_mono f f' bt bo : (f <= f')%nat ->
  ok_le (read_record f bt bo) (read_record f' bt bo).
Proof.
  intros Hle. unfold read_record.
  apply ok_le_bind; [apply ok_le_refl|]. intros len. apply ok_le_read. intros body x r H.
  destruct (run (read_record_body f bt bo) body) as [[rec [|z zs]]|e] eqn:E;
    cbn [run] in H; try discriminate.
  rewrite (read_record_body_mono f f' bt bo Hle _ _ E). exact H.
Qed.

Lemma read_one_record_mono f f' bt bo mt : (f <= f')%nat ->
  ok_le (read_one_record f bt bo mt) (read_one_record f' bt bo mt).
Proof.
  intros Hle. unfold read_one_record.
  apply ok_le_bind; [apply read_record_mono; exact Hle|]. intros r. apply ok_le_refl.
Qed.

Lemma read_batch_rest_mono f f' h : (f <= f')%nat ->
  ok_le (read_batch_rest f h) (read_batch_rest f' h).
Proof.
  intros Hle. unfold read_batch_rest.
  repeat (apply ok_le_bind; [apply ok_le_refl|intros ?]).
  apply ok_le_bind; [apply ok_le_repeat; [apply read_one_record_mono; exact Hle|exact Hle]|].
  intros rs. apply ok_le_refl.
Qed.

(* the declared length is the actual length of what follows the length field *)
Definition sh_batch_length_matches (bs : list Z) : Prop := sint 4 (slice 8 4 bs) = zlen bs - 12.
(* the part after the CRC (attributes .. last record) is consumed exactly, with the header fields
   (offset, length, epoch, crc) as read from the first 21 bytes *)
Definition records_fill_body (bs : list Z) : Prop :=
  exists b, run (read_batch_rest (S (length bs)) (hdr21 bs)) (skipn 21 bs) = Ok (b, []).

Lemma body_of_all (bs : list Z) : (12 <= length bs)%nat ->
  forall bs', sint 4 (slice 8 4 bs') = zlen bs - 12 -> (length bs' <= length bs)%nat ->
  body_of bs' = skipn 12 bs' /\ outer_of bs' = [].
Proof.
  intros H bs' Hbl Hle. unfold body_of, outer_of, bl_of, py_read. rewrite Hbl.
  destruct (Z.ltb_spec (zlen bs - 12) 0) as [Hn|_]; [unfold zlen in Hn; lia|]. cbn [fst snd].
  assert (Hl: (length (skipn 12 bs') <= Z.to_nat (zlen bs - 12))%nat).
  { rewrite skipn_length. unfold zlen. lia. }
  split; [apply firstn_all2; exact Hl|apply skipn_all2; exact Hl].
Qed.

Theorem read_batch_truncated : forall bs b, read_batch bs = Ok (b, []) ->
  sh_batch_length_matches bs ->
  records_fill_body bs ->
  forall k, (k < length bs)%nat -> exists e, read_batch (firstn k bs) = Err e.
Proof.
  intros bs b Hread Hlen [b0 Hfill] k Hk. unfold sh_batch_length_matches in Hlen.
  apply read_batch_inv in Hread. destruct Hread as (_ & L61 & _).
  rewrite read_batch_staged_eq. unfold read_batch_staged.
  assert (Lk: length (firstn k bs) = k) by (rewrite firstn_length; lia).
  set (bs' := firstn k bs) in *.
  destruct (Nat.ltb_spec (length bs') 12) as [L0|L0]; [eexists; reflexivity|].
  assert (Hbl': sint 4 (slice 8 4 bs') = zlen bs - 12).
  { unfold bs'. rewrite slice_firstn by lia. exact Hlen. }
  destruct (body_of_all bs ltac:(lia) bs' Hbl' ltac:(lia)) as [Hbody _]. rewrite Hbody.
  destruct (length (skipn 12 bs') <? 5)%nat; [eexists; reflexivity|].
  destruct (negb (sint 1 (slice 4 1 (skipn 12 bs')) =? 2)); [eexists; reflexivity|].
  destruct (Nat.ltb_spec (length (skipn 12 bs')) 9) as [L1|L1]; [eexists; reflexivity|].
  destruct (negb (b_crc (hdr_of bs') =? crc32c (covered_of bs'))); [eexists; reflexivity|].
  rewrite skipn_length in L1.
  rewrite hdr_of_hdr21 by (rewrite Hbody, skipn_length; lia).
  assert (Hh: hdr21 bs' = hdr21 bs).
  { unfold hdr21, bs'. rewrite !slice_firstn by lia. reflexivity. }
  rewrite Hh, skipn_skipn. cbn [Nat.add]. unfold bs' at 2. rewrite skipn_firstn_comm.
  destruct (run (read_batch_rest (S (length bs')) (hdr21 bs)) (firstn (k - 21) (skipn 21 bs)))
    as [[b' r]|e] eqn:E; [exfalso|eexists; reflexivity].
  apply (read_batch_rest_mono (S (length bs')) (S (length bs))) in E; [|lia].
  rewrite <- (app_nil_r (skipn 21 bs)) in Hfill at 1.
  rewrite (run_prefix_underflow _ _ _ _ Hfill) in E; [discriminate|].
  rewrite skipn_length. lia.
Qed.
Print Assumptions read_batch_truncated.

(* ------------------------------------------------------------------------------------------ *)
(* 6. single-bit damage after the magic byte is detected by the CRC comparison *)
From KioV Require Import Records.CrcProofs.

Lemma flip_bit_shape i (m : list Z) : (i / 8 < length m)%nat ->
  exists p b tl, length p = (i / 8)%nat /\ m = p ++ b :: tl /\
                 flip_bit i m = p ++ Z.lxor b (2 ^ Z.of_nat (i mod 8)) :: tl.
Proof.
  intros H. unfold flip_bit. destruct (skipn (i / 8) m) as [|b tl] eqn:E.
  - exfalso. assert (L: length (skipn (i / 8) m) = (length m - i / 8)%nat) by apply skipn_length.
    rewrite E in L. cbn [length] in L. lia.
  - exists (firstn (i / 8) m), b, tl. split; [rewrite firstn_length; lia|]. split; [|reflexivity].
    rewrite <- E. symmetry. apply firstn_skipn.
Qed.

Lemma flip_bit_length i (m : list Z) : (i / 8 < length m)%nat -> length (flip_bit i m) = length m.
Proof.
  intros H. destruct (flip_bit_shape i m H) as (p & b & tl & Hp & Hm & Hf).
  rewrite Hf, Hm, !app_length. reflexivity.
Qed.

Lemma flip_bit_firstn i (m : list Z) n : (i / 8 < length m)%nat -> (n <= i / 8)%nat ->
  firstn n (flip_bit i m) = firstn n m.
Proof.
  intros H Hn. destruct (flip_bit_shape i m H) as (p & b & tl & Hp & Hm & Hf).
  rewrite Hf, Hm, !firstn_app.
  replace (n - length p)%nat with 0%nat by lia. reflexivity.
Qed.

Lemma flip_bit_skipn_after i (m : list Z) n : (i / 8 < length m)%nat -> (i / 8 < n)%nat ->
  skipn n (flip_bit i m) = skipn n m.
Proof.
  intros H Hn. destruct (flip_bit_shape i m H) as (p & b & tl & Hp & Hm & Hf).
  rewrite Hf, Hm, !skipn_app.
  replace (n - length p)%nat with (S (n - i / 8 - 1)) by lia. reflexivity.
Qed.

Lemma flip_bit_skipn_before i (m : list Z) n : (8 * n <= i)%nat ->
  skipn n (flip_bit i m) = flip_bit (i - 8 * n) (skipn n m).
Proof.
  intros Hn.
  assert (Hd: ((i - 8 * n) / 8 = i / 8 - n)%nat).
  { symmetry. apply Nat.div_unique with (i mod 8)%nat; [apply Nat.mod_upper_bound; lia|].
    pose proof (Nat.div_mod i 8 ltac:(lia)).
    assert (n <= i / 8)%nat by (apply Nat.div_le_lower_bound; lia). lia. }
  assert (Hmod: ((i - 8 * n) mod 8 = i mod 8)%nat).
  { symmetry. apply Nat.mod_unique with (i / 8 - n)%nat; [apply Nat.mod_upper_bound; lia|].
    pose proof (Nat.div_mod i 8 ltac:(lia)).
    assert (n <= i / 8)%nat by (apply Nat.div_le_lower_bound; lia). lia. }
  assert (Hle: (n <= i / 8)%nat) by (apply Nat.div_le_lower_bound; lia).
  unfold flip_bit. rewrite Hd, Hmod, skipn_skipn.
  replace (n + (i / 8 - n))%nat with (i / 8)%nat by lia.
  rewrite skipn_app, skipn_firstn_comm, firstn_length.
  destruct (Nat.le_gt_cases (i / 8) (length m)) as [Hc|Hc].
  - replace (n - Nat.min (i / 8) (length m))%nat with 0%nat by lia. reflexivity.
  - rewrite (skipn_all2 m (n := i / 8)) by lia. rewrite skipn_nil, !app_nil_r. reflexivity.
Qed.

Lemma flip_bit_bytes_ok i (m : list Z) : (i / 8 < length m)%nat -> bytes_ok m = true ->
  bytes_ok (flip_bit i m) = true.
Proof.
  intros H Hok. destruct (flip_bit_shape i m H) as (p & b & tl & _ & Hm & Hf).
  rewrite Hf. rewrite Hm in Hok. rewrite bytes_ok_app in *.
  apply andb_true_iff in Hok. destruct Hok as [H1 H2]. rewrite H1.
  cbn [bytes_ok forallb andb] in *. apply andb_true_iff in H2. destruct H2 as [Hb Htl].
  fold (bytes_ok tl) in *. rewrite Htl, andb_true_r.
  apply byte_ok_range in Hb.
  assert (Hj: (i mod 8 < 8)%nat) by (apply Nat.mod_upper_bound; lia).
  assert (Hp: 0 <= 2 ^ Z.of_nat (i mod 8) < 2 ^ 8).
  { split; [apply Z.pow_nonneg; lia|apply Z.pow_lt_mono_r; lia]. }
  assert (Hx: 0 <= Z.lxor b (2 ^ Z.of_nat (i mod 8)) < 2 ^ 8) by (apply lxor_range; lia).
  unfold byte_ok. apply andb_true_iff. split; [apply Z.leb_le|apply Z.ltb_lt]; lia.
Qed.

Lemma flip_bit_neq i (m : list Z) : bytes_ok m = true -> (i < 8 * length m)%nat -> flip_bit i m <> m.
Proof.
  intros Hok Hi E. apply (crc32c_single_bit m i Hok Hi). rewrite E. reflexivity.
Qed.

Lemma be_val_inj (l1 l2 : list Z) : bytes_ok l1 = true -> bytes_ok l2 = true ->
  length l1 = length l2 -> be_val l1 = be_val l2 -> l1 = l2.
Proof.
  intros H1 H2 HL HV. rewrite <- (be_bytes_be_val l1 H1), <- (be_bytes_be_val l2 H2), HL, HV.
  reflexivity.
Qed.

Lemma split_17_4 (l : list Z) : l = firstn 17 l ++ slice 17 4 l ++ skipn 21 l.
Proof.
  unfold slice. rewrite <- (firstn_skipn 17 l) at 1. f_equal.
  rewrite <- (firstn_skipn 4 (skipn 17 l)) at 1. rewrite skipn_skipn. reflexivity.
Qed.

Lemma bytes_ok_slice off len (l : list Z) : bytes_ok l = true -> bytes_ok (slice off len l) = true.
Proof.
  intros H. unfold slice.
  rewrite <- (firstn_skipn off l), bytes_ok_app in H. apply andb_true_iff in H. destruct H as [_ H].
  rewrite <- (firstn_skipn len (skipn off l)), bytes_ok_app in H. apply andb_true_iff in H. tauto.
Qed.

Lemma covered_of_all (bs : list Z) : (21 <= length bs)%nat ->
  forall bs', sint 4 (slice 8 4 bs') = zlen bs - 12 -> (length bs' <= length bs)%nat ->
  covered_of bs' = skipn 21 bs'.
Proof.
  intros H bs' Hbl Hle. unfold covered_of.
  destruct (body_of_all bs ltac:(lia) bs' Hbl Hle) as [-> _].
  unfold bl_of, py_read. rewrite Hbl, skipn_skipn. cbn [Nat.add].
  destruct (Z.ltb_spec (zlen bs - 12 - 9) 0) as [Hn|_]; [unfold zlen in Hn; lia|]. cbn [fst].
  apply firstn_all2. rewrite skipn_length. unfold zlen. lia.
Qed.

Theorem read_batch_bit_flip : forall bs b, read_batch bs = Ok (b, []) ->
  bytes_ok bs = true -> sint 4 (slice 8 4 bs) = zlen bs - 12 ->
  forall i, (8 * 17 <= i < 8 * length bs)%nat -> exists e, read_batch (flip_bit i bs) = Err e.
Proof.
  intros bs b Hread Hok Hlen i [Hi1 Hi2].
  assert (K1: (17 <= i / 8)%nat) by (apply Nat.div_le_lower_bound; lia).
  assert (K2: (i / 8 < length bs)%nat) by (apply Nat.div_lt_upper_bound; lia).
  apply read_batch_inv in Hread. destruct Hread as (_ & L61 & _ & Hcrc & _).
  rewrite (covered_of_all bs ltac:(lia) bs Hlen ltac:(lia)) in Hcrc.
  pose proof (flip_bit_length i bs K2) as Lf.
  pose proof (flip_bit_bytes_ok i bs K2 Hok) as Hok'.
  assert (F17: firstn 17 (flip_bit i bs) = firstn 17 bs) by (apply flip_bit_firstn; lia).
  set (bs' := flip_bit i bs) in *.
  assert (Hbl': sint 4 (slice 8 4 bs') = zlen bs - 12).
  { rewrite <- Hlen. rewrite <- (slice_firstn bs' 8 4 17), <- (slice_firstn bs 8 4 17) by lia.
    rewrite F17. reflexivity. }
  (* the CRC comparison fails *)
  assert (Hne: be_val (slice 17 4 bs') <> crc32c (skipn 21 bs')).
  { destruct (Nat.lt_ge_cases (i / 8) 21) as [Hc|Hc].
    - unfold bs' at 2. rewrite flip_bit_skipn_after by lia. rewrite <- Hcrc. intros Heq.
      apply be_val_inj in Heq; try (apply bytes_ok_slice; assumption).
      2:{ unfold slice. rewrite !firstn_length, !skipn_length. lia. }
      apply (flip_bit_neq i bs Hok Hi2). fold bs'.
      rewrite (split_17_4 bs'), (split_17_4 bs), F17, Heq. unfold bs'.
      rewrite flip_bit_skipn_after by lia. reflexivity.
    - assert (F21: firstn 21 bs' = firstn 21 bs) by (apply flip_bit_firstn; lia).
      assert (H168: (8 * 21 <= i)%nat) by (pose proof (Nat.div_mod i 8 ltac:(lia)); lia).
      rewrite <- (slice_firstn bs' 17 4 21) by lia. rewrite F21, slice_firstn by lia.
      rewrite Hcrc. unfold bs'. rewrite flip_bit_skipn_before by lia.
      apply not_eq_sym. apply crc32c_single_bit.
      + unfold bytes_ok in *. rewrite forallb_forall in *. intros x Hx. apply Hok.
        rewrite <- (firstn_skipn 21 bs). apply in_or_app. right. exact Hx.
      + rewrite skipn_length. lia. }
  rewrite read_batch_staged_eq. unfold read_batch_staged.
  destruct (length bs' <? 12)%nat; [eexists; reflexivity|].
  destruct (length (body_of bs') <? 5)%nat; [eexists; reflexivity|].
  destruct (negb (sint 1 (slice 4 1 (body_of bs')) =? 2)); [eexists; reflexivity|].
  destruct (Nat.ltb_spec (length (body_of bs')) 9) as [L1|L1]; [eexists; reflexivity|].
  rewrite hdr_of_hdr21 by exact L1. cbn [hdr21 b_crc].
  rewrite (covered_of_all bs ltac:(lia) bs' Hbl' ltac:(lia)).
  apply Z.eqb_neq in Hne. rewrite Hne. cbn [negb]. eexists; reflexivity.
Qed.
Print Assumptions read_batch_bit_flip.
