(* Executable comparison for the record-batch correspondence.  Definitions only. *)
From Coq Require Import ZArith List Bool.
From KioV Require Import Base.Res Records.Crc Records.Batch.
Import ListNotations.
Open Scope Z_scope.

Definition opt_eqb (a b : option (list Z)) : bool :=
  match a, b with None, None => true | Some x, Some y => zlist_eqb x y | _, _ => false end.
Fixpoint list_eqb {A} (eqb : A -> A -> bool) (a b : list A) : bool :=
  match a, b with
  | [], [] => true
  | x :: a', y :: b' => eqb x y && list_eqb eqb a' b'
  | _, _ => false
  end.
Definition header_eqb (a b : header) : bool := opt_eqb (h_key a) (h_key b) && opt_eqb (h_value a) (h_value b).
Definition record_eqb (a b : record) : bool :=
  (r_attributes a =? r_attributes b) && (r_timestamp a =? r_timestamp b) && (r_offset a =? r_offset b)
  && opt_eqb (r_key a) (r_key b) && opt_eqb (r_value a) (r_value b)
  && list_eqb header_eqb (r_headers a) (r_headers b).
Definition batch_eqb (a b : batch) : bool :=
  (b_base_offset a =? b_base_offset b) && (b_batch_length a =? b_batch_length b)
  && (b_partition_leader_epoch a =? b_partition_leader_epoch b) && (b_crc a =? b_crc b)
  && (b_attributes a =? b_attributes b) && (b_last_offset_delta a =? b_last_offset_delta b)
  && (b_base_timestamp a =? b_base_timestamp b) && (b_max_timestamp a =? b_max_timestamp b)
  && (b_producer_id a =? b_producer_id b) && (b_producer_epoch a =? b_producer_epoch b)
  && (b_base_sequence a =? b_base_sequence b) && list_eqb record_eqb (b_records a) (b_records b).

(* error classes: any two errors agree at the class level used by C17/C18 observations except
   that underflow is kept apart (C18 only asks that damaged data fails) *)
Definition err_any (a b : err) : bool := true.

Definition res_eqb {A} (eqb : A -> A -> bool) (strict : bool) (a b : res A) : bool :=
  match a, b with
  | Ok x, Ok y => eqb x y
  | Err e, Err f => if strict then err_eqb (match e with EOverflow => EValue | _ => e end)
                                          (match f with EOverflow => EValue | _ => f end)
                    else true
  | _, _ => false
  end.

Record wcase := { w_nb : new_batch; w_out : res (list Z) }.
Definition check_wcase (k : wcase) : bool := res_eqb zlist_eqb true (write_new_batch (w_nb k)) (w_out k).

Record rcase := { rd_in : list Z; rd_out : res (batch * list Z) }.
Definition check_rcase (k : rcase) : bool :=
  res_eqb (fun a b => batch_eqb (fst a) (fst b) && zlist_eqb (snd a) (snd b)) false (read_batch (rd_in k)) (rd_out k).

Record pcase := { p_b : batch; p_out : res (list Z) }.
Definition check_pcase (k : pcase) : bool := res_eqb zlist_eqb true (write_prepared_batch (p_b k)) (p_out k).

Fixpoint failing_from {A} (chk : A -> bool) (i : nat) (l : list A) : list nat :=
  match l with
  | [] => []
  | x :: tl => if chk x then failing_from chk (S i) tl else i :: failing_from chk (S i) tl
  end.
Definition failing {A} (chk : A -> bool) (l : list A) : list nat := failing_from chk 0 l.
