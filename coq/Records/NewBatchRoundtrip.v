(* The model's own reader against the model's own NEW-batch writer (Records/Batch.v).
   write_new_batch derives the header of a batch from its records; batch_of_new is the prepared
   batch it implicitly builds, write_new_batch writes exactly what write_prepared_batch writes for
   it, and under new_batch_ok that batch satisfies prepared_core, so read_batch gives it back (up
   to the reader's known truncation of record timestamps to whole seconds, floor_seconds). *)
From Coq Require Import ZArith List Bool Lia ZifyBool.
From KioV Require Import Base.Res Base.Prog Base.ProgProofs
  Prim.Bytes Prim.Varint Prim.Time Prim.BytesProofs Prim.VarintProofs
  Records.Crc Records.CrcProofs Records.Batch Records.BatchProofs Records.BatchRoundtrip.
Import ListNotations.
Open Scope Z_scope.

(* ------------------------------------------------------------------------------------------ *)
(* 1. the prepared batch that write_new_batch builds *)

(* the derived header fields, as write_new_batch computes them *)
Definition new_lod (nb : new_batch) (first : record) : Z :=
  r_offset (last (n_records nb) first) - r_offset first.
Definition new_base_ts (first : record) : Z := millis_of (r_timestamp first).
Definition new_max_ts (nb : new_batch) : Z := millis_of (max_timestamp_us (n_records nb)).

(* the part after the checksum *)
Definition new_post (nb : new_batch) (first : record) : res (list Z) :=
  write_post (n_attributes nb) (new_lod nb first) (new_base_ts first) (new_max_ts nb)
             (n_producer_id nb) (n_producer_epoch nb) (n_base_sequence nb) (r_offset first)
             (n_records nb).

Definition batch_of_new (nb : new_batch) (first : record) : batch :=
  {| b_base_offset := r_offset first;
     b_batch_length := match new_post nb first with Ok post => zlen post + 9 | Err _ => 0 end;
     b_partition_leader_epoch := n_partition_leader_epoch nb;
     b_crc := match new_post nb first with Ok post => crc32c post | Err _ => 0 end;
     b_attributes := n_attributes nb;
     b_last_offset_delta := new_lod nb first;
     b_base_timestamp := new_base_ts first;
     b_max_timestamp := new_max_ts nb;
     b_producer_id := n_producer_id nb;
     b_producer_epoch := n_producer_epoch nb;
     b_base_sequence := n_base_sequence nb;
     b_records := n_records nb |}.

Lemma post_of_batch_of_new nb first : post_of (batch_of_new nb first) = new_post nb first.
Proof. reflexivity. Qed.

Lemma hd_error_cons {A} (l : list A) (a : A) : hd_error l = Some a -> exists rest, l = a :: rest.
Proof.
  destruct l as [|x rest]; intros H; [discriminate|].
  cbn [hd_error] in H. exists rest. congruence.
Qed.

(* write_new_batch on a non-empty list, without the match *)
Lemma write_new_batch_unfold nb first rest : n_records nb = first :: rest ->
  write_new_batch nb =
  rbind (phantom 4 true (new_lod nb first)) (fun lod =>
  rbind (phantom 8 true (new_base_ts first)) (fun base_ts =>
  rbind (phantom 8 true (new_max_ts nb)) (fun max_ts =>
  rbind (write_post (n_attributes nb) lod base_ts max_ts (n_producer_id nb)
                    (n_producer_epoch nb) (n_base_sequence nb) (r_offset first) (n_records nb))
        (fun post =>
  rbind (phantom 4 true (zlen post + 9)) (fun blen =>
  rbind (phantom 4 false (crc32c post)) (fun crc =>
  cat2 (write_pre (r_offset first) blen (n_partition_leader_epoch nb) 2 crc) (Ok post))))))).
Proof.
  intros Hrs. unfold write_new_batch, new_lod, new_base_ts, new_max_ts.
  destruct (n_records nb) as [|r l] eqn:E; [discriminate|].
  assert (r = first) as -> by congruence. reflexivity.
Qed.

(* everything a successful write_new_batch tells us *)
Lemma write_new_batch_inv nb bs first rest :
  n_records nb = first :: rest -> write_new_batch nb = Ok bs ->
  exists pre post,
    in_int_range 4 true (new_lod nb first) = true /\
    in_int_range 8 true (new_base_ts first) = true /\
    in_int_range 8 true (new_max_ts nb) = true /\
    new_post nb first = Ok post /\
    in_int_range 4 true (zlen post + 9) = true /\
    in_int_range 4 false (crc32c post) = true /\
    write_pre (r_offset first) (zlen post + 9) (n_partition_leader_epoch nb) 2 (crc32c post)
      = Ok pre /\
    bs = pre ++ post.
Proof.
  intros Hrs H. rewrite (write_new_batch_unfold nb first rest Hrs) in H.
  apply rbind_inv in H. destruct H as (lod & Hlod & H).
  apply phantom_inv in Hlod. destruct Hlod as [Rlod ->].
  apply rbind_inv in H. destruct H as (bts & Hbts & H).
  apply phantom_inv in Hbts. destruct Hbts as [Rbts ->].
  apply rbind_inv in H. destruct H as (mts & Hmts & H).
  apply phantom_inv in Hmts. destruct Hmts as [Rmts ->].
  apply rbind_inv in H. destruct H as (post & Hpost & H).
  apply rbind_inv in H. destruct H as (blen & Hblen & H).
  apply phantom_inv in Hblen. destruct Hblen as [Rblen ->].
  apply rbind_inv in H. destruct H as (crc & Hcrc & H).
  apply phantom_inv in Hcrc. destruct Hcrc as [Rcrc ->].
  apply cat2_inv in H. destruct H as (pre & post' & Hpre & Hp & ->).
  assert (post' = post) as -> by congruence. clear Hp.
  exists pre, post. repeat split; assumption.
Qed.

(* ------------------------------------------------------------------------------------------ *)
(* 2. write_new_batch writes what write_prepared_batch writes for batch_of_new *)
Theorem write_new_is_write_prepared : forall nb bs first,
  hd_error (n_records nb) = Some first -> write_new_batch nb = Ok bs ->
  write_prepared_batch (batch_of_new nb first) = Ok bs.
Proof.
  intros nb bs first Hhd H. apply hd_error_cons in Hhd. destruct Hhd as [rest Hrs].
  destruct (write_new_batch_inv nb bs first rest Hrs H)
    as (pre & post & _ & _ & _ & Hpost & _ & _ & Hpre & ->).
  unfold write_prepared_batch.
  cbn [batch_of_new b_base_offset b_batch_length b_partition_leader_epoch b_crc b_attributes
       b_last_offset_delta b_base_timestamp b_max_timestamp b_producer_id b_producer_epoch
       b_base_sequence b_records].
  fold (new_post nb first). rewrite Hpost, Hpre. reflexivity.
Qed.
Print Assumptions write_new_is_write_prepared.

(* ------------------------------------------------------------------------------------------ *)
(* 3. which new batches come back *)

(* a record of a new batch, relative to the base timestamp and base offset the writer derives:
   - record_ok (BatchProofs): attributes int8, millisecond delta int64, offset delta int32, key,
     value and header blobs shorter than 2^31, fewer than 2^31 headers;
   - the timestamp is not before the epoch and inside the datetime range;
   - the offset is an int64 (the reader recomputes it as base_offset + delta under i64(...)).
   The reader's comparison of the batch's max timestamp (milliseconds) with the record's whole
   seconds is NOT a hypothesis: it follows (secs_le_max_millis, new_record_own). *)
Definition new_record_ok (base_ts base_off : Z) (r : record) : bool :=
  record_ok base_ts base_off r
  && (0 <=? r_timestamp r) && (r_timestamp r <=? dt_max_us)
  && in_int_range 8 true (r_offset r).

Definition new_batch_ok (nb : new_batch) : bool :=
  match n_records nb with
  | [] => false
  | first :: _ =>
      (zlen (n_records nb) <? 2 ^ 31)
      && forallb (new_record_ok (millis_of (r_timestamp first)) (r_offset first)) (n_records nb)
  end.

(* the maximum the writer computes is an upper bound of every record's timestamp *)
Lemma fold_left_max_ge : forall (l : list Z) (a : Z),
  a <= fold_left Z.max l a /\ forall x, In x l -> x <= fold_left Z.max l a.
Proof.
  induction l as [|y l IH]; intros a.
  - cbn [fold_left]. split; [lia|]. intros x Hx. destruct Hx.
  - cbn [fold_left]. destruct (IH (Z.max a y)) as [H1 H2]. split; [lia|].
    intros x [Hx|Hx]; [subst x; lia|]. apply H2. exact Hx.
Qed.

Lemma max_timestamp_us_ge (rs : list record) (r : record) :
  In r rs -> r_timestamp r <= max_timestamp_us rs.
Proof.
  intros Hin. unfold max_timestamp_us.
  apply fold_left_max_ge. apply in_map. exact Hin.
Qed.

(* the maximum is the timestamp of one of the records *)
Lemma fold_left_max_in : forall (l : list Z) (a : Z),
  fold_left Z.max l a = a \/ In (fold_left Z.max l a) l.
Proof.
  induction l as [|y l IH]; intros a.
  - left. reflexivity.
  - cbn [fold_left]. destruct (IH (Z.max a y)) as [H|H].
    + rewrite H. destruct (Z.max_spec a y) as [[_ E]|[_ E]]; rewrite E.
      * right. left. reflexivity.
      * left. reflexivity.
    + right. right. exact H.
Qed.

Lemma max_timestamp_us_in (rs : list record) : rs <> [] ->
  exists r, In r rs /\ max_timestamp_us rs = r_timestamp r.
Proof.
  intros Hne. unfold max_timestamp_us. destruct rs as [|r0 rs]; [congruence|].
  destruct (fold_left_max_in (map r_timestamp (r0 :: rs)) (r_timestamp r0)) as [H|H].
  - exists r0. split; [left; reflexivity|exact H].
  - apply in_map_iff in H. destruct H as (r & Hr & Hin). exists r. split; [exact Hin|].
    symmetry. exact Hr.
Qed.

(* the reader's check, milliseconds of the maximum against whole seconds of the record: whole
   seconds never exceed whole milliseconds for an instant not before the epoch *)
Lemma secs_le_max_millis ts m : 0 <= ts -> ts <= m -> ts / 1000000 <= millis_of m.
Proof.
  intros H0 Hm. unfold millis_of.
  assert (H1: ts / 1000 <= m / 1000) by (apply Z.div_le_mono; lia).
  assert (H2: 0 <= ts / 1000) by (apply Z.div_pos; lia).
  replace 1000000 with (1000 * 1000) by reflexivity.
  rewrite <- Z.div_div by lia.
  pose proof (Z.div_mod (ts / 1000) 1000 ltac:(lia)) as Hd.
  pose proof (Z.mod_pos_bound (ts / 1000) 1000 ltac:(lia)) as Hb.
  lia.
Qed.

Lemma new_record_own bts boff (rs : list record) (r : record) :
  In r rs -> new_record_ok bts boff r = true ->
  own_record_ok bts boff (millis_of (max_timestamp_us rs)) r = true.
Proof.
  intros Hin Hok. unfold new_record_ok in Hok.
  apply andb_true_iff in Hok. destruct Hok as [Hok Hoff].
  apply andb_true_iff in Hok. destruct Hok as [Hok Hhi].
  apply andb_true_iff in Hok. destruct Hok as [Hrec Hlo].
  unfold own_record_ok. rewrite Hrec, Hlo, Hhi. cbn [andb].
  replace (boff + (r_offset r - boff)) with (r_offset r) by lia.
  rewrite Hoff. cbn [andb].
  apply max_ts_check_spec. apply Z.leb_le in Hlo.
  apply secs_le_max_millis; [exact Hlo|]. apply max_timestamp_us_ge. exact Hin.
Qed.

(* conversely, what the prepared-batch condition asks of a record is new_record_ok *)
Lemma own_record_new bts boff mts (r : record) :
  own_record_ok bts boff mts r = true -> new_record_ok bts boff r = true.
Proof.
  intros Hown. unfold own_record_ok in Hown.
  apply andb_true_iff in Hown. destruct Hown as [Hown _].
  apply andb_true_iff in Hown. destruct Hown as [Hown Hoff].
  apply andb_true_iff in Hown. destruct Hown as [Hown Hhi].
  apply andb_true_iff in Hown. destruct Hown as [Hrec Hlo].
  unfold new_record_ok. rewrite Hrec, Hlo, Hhi. cbn [andb].
  replace (boff + (r_offset r - boff)) with (r_offset r) in Hoff by lia. exact Hoff.
Qed.

Lemma new_batch_ok_inv nb first rest : n_records nb = first :: rest ->
  new_batch_ok nb = true ->
  zlen (n_records nb) < 2 ^ 31 /\
  forallb (new_record_ok (new_base_ts first) (r_offset first)) (n_records nb) = true.
Proof.
  intros Hrs Hok. unfold new_batch_ok in Hok.
  destruct (n_records nb) as [|r l] eqn:E; [discriminate|].
  assert (r = first) as -> by congruence.
  apply andb_true_iff in Hok. destruct Hok as [Hn Hall]. apply Z.ltb_lt in Hn.
  split; [exact Hn|exact Hall].
Qed.

Lemma new_batch_ok_records nb first rest : n_records nb = first :: rest ->
  new_batch_ok nb = true ->
  forallb (own_record_ok (new_base_ts first) (r_offset first) (new_max_ts nb)) (n_records nb)
  = true.
Proof.
  intros Hrs Hok. destruct (new_batch_ok_inv nb first rest Hrs Hok) as [_ Hall].
  rewrite forallb_forall in *. intros r Hr. unfold new_max_ts.
  apply new_record_own; [exact Hr|]. apply Hall. exact Hr.
Qed.

Theorem new_batch_prepared : forall nb bs first,
  hd_error (n_records nb) = Some first -> new_batch_ok nb = true ->
  write_new_batch nb = Ok bs -> prepared_core (batch_of_new nb first) = true.
Proof.
  intros nb bs first Hhd Hok H. apply hd_error_cons in Hhd. destruct Hhd as [rest Hrs].
  destruct (write_new_batch_inv nb bs first rest Hrs H)
    as (pre & post & Rlod & Rbts & Rmts & Hpost & Rblen & Rcrc & Hpre & _).
  destruct (new_batch_ok_inv nb first rest Hrs Hok) as [Hn _].
  pose proof (new_batch_ok_records nb first rest Hrs Hok) as Hall.
  apply write_pre_inv in Hpre.
  destruct Hpre as (b0 & b1 & b2 & b3 & b4 & W0 & _ & W2 & _ & _ & _).
  apply write_int_ok_range in W0, W2.
  pose proof Hpost as Hpost'. unfold new_post in Hpost'. apply write_post_inv in Hpost'.
  destruct Hpost' as (c0 & c1 & c2 & c3 & c4 & c5 & c6 & c7 & recs &
                      V0 & _ & _ & _ & V4 & V5 & V6 & _ & _ & _).
  apply write_int_ok_range in V0, V4, V5, V6.
  unfold prepared_core.
  assert (Hf: fields_ok (batch_of_new nb first) = true).
  { unfold fields_ok.
    cbn [batch_of_new b_base_offset b_batch_length b_partition_leader_epoch b_crc b_attributes
         b_last_offset_delta b_base_timestamp b_max_timestamp b_producer_id b_producer_epoch
         b_base_sequence b_records].
    rewrite Hpost, W0, Rblen, W2, Rcrc, V0, Rlod, Rbts, Rmts, V4, V5, V6. reflexivity. }
  assert (Hr: records_ok (batch_of_new nb first) = true).
  { unfold records_ok.
    cbn [batch_of_new b_base_offset b_base_timestamp b_max_timestamp b_records].
    rewrite Hall, andb_true_r. apply Z.ltb_lt. exact Hn. }
  assert (Hs: sealed_ok (batch_of_new nb first) = true).
  { unfold sealed_ok. rewrite post_of_batch_of_new, Hpost.
    cbn [batch_of_new b_batch_length b_crc]. rewrite Hpost, !Z.eqb_refl. reflexivity. }
  rewrite Hf, Hr, Hs. reflexivity.
Qed.
Print Assumptions new_batch_prepared.

(* ------------------------------------------------------------------------------------------ *)
(* 4. the reader gives back what write_new_batch wrote (any trailing bytes are left alone) *)
Theorem read_write_new_batch : forall nb bs first tl,
  hd_error (n_records nb) = Some first -> new_batch_ok nb = true ->
  write_new_batch nb = Ok bs ->
  read_batch (bs ++ tl) = Ok (floor_seconds (batch_of_new nb first), tl).
Proof.
  intros nb bs first tl Hhd Hok H. apply read_write_prepared_core.
  - exact (new_batch_prepared nb bs first Hhd Hok H).
  - exact (write_new_is_write_prepared nb bs first Hhd H).
Qed.
Print Assumptions read_write_new_batch.

Corollary read_write_new_batch_records : forall nb bs first tl,
  hd_error (n_records nb) = Some first -> new_batch_ok nb = true ->
  write_new_batch nb = Ok bs ->
  exists b, read_batch (bs ++ tl) = Ok (b, tl) /\
            b_records b = map floor_seconds_record (n_records nb).
Proof.
  intros nb bs first tl Hhd Hok H. exists (floor_seconds (batch_of_new nb first)).
  split; [exact (read_write_new_batch nb bs first tl Hhd Hok H)|reflexivity].
Qed.
Print Assumptions read_write_new_batch_records.

(* the header the reader returns, spelled out: the fields write_new_batch derived *)
Corollary read_write_new_batch_fields : forall nb bs first tl,
  hd_error (n_records nb) = Some first -> new_batch_ok nb = true ->
  write_new_batch nb = Ok bs ->
  exists b, read_batch (bs ++ tl) = Ok (b, tl) /\
    b_base_offset b = r_offset first /\
    b_batch_length b = zlen bs - 12 /\
    b_partition_leader_epoch b = n_partition_leader_epoch nb /\
    b_crc b = crc32c (skipn 21 bs) /\
    b_attributes b = n_attributes nb /\
    b_last_offset_delta b = r_offset (last (n_records nb) first) - r_offset first /\
    b_base_timestamp b = millis_of (r_timestamp first) /\
    b_max_timestamp b = millis_of (max_timestamp_us (n_records nb)) /\
    b_producer_id b = n_producer_id nb /\ b_producer_epoch b = n_producer_epoch nb /\
    b_base_sequence b = n_base_sequence nb /\
    b_records b = map floor_seconds_record (n_records nb).
Proof.
  intros nb bs first tl Hhd Hok H. exists (floor_seconds (batch_of_new nb first)).
  split; [exact (read_write_new_batch nb bs first tl Hhd Hok H)|].
  apply hd_error_cons in Hhd. destruct Hhd as [rest Hrs].
  destruct (write_new_batch_inv nb bs first rest Hrs H)
    as (pre & post & _ & _ & _ & Hpost & _ & _ & Hpre & ->).
  apply write_pre_inv in Hpre.
  destruct Hpre as (b0 & b1 & b2 & b3 & b4 & W0 & W1 & W2 & W3 & W4 & ->).
  apply write_int_length in W0, W1, W2, W3, W4.
  cbn [floor_seconds batch_of_new b_base_offset b_batch_length b_partition_leader_epoch b_crc
       b_attributes b_last_offset_delta b_base_timestamp b_max_timestamp b_producer_id
       b_producer_epoch b_base_sequence b_records].
  rewrite Hpost.
  assert (Hsk: skipn 21 ((b0 ++ b1 ++ b2 ++ b3 ++ b4) ++ post) = post).
  { apply skipn_app_exact. rewrite !app_length. lia. }
  assert (Hz: zlen ((b0 ++ b1 ++ b2 ++ b3 ++ b4) ++ post) = zlen post + 21).
  { unfold zlen. rewrite !app_length. lia. }
  rewrite Hsk, Hz. repeat split; try reflexivity. lia.
Qed.
Print Assumptions read_write_new_batch_fields.

(* ------------------------------------------------------------------------------------------ *)
(* 5. the hypotheses are satisfiable: three records at offsets 100, 101 and 105; the first with
   key, value and a header and a quarter of a second past the second; the second with a null key,
   later (it carries the maximum, and half a second); the third with a null value and EARLIER than
   the first (a negative timestamp delta) *)
Definition nx_r1 : record :=
  {| r_attributes := 0; r_timestamp := 1700000000250000; r_offset := 100;
     r_key := Some [107; 49]; r_value := Some [118; 49; 33];
     r_headers := [ {| h_key := Some [104]; h_value := Some [1; 2] |} ] |}.
Definition nx_r2 : record :=
  {| r_attributes := 0; r_timestamp := 1700000002500000; r_offset := 101;
     r_key := None; r_value := Some [118; 50]; r_headers := [] |}.
Definition nx_r3 : record :=
  {| r_attributes := 0; r_timestamp := 1699999999000000; r_offset := 105;
     r_key := Some [107; 51]; r_value := None; r_headers := [] |}.
Definition nx_new : new_batch :=
  {| n_producer_id := -1; n_producer_epoch := -1; n_partition_leader_epoch := 7;
     n_base_sequence := -1; n_records := [nx_r1; nx_r2; nx_r3]; n_attributes := 0 |}.
Definition nx_bytes : list Z :=
  [0; 0; 0; 0; 0; 0; 0; 100; 0; 0; 0; 86; 0; 0; 0; 7; 2; 35; 55; 215; 244; 0; 0; 0; 0; 0; 5;
   0; 0; 1; 139; 207; 229; 104; 250; 0; 0; 1; 139; 207; 229; 113; 196; 255; 255; 255; 255;
   255; 255; 255; 255; 255; 255; 255; 255; 255; 255; 0; 0; 0; 3; 32; 0; 0; 0; 4; 107; 49; 6;
   118; 49; 33; 2; 2; 104; 4; 1; 2; 18; 0; 148; 35; 2; 1; 4; 118; 50; 0; 18; 0; 195; 19; 10;
   4; 107; 51; 1; 0].
(* what the reader returns, written out: the derived header and the records on whole seconds *)
Definition nx_read : batch :=
  {| b_base_offset := 100; b_batch_length := 86; b_partition_leader_epoch := 7;
     b_crc := 590862324; b_attributes := 0; b_last_offset_delta := 5;
     b_base_timestamp := 1700000000250; b_max_timestamp := 1700000002500;
     b_producer_id := -1; b_producer_epoch := -1; b_base_sequence := -1;
     b_records :=
       [ {| r_attributes := 0; r_timestamp := 1700000000000000; r_offset := 100;
            r_key := Some [107; 49]; r_value := Some [118; 49; 33];
            r_headers := [ {| h_key := Some [104]; h_value := Some [1; 2] |} ] |};
         {| r_attributes := 0; r_timestamp := 1700000002000000; r_offset := 101;
            r_key := None; r_value := Some [118; 50]; r_headers := [] |};
         {| r_attributes := 0; r_timestamp := 1699999999000000; r_offset := 105;
            r_key := Some [107; 51]; r_value := None; r_headers := [] |} ] |}.

Example new_batch_ok_nonvacuous :
  hd_error (n_records nx_new) = Some nx_r1 /\
  new_batch_ok nx_new = true /\
  write_new_batch nx_new = Ok nx_bytes /\
  write_prepared_batch (batch_of_new nx_new nx_r1) = Ok nx_bytes /\
  prepared_core (batch_of_new nx_new nx_r1) = true /\
  floor_seconds (batch_of_new nx_new nx_r1) = nx_read /\
  read_batch nx_bytes = Ok (nx_read, []) /\
  read_batch (nx_bytes ++ [1; 2; 3]) = Ok (nx_read, [1; 2; 3]).
Proof. vm_compute. repeat split; reflexivity. Qed.
Print Assumptions new_batch_ok_nonvacuous.
