(* C19: readers and writers are stateless.  The only shared state of kio.serial are the two
   functools.cache tables mapping (class, nullable) to a compiled closure.  Model: a cache of
   plans; threads are sequences of atomic actions (look a key up, compile it - a pure function of
   the key -, store it, use a plan on an input with an optional stream fault); a schedule is any
   interleaving of the threads' actions.  A use runs the plan on scratch state created for that
   call only, so its result is a pure function of (plan, input, fault).  Definitions only. *)
From Coq Require Import List Bool Arith.
Import ListNotations.

Section Cache.
  Variables K P X F R : Type.             (* keys, plans, inputs, faults, results *)
  Variable key_eqb : K -> K -> bool.
  Variable compile : K -> P.              (* deriving a reader/writer closure from the class description *)
  Variable exec : P -> X -> F -> R.       (* running a closure on fresh scratch state *)

  Definition cache := list (K * P).
  Fixpoint lookup (k : K) (c : cache) : option P :=
    match c with [] => None | (k', p) :: tl => if key_eqb k k' then Some p else lookup k tl end.

  (* a thread's local state: the plan it currently holds *)
  Record tstate := { held : option (K * P) }.

  Inductive action :=
  | ALookup (k : K)          (* cache hit: hold the cached plan; miss: hold nothing *)
  | ACompile (k : K)         (* pure: hold compile k *)
  | AStore                   (* publish the held plan into the cache (last writer wins) *)
  | AUse (k : K) (x : X) (f : F).   (* run the plan for k: the held one if it is for k, else the cached one, else a fresh one *)

  Record sys := { shared : cache; threads : nat -> tstate; log : list (nat * K * X * F * R) }.

  Definition upd (ts : nat -> tstate) (t : nat) (s : tstate) : nat -> tstate :=
    fun u => if Nat.eqb u t then s else ts u.

  Definition plan_for (s : sys) (t : nat) (k : K) : P :=
    match held (threads s t) with
    | Some (k', p) => if key_eqb k k' then p else match lookup k (shared s) with Some q => q | None => compile k end
    | None => match lookup k (shared s) with Some q => q | None => compile k end
    end.

  Definition step (s : sys) (ta : nat * action) : sys :=
    let (t, a) := ta in
    match a with
    | ALookup k =>
        {| shared := shared s;
           threads := upd (threads s) t {| held := match lookup k (shared s) with Some p => Some (k, p) | None => None end |};
           log := log s |}
    | ACompile k => {| shared := shared s; threads := upd (threads s) t {| held := Some (k, compile k) |}; log := log s |}
    | AStore =>
        match held (threads s t) with
        | Some (k, p) => {| shared := (k, p) :: shared s; threads := threads s; log := log s |}
        | None => s
        end
    | AUse k x f =>
        {| shared := shared s; threads := threads s;
           log := (t, k, x, f, exec (plan_for s t k) x f) :: log s |}
    end.

  Definition init : sys := {| shared := []; threads := fun _ => {| held := None |}; log := [] |}.
  Definition run_schedule (sched : list (nat * action)) : sys := fold_left step sched init.

  (* the invariant: every plan anywhere is the compilation of its key *)
  Definition inv (s : sys) : Prop :=
    (forall k p, In (k, p) (shared s) -> p = compile k) /\
    (forall t k p, held (threads s t) = Some (k, p) -> p = compile k) /\
    (forall t k x f r, In (t, k, x, f, r) (log s) -> r = exec (compile k) x f).
End Cache.
