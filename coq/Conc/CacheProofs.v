From Coq Require Import List Bool Arith.
From KioV Require Import Conc.Cache.
Import ListNotations.

Section Proofs.
  Variables K P X F R : Type.
  Variable key_eqb : K -> K -> bool.
  Hypothesis key_eqb_eq : forall a b, key_eqb a b = true -> a = b.
  Variable compile : K -> P.
  Variable exec : P -> X -> F -> R.

  Notation sys := (sys K P X F R).
  Notation step := (step K P X F R key_eqb compile exec).
  Notation inv := (inv K P X F R compile exec).
  Notation lookup := (lookup K P key_eqb).

  Lemma lookup_in k c p : lookup k c = Some p -> exists k', In (k', p) c /\ k = k'.
  Proof.
    induction c as [|[k' q] tl IH]; cbn [Cache.lookup]; [discriminate|].
    destruct (key_eqb k k') eqn:E.
    - intros H. injection H as ->. exists k'. split; [left; reflexivity|]. apply key_eqb_eq. exact E.
    - intros H. destruct (IH H) as [k'' [Hin Hk]]. exists k''. split; [right; exact Hin|exact Hk].
  Qed.

  Lemma plan_for_compile (s : sys) t k : inv s -> plan_for K P X F R key_eqb compile s t k = compile k.
  Proof.
    intros [Hc [Hh _]]. unfold plan_for.
    assert (Hl: match lookup k (shared K P X F R s) with Some q => q | None => compile k end = compile k).
    { destruct (lookup k (shared K P X F R s)) as [q|] eqn:El; [|reflexivity].
      destruct (lookup_in _ _ _ El) as [k' [Hin ->]]. apply Hc. exact Hin. }
    destruct (held K P (threads K P X F R s t)) as [[k' p]|] eqn:Eh; [|exact Hl].
    destruct (key_eqb k k') eqn:E; [|exact Hl].
    apply key_eqb_eq in E. subst k'. eapply Hh. exact Eh.
  Qed.

  Lemma step_inv (s : sys) ta : inv s -> inv (step s ta).
  Proof.
    intros Hinv. pose proof Hinv as [Hc [Hh Hl]]. destruct ta as [t a]. destruct a as [k|k| |k x f]; cbn [Cache.step].
    - split; [exact Hc|]. split; [|exact Hl].
      intros u k' p. cbn [threads]. unfold upd. destruct (Nat.eqb u t); [|apply Hh]. cbn [held].
      destruct (lookup k (shared K P X F R s)) as [q|] eqn:El; [|discriminate].
      intros H. injection H as <- <-. destruct (lookup_in _ _ _ El) as [k'' [Hin ->]]. apply Hc. exact Hin.
    - split; [exact Hc|]. split; [|exact Hl].
      intros u k' p. cbn [threads]. unfold upd. destruct (Nat.eqb u t); [|apply Hh]. cbn [held].
      intros H. injection H as <- <-. reflexivity.
    - destruct (held K P (threads K P X F R s t)) as [[k p]|] eqn:Eh; [|exact Hinv].
      split; [|split; [exact Hh|exact Hl]].
      intros k' p' [H|H]; [|apply Hc; exact H]. injection H as <- <-. eapply Hh. exact Eh.
    - split; [exact Hc|]. split; [exact Hh|].
      intros u k' x' f' r [H|H]; [|eapply Hl; exact H].
      injection H as <- <- <- <- <-. rewrite plan_for_compile by exact Hinv. reflexivity.
  Qed.

  Lemma init_inv : inv (init K P X F R).
  Proof. split; [|split]; cbn; intros; try contradiction; discriminate. Qed.

  (* every reachable state, for every schedule (any number of threads, any interleaving) *)
  Theorem schedule_inv : forall sched, inv (run_schedule K P X F R key_eqb compile exec sched).
  Proof.
    intros sched. unfold run_schedule.
    assert (G: forall s, inv s -> inv (fold_left step sched s)).
    { induction sched as [|ta tl IH]; intros s Hs; cbn [fold_left]; [exact Hs|]. apply IH. apply step_inv. exact Hs. }
    apply G. apply init_inv.
  Qed.

  (* every use, in every schedule, returns what a fresh cold call would return: independent of
     the history, of other threads, of who filled the cache, of earlier faulted calls *)
  Theorem use_is_pure : forall sched t k x f r,
    In (t, k, x, f, r) (log K P X F R (run_schedule K P X F R key_eqb compile exec sched)) ->
    r = exec (compile k) x f.
  Proof. intros sched t k x f r H. destruct (schedule_inv sched) as [_ [_ Hl]]. eapply Hl. exact H. Qed.
End Proofs.
