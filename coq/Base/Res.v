(* Outcomes shared by every model component.  Definitions only. *)
From Coq Require Import ZArith List Bool.
Import ListNotations.

(* Python exception classes, canonicalised by isinstance on the implementation side:
   EUnderflow       kio.serial.errors.BufferUnderflow
   EUnexpectedNull  kio.serial.errors.UnexpectedNull
   EOutOfBound      kio.serial.errors.OutOfBoundValue
   ESchema          kio.serial.errors.SchemaError
   EValue           ValueError (incl. UnicodeDecodeError, enum lookups, "varint too long")
   EOverflow        OverflowError
   EStruct          struct.error
   EType            TypeError
   ENotImplemented  NotImplementedError
   EKey EIndex EAttr EAssert ERecursion : the builtin of that name
   EOutOfGas        model only: a wire-driven loop would run more often than there are
                    input bytes (the behaviour C10 forbids); excluded by theorem on wf schemas *)
Inductive err :=
| EUnderflow | EUnexpectedNull | EOutOfBound | ESchema | EValue | EOverflow | EStruct
| EType | ENotImplemented | EKey | EIndex | EAttr | EAssert | ERecursion | EOutOfGas.

Definition err_eqb (a b : err) : bool :=
  match a, b with
  | EUnderflow, EUnderflow | EUnexpectedNull, EUnexpectedNull | EOutOfBound, EOutOfBound
  | ESchema, ESchema | EValue, EValue | EOverflow, EOverflow | EStruct, EStruct
  | EType, EType | ENotImplemented, ENotImplemented | EKey, EKey | EIndex, EIndex
  | EAttr, EAttr | EAssert, EAssert | ERecursion, ERecursion | EOutOfGas, EOutOfGas => true
  | _, _ => false
  end.

Inductive res (A : Type) := Ok (a : A) | Err (e : err).
Arguments Ok {A}. Arguments Err {A}.

Definition rbind {A B} (r : res A) (f : A -> res B) : res B :=
  match r with Ok a => f a | Err e => Err e end.
Definition rmap {A B} (f : A -> B) (r : res A) : res B :=
  match r with Ok a => Ok (f a) | Err e => Err e end.

Fixpoint rmapM {A B} (f : A -> res B) (l : list A) : res (list B) :=
  match l with
  | [] => Ok []
  | x :: tl => match f x with
               | Err e => Err e
               | Ok y => match rmapM f tl with Err e => Err e | Ok ys => Ok (y :: ys) end
               end
  end.

Definition is_ok {A} (r : res A) : bool := match r with Ok _ => true | Err _ => false end.

(* byte strings: lists of Z, each 0..255 *)
Definition byte_ok (b : Z) : bool := ((0 <=? b) && (b <? 256))%Z.
Definition bytes_ok (l : list Z) : bool := forallb byte_ok l.

Fixpoint zlist_eqb (a b : list Z) : bool :=
  match a, b with
  | [], [] => true
  | x :: a', y :: b' => (x =? y)%Z && zlist_eqb a' b'
  | _, _ => false
  end.

Definition zlen {A} (l : list A) : Z := Z.of_nat (length l).
