(* Metatheorems about every reader program: they hold for any decoder written against `prog`,
   and are what C06, C07 and parts of C10 rest on. *)
From Coq Require Import ZArith List Bool Lia.
From KioV Require Import Base.Res Base.Prog.
Import ListNotations.
Open Scope Z_scope.

Lemma run_bind {A B} (p : prog A) (f : A -> prog B) bs :
  run (bind p f) bs = match run p bs with Ok (a, r) => run (f a) r | Err e => Err e end.
Proof.
  revert bs. induction p as [a|e|n k IH]; intros bs; cbn [bind run]; try reflexivity.
  destruct ((n <? 0) || (Z.of_nat (length bs) <? n)); [reflexivity|]. apply IH.
Qed.

Lemma run_bind_ok {A B} (p : prog A) (f : A -> prog B) bs a r :
  run p bs = Ok (a, r) -> run (bind p f) bs = run (f a) r.
Proof. intros H. rewrite run_bind, H. reflexivity. Qed.

Lemma run_bind_err {A B} (p : prog A) (f : A -> prog B) bs e :
  run p bs = Err e -> run (bind p f) bs = Err e.
Proof. intros H. rewrite run_bind, H. reflexivity. Qed.

(* the residue is a suffix of the input: a decoder never consumes more than it was given *)
Lemma run_suffix {A} (p : prog A) : forall bs a r,
  run p bs = Ok (a, r) -> exists c, bs = c ++ r.
Proof.
  induction p as [a0|e|n k IH]; intros bs a r H; cbn [run] in H.
  - inversion H; subst. exists []. reflexivity.
  - discriminate.
  - destruct ((n <? 0) || (Z.of_nat (length bs) <? n)) eqn:E; [discriminate|].
    apply IH in H. destruct H as [c Hc].
    exists (firstn (Z.to_nat n) bs ++ c). rewrite <- app_assoc, <- Hc. symmetry. apply firstn_skipn.
Qed.

Lemma run_residue_length {A} (p : prog A) bs a r :
  run p bs = Ok (a, r) -> (length r <= length bs)%nat.
Proof. intros H. apply run_suffix in H. destruct H as [c ->]. rewrite app_length. lia. Qed.

(* the result does not depend on what follows the consumed bytes *)
Lemma run_tail_irrelevant {A} (p : prog A) : forall c tl a,
  run p c = Ok (a, []) -> run p (c ++ tl) = Ok (a, tl).
Proof.
  induction p as [a0|e|n k IH]; intros c tl a H; cbn [run] in H |- *.
  - inversion H; subst. reflexivity.
  - discriminate.
  - destruct ((n <? 0) || (Z.of_nat (length c) <? n)) eqn:E; [discriminate|].
    apply orb_false_iff in E. destruct E as [E1 E2].
    apply Z.ltb_ge in E1. apply Z.ltb_ge in E2.
    replace ((n <? 0) || (Z.of_nat (length (c ++ tl)) <? n)) with false.
    2:{ symmetry. apply orb_false_iff. split; apply Z.ltb_ge; [lia|]. rewrite app_length. lia. }
    assert (Hm: (Z.to_nat n <= length c)%nat) by lia.
    rewrite firstn_app, skipn_app.
    replace (Z.to_nat n - length c)%nat with 0%nat by lia. cbn [firstn skipn].
    rewrite app_nil_r. apply IH. exact H.
Qed.

Lemma run_tail_irrelevant' {A} (p : prog A) : forall c r tl a,
  run p (c ++ r) = Ok (a, r) -> run p (c ++ tl) = Ok (a, tl).
Proof.
  induction p as [a0|e|n k IH]; intros c r tl a H; cbn [run] in H |- *.
  - inversion H as [[Ha Hc]].
    assert (length (c ++ r) = length r) by (rewrite Hc; reflexivity).
    rewrite app_length in H0. destruct c; [reflexivity|cbn in H0; lia].
  - discriminate.
  - destruct ((n <? 0) || (Z.of_nat (length (c ++ r)) <? n)) eqn:E; [discriminate|].
    apply orb_false_iff in E. destruct E as [E1 E2].
    apply Z.ltb_ge in E1. apply Z.ltb_ge in E2.
    set (m := Z.to_nat n) in *.
    pose proof (run_suffix _ _ _ _ H) as [c' Hc'].
    assert (Hlen: (m <= length c)%nat).
    { assert (length (skipn m (c ++ r)) = length (c' ++ r)) by (rewrite Hc'; reflexivity).
      rewrite skipn_length, !app_length in H0. rewrite app_length in E2. unfold m. lia. }
    replace ((n <? 0) || (Z.of_nat (length (c ++ tl)) <? n)) with false.
    2:{ symmetry. apply orb_false_iff. split; apply Z.ltb_ge; [lia|]. rewrite app_length. unfold m in Hlen. lia. }
    rewrite firstn_app, skipn_app in H |- *.
    replace (m - length c)%nat with 0%nat in * by lia. cbn [firstn skipn] in *.
    rewrite app_nil_r in *. eapply IH. exact H.
Qed.

(* truncation: every strict prefix of exactly-consumed input is reported as underflow *)
Theorem run_prefix_underflow {A} (p : prog A) : forall c tl a,
  run p (c ++ tl) = Ok (a, tl) ->
  forall k, (k < length c)%nat -> run p (firstn k c) = Err EUnderflow.
Proof.
  induction p as [a0|e|n kont IH]; intros c tl a H k Hk; cbn [run] in H |- *.
  - inversion H as [[Ha Hc]].
    assert (length (c ++ tl) = length tl) by (rewrite Hc; reflexivity).
    rewrite app_length in H0. lia.
  - discriminate.
  - destruct ((n <? 0) || (Z.of_nat (length (c ++ tl)) <? n)) eqn:E; [discriminate|].
    apply orb_false_iff in E. destruct E as [E1 E2].
    apply Z.ltb_ge in E1. apply Z.ltb_ge in E2.
    set (m := Z.to_nat n) in *.
    pose proof (run_suffix _ _ _ _ H) as [c' Hc'].
    assert (Hlen: (m <= length c)%nat).
    { assert (length (skipn m (c ++ tl)) = length (c' ++ tl)) by (rewrite Hc'; reflexivity).
      rewrite skipn_length, !app_length in H0. rewrite app_length in E2. unfold m. lia. }
    rewrite firstn_app, skipn_app in H.
    replace (m - length c)%nat with 0%nat in H by lia. cbn [firstn skipn] in H.
    rewrite app_nil_r in H.
    destruct (Nat.ltb_spec k m) as [Hkm|Hkm].
    + replace ((n <? 0) || (Z.of_nat (length (firstn k c)) <? n)) with true; [reflexivity|].
      symmetry. apply orb_true_iff. right. apply Z.ltb_lt.
      rewrite firstn_length. unfold m in Hkm. lia.
    + replace ((n <? 0) || (Z.of_nat (length (firstn k c)) <? n)) with false.
      2:{ symmetry. apply orb_false_iff. split; [apply Z.ltb_ge; lia|].
          apply Z.ltb_ge. rewrite firstn_length. unfold m in Hkm. lia. }
      fold m.
      assert (Hf: firstn m (firstn k c) = firstn m c).
      { rewrite firstn_firstn. f_equal. lia. }
      assert (Hs: skipn m (firstn k c) = firstn (k - m) (skipn m c)).
      { apply skipn_firstn_comm. }
      rewrite Hf, Hs. eapply IH; [exact H|].
      rewrite skipn_length. lia.
Qed.

(* cost: never more read calls than ... is stated per decoder; here the generic facts *)
Lemma run_cost_bind {A B} (p : prog A) (f : A -> prog B) bs :
  run_cost (bind p f) bs =
  (run_cost p bs + match run p bs with Ok (a, r) => run_cost (f a) r | Err _ => 0 end)%nat.
Proof.
  revert bs. induction p as [a|e|n k IH]; intros bs; cbn [bind run run_cost]; try reflexivity.
  destruct ((n <? 0) || (Z.of_nat (length bs) <? n)); [reflexivity|].
  rewrite IH. reflexivity.
Qed.

(* decoding a sequence: programs run back to back on concatenated input *)
Lemma run_lift {A} (r : res A) bs :
  run (lift r) bs = match r with Ok a => Ok (a, bs) | Err e => Err e end.
Proof. destruct r; reflexivity. Qed.
