(* Readers as programs over one effect: "read exactly n bytes".  Definitions only.
   Mirrors kio.serial.readers.read_exact: buffer.read(n) followed by a length comparison; a
   negative n makes BytesIO.read return everything, whose length is never n, so it raises
   BufferUnderflow as well (checked by the C11 correspondence). *)
From Coq Require Import ZArith List Bool.
From KioV Require Import Base.Res.
Import ListNotations.
Open Scope Z_scope.

Inductive prog (A : Type) :=
| Ret (a : A)
| Fail (e : err)
| Read (n : Z) (k : list Z -> prog A).
Arguments Ret {A}. Arguments Fail {A}. Arguments Read {A}.

Fixpoint run {A} (p : prog A) (bs : list Z) : res (A * list Z) :=
  match p with
  | Ret a => Ok (a, bs)
  | Fail e => Err e
  | Read n k =>
      if (n <? 0) || (Z.of_nat (length bs) <? n) then Err EUnderflow
      else run (k (firstn (Z.to_nat n) bs)) (skipn (Z.to_nat n) bs)
  end.

(* number of read_exact calls performed *)
Fixpoint run_cost {A} (p : prog A) (bs : list Z) : nat :=
  match p with
  | Ret _ | Fail _ => O
  | Read n k =>
      if (n <? 0) || (Z.of_nat (length bs) <? n) then 1%nat
      else S (run_cost (k (firstn (Z.to_nat n) bs)) (skipn (Z.to_nat n) bs))
  end.

Fixpoint bind {A B} (p : prog A) (f : A -> prog B) : prog B :=
  match p with
  | Ret a => f a
  | Fail e => Fail e
  | Read n k => Read n (fun b => bind (k b) f)
  end.

Notation "x <- p ;; q" := (bind p (fun x => q))
  (at level 61, p at next level, right associativity).

Definition lift {A} (r : res A) : prog A :=
  match r with Ok a => Ret a | Err e => Fail e end.

(* `count` iterations of `item`; the fuel is fixed by the caller to more than the input length,
   so running out of it means "more iterations than input bytes" *)
Fixpoint repeat_prog {A} (fuel : nat) (count : Z) (item : prog A) : prog (list A) :=
  if count <=? 0 then Ret [] else
  match fuel with
  | O => Fail EOutOfGas
  | S f => x <- item ;; xs <- repeat_prog f (count - 1) item ;; Ret (x :: xs)
  end.
