(* Small string utilities used by the schema predicates.  Definitions only. *)
From Coq Require Import ZArith List Bool String Ascii.
Import ListNotations.
Open Scope string_scope.

Fixpoint split_aux (sep : ascii) (s : string) (acc : string) : list string :=
  match s with
  | EmptyString => [acc]
  | String c tl => if Ascii.eqb c sep then acc :: split_aux sep tl EmptyString
                   else split_aux sep tl (acc ++ String c EmptyString)
  end.
Definition split (sep : ascii) (s : string) : list string := split_aux sep s EmptyString.

Definition digit_of (c : ascii) : option Z :=
  let n := Z.of_nat (nat_of_ascii c) in
  if ((48 <=? n) && (n <=? 57))%Z then Some (n - 48)%Z else None.

Fixpoint parse_digits (s : string) (acc : Z) : option Z :=
  match s with
  | EmptyString => Some acc
  | String c tl => match digit_of c with
                   | Some d => parse_digits tl (acc * 10 + d)%Z
                   | None => None
                   end
  end.

(* "v12" -> Some 12; canonical decimal only (no leading zeros except "v0", no empty) *)
Definition parse_version (s : string) : option Z :=
  match s with
  | String "v" (String c tl as ds) =>
      if Ascii.eqb c "0" && negb (String.eqb tl "") then None else parse_digits ds 0
  | _ => None
  end.

Fixpoint str_mem (x : string) (l : list string) : bool :=
  match l with [] => false | y :: tl => String.eqb x y || str_mem x tl end.

Fixpoint str_nodup (l : list string) : bool :=
  match l with [] => true | x :: tl => negb (str_mem x tl) && str_nodup tl end.

Fixpoint str_list_eqb (a b : list string) : bool :=
  match a, b with
  | [], [] => true
  | x :: a', y :: b' => String.eqb x y && str_list_eqb a' b'
  | _, _ => false
  end.
