(* The interpretation of the raw description: kio.serial._introspect, _implicit_defaults and
   the get_reader / get_writer / get_field_reader / get_field_writer dispatch of _parse.py and
   _serialize.py, rendered in Gallina.  Definitions only. *)
From Coq Require Import ZArith List Bool String.
From KioV Require Import Base.Res Codec.Value Schema.Raw.
Import ListNotations.
Open Scope string_scope.

(* ---- _introspect.py ---- *)

Definition ann_is_none (a : ann) : bool := match a with TNone => true | _ => false end.
Definition ann_is_dataclass (a : ann) : bool := match a with TClass _ => true | _ => false end.

(* is_optional(field) *)
Definition is_optional (a : ann) : res bool :=
  let inner :=
    match a with
    | TTuple [inner; TEllipsis] => Ok inner
    | TTuple _ => Err ESchema
    | _ => Ok a
    end in
  match inner with
  | Err e => Err e
  | Ok (TUnion _ args) => Ok (existsb ann_is_none args)
  | Ok _ => Ok false
  end.

Inductive fclass :=
| FPrimitive (t : ann) | FPrimitiveTuple (t : ann) | FEntity (i : nat) | FEntityTuple (i : nat).

Definition fclass_is_array (f : fclass) : bool :=
  match f with FPrimitiveTuple _ | FEntityTuple _ => true | _ => false end.

(* _classify_field: at most one level of `X | None` can precede a tuple or a plain type, but
   the recursion is written as in the source (on the union member) *)
Fixpoint classify (a : ann) : res fclass :=
  match a with
  | TUnion true [x; y] =>
      if ann_is_none x then classify y
      else if ann_is_none y then classify x
      else Err ESchema
  | TUnion true _ => Err ESchema
  | TTuple [TClass i; TEllipsis] => Ok (FEntityTuple i)
  | TTuple [inner; TEllipsis] => Ok (FPrimitiveTuple inner)
  | TTuple _ => Err ESchema
  | TClass i => Ok (FEntity i)
  | other => Ok (FPrimitive other)
  end.

(* get_schema_field_type *)
Definition kafka_type (f : rfield) : res string :=
  match rf_kafka f with
  | None => Err ESchema
  | Some (MStr s) => Ok s
  | Some _ => Err ESchema
  end.

(* get_field_tag: uvarint(metadata["tag"]) — TypeError unless an int in 0 .. 2^35-1
   (a bool is an int) *)
Definition field_tag (f : rfield) : res (option Z) :=
  match rf_tag f with
  | None => Ok None
  | Some (MInt z) => if ((0 <=? z) && (z <=? 2 ^ 35 - 1))%Z then Ok (Some z) else Err EType
  | Some (MBool b) => Ok (Some (if b then 1 else 0)%Z)
  | Some _ => Err EType
  end.

(* ---- get_reader / get_writer: the two dispatch tables (identical in shape) ---- *)
Definition prim_codec (kt : string) (flexible optional : bool) : res pcodec :=
  let no_opt (p : pcodec) := if optional then Err ENotImplemented else Ok p in
  if kt =? "int8" then no_opt (PInt 1 true)
  else if kt =? "int16" then no_opt (PInt 2 true)
  else if kt =? "int32" then no_opt (PInt 4 true)
  else if kt =? "int64" then no_opt (PInt 8 true)
  else if kt =? "uint8" then no_opt (PInt 1 false)
  else if kt =? "uint16" then no_opt (PInt 2 false)
  else if kt =? "uint32" then no_opt (PInt 4 false)
  else if kt =? "uint64" then no_opt (PInt 8 false)
  else if kt =? "float64" then no_opt PF64
  else if kt =? "string" then Ok (PStr flexible optional)
  else if (kt =? "bytes") || (kt =? "records") then Ok (PBytes flexible optional)
  else if kt =? "uuid" then Ok PUuid
  else if kt =? "bool" then no_opt PBool
  else if kt =? "error_code" then no_opt PErrorCode
  else if kt =? "timedelta_i32" then no_opt PTd32
  else if kt =? "timedelta_i64" then no_opt PTd64
  else if kt =? "datetime_i64" then Ok (PDt optional)
  else Err ENotImplemented.

(* get_field_reader *)
Definition field_reader_codec (flexible is_request_header tagged : bool) (f : rfield) : res codec :=
  if is_request_header && (rf_name f =? "client_id") then Ok (CPrim (PStr false true)) else
  rbind (classify (rf_ann f)) (fun fc =>
  rbind (match fc with
         | FPrimitive _ | FPrimitiveTuple _ =>
             rbind (kafka_type f) (fun kt =>
             rbind (is_optional (rf_ann f)) (fun opt =>
             rbind (prim_codec kt flexible opt) (fun p => Ok (CPrim p))))
         | FEntity i => rbind (is_optional (rf_ann f)) (fun opt => Ok (CEnt i opt))
         | FEntityTuple i => Ok (CEnt i false)
         end) (fun inner =>
  Ok (if fclass_is_array fc then CArr flexible inner else inner))).

(* get_field_writer *)
Definition field_writer_codec (flexible is_request_header tagged : bool) (f : rfield) : res codec :=
  if is_request_header && (rf_name f =? "client_id") then Ok (CPrim (PStr false true)) else
  rbind (if tagged then Ok false else is_optional (rf_ann f)) (fun opt =>
  rbind (classify (rf_ann f)) (fun fc =>
  rbind (match fc with
         | FPrimitive _ | FPrimitiveTuple _ =>
             rbind (kafka_type f) (fun kt =>
             rbind (prim_codec kt flexible opt) (fun p => Ok (CPrim p)))
         | FEntity i => Ok (CEnt i opt)
         | FEntityTuple i => Ok (CEnt i false)
         end) (fun inner =>
  Ok (if fclass_is_array fc then CArr flexible inner else inner)))).

(* ---- _implicit_defaults.py ---- *)
Section Defaults.
  Variable prims : list primty.

  Definition mro_of (q : string) : list string :=
    match find (fun p => pt_name p =? q) prims with
    | Some p => pt_mro p
    | None => [q]
    end.

  Definition implicit_table (q : string) : option value :=
    if (q =? "kio.static.primitive.u8") || (q =? "kio.static.primitive.u16")
       || (q =? "kio.static.primitive.u32") || (q =? "kio.static.primitive.u64")
       || (q =? "kio.static.primitive.i8") || (q =? "kio.static.primitive.i16")
       || (q =? "kio.static.primitive.i32") || (q =? "kio.static.primitive.i64")
    then Some (VInt 0)
    else if q =? "kio.static.primitive.f64" then Some (VF64 0)
    else if (q =? "kio.static.primitive.i32Timedelta") || (q =? "kio.static.primitive.i64Timedelta")
    then Some (VDur 0)
    else if q =? "kio.static.primitive.TZAware" then Some (VTime 0)
    else if q =? "uuid.UUID" then Some (VUuid (repeat 0%Z 16))
    else if q =? "builtins.str" then Some (VStr [])
    else if q =? "builtins.bytes" then Some (VBytes [])
    else if q =? "builtins.bool" then Some (VBool false)
    else if q =? "kio.schema.errors.ErrorCode" then Some (VInt 0)      (* ErrorCode.none *)
    else None.

  (* get_implicit_default: the type itself, else its first base (__bases__[0] is the second
     MRO entry) *)
  Definition implicit_default (a : ann) : res value :=
    match a with
    | TPrim q =>
        if existsb (String.eqb "kio.static.primitive.Records") (mro_of q) then Err ENotImplemented
        else match implicit_table q with
             | Some v => Ok v
             | None => match mro_of q with
                       | _ :: b :: _ => match implicit_table b with Some v => Ok v | None => Err EKey end
                       | _ => Err EKey
                       end
             end
    | _ => Err EType      (* issubclass() on a non-class *)
    end.

  Variable class_default : nat -> res value.   (* nested entities, lower rank *)

  (* get_tagged_field_default *)
  Definition tagged_default_with (f : rfield) : res value :=
    match rf_default f with
    | Some v => Ok v
    | None =>
        rbind (is_optional (rf_ann f)) (fun opt =>
        if opt then Err EType else
        rbind (classify (rf_ann f)) (fun fc =>
        match fc with
        | FPrimitive t => implicit_default t
        | FEntity i => class_default i
        | FPrimitiveTuple _ | FEntityTuple _ => Err EType
        end))
    end.
End Defaults.

Fixpoint class_default (prims : list primty) (E : list rclass) (rank : nat) (i : nat) : res value :=
  match rank with
  | O => Err ERecursion
  | S r => match nth_error E i with
           | None => Err EType
           | Some c => rbind (rmapM (tagged_default_with prims (class_default prims E r)) (rc_fields c))
                             (fun vs => Ok (VEnt vs))
           end
  end.

Definition tagged_default (prims : list primty) (E : list rclass) (i : nat) (f : rfield) : res value :=
  tagged_default_with prims (class_default prims E i) f.

(* ---- entity_reader / entity_writer: the per-class plan ---- *)
Record fplan2 := { f2_name : string; f2_r : codec; f2_w : codec; f2_tag : option Z; f2_default : value }.

Definition derive_field (prims : list primty) (E : list rclass) (i : nat)
           (flexible is_rh : bool) (f : rfield) : res fplan2 :=
  rbind (field_tag f) (fun tag =>
  let tagged := match tag with Some _ => true | None => false end in
  rbind (field_reader_codec flexible is_rh tagged f) (fun r =>
  rbind (field_writer_codec flexible is_rh tagged f) (fun w =>
  rbind (if tagged then tagged_default prims E i f else Ok VNull) (fun d =>
  Ok {| f2_name := rf_name f; f2_r := r; f2_w := w; f2_tag := tag; f2_default := d |})))).

Record cplan2 := { c2_name : string; c2_flexible : bool; c2_fields : list fplan2 }.

Definition derive_class (prims : list primty) (E : list rclass) (i : nat) (c : rclass) : res cplan2 :=
  match rc_flexible c with
  | None => Err EAttr
  | Some flexible =>
      let is_rh := rc_name c =? "RequestHeader" in
      rbind (rmapM (derive_field prims E i flexible is_rh) (rc_fields c)) (fun fs =>
      if negb flexible && existsb (fun f => match f2_tag f with Some _ => true | None => false end) fs
      then Err EValue
      else Ok {| c2_name := rc_name c; c2_flexible := flexible; c2_fields := fs |})
  end.

Fixpoint derive_all_from (prims : list primty) (E : list rclass) (i : nat) (l : list rclass)
  : list (res cplan2) :=
  match l with
  | [] => []
  | c :: tl => derive_class prims E i c :: derive_all_from prims E (S i) tl
  end.
Definition derive_all (s : schema) : list (res cplan2) :=
  derive_all_from (s_prims s) (s_classes s) 0 (s_classes s).

(* the reader-side and writer-side environments *)
Definition reader_plan (c : cplan2) : cplan :=
  {| cp_name := c2_name c; cp_flexible := c2_flexible c;
     cp_fields := map (fun f => {| fp_name := f2_name f; fp_codec := f2_r f; fp_tag := f2_tag f;
                                   fp_default := f2_default f |}) (c2_fields c) |}.
Definition writer_plan (c : cplan2) : cplan :=
  {| cp_name := c2_name c; cp_flexible := c2_flexible c;
     cp_fields := map (fun f => {| fp_name := f2_name f; fp_codec := f2_w f; fp_tag := f2_tag f;
                                   fp_default := f2_default f |}) (c2_fields c) |}.

Definition empty_plan : cplan := {| cp_name := ""; cp_flexible := false; cp_fields := [] |}.

Definition all_ok {A} (l : list (res A)) : bool := forallb is_ok l.
Fixpoint oks {A} (d : A) (l : list (res A)) : list A :=
  match l with [] => [] | Ok a :: tl => a :: oks d tl | Err _ :: tl => d :: oks d tl end.
Definition empty_plan2 : cplan2 := {| c2_name := ""; c2_flexible := false; c2_fields := [] |}.

Definition renv (s : schema) : penv := map reader_plan (oks empty_plan2 (derive_all s)).
Definition wenv (s : schema) : penv := map writer_plan (oks empty_plan2 (derive_all s)).
Definition error_code_values (s : schema) : list Z := map fst (s_error_codes s).
