(* Boolean predicates over the translated schema for the configuration properties
   C08, C09, C13, C14, C15.  Definitions only. *)
From Coq Require Import ZArith List Bool String Ascii.
From KioV Require Import Base.Res Codec.Value Codec.PrimCodec Schema.Raw Schema.Introspect Schema.Strings Codec.Typed.
Import ListNotations.
Open Scope string_scope.

(* ---------- generic helpers ---------- *)
Definition opt_z_eqb (a b : option Z) : bool :=
  match a, b with None, None => true | Some x, Some y => Z.eqb x y | _, _ => false end.
Definition opt_nat_eqb (a b : option nat) : bool :=
  match a, b with None, None => true | Some x, Some y => Nat.eqb x y | _, _ => false end.
Definition opt_bool_eqb (a b : option bool) : bool :=
  match a, b with None, None => true | Some x, Some y => Bool.eqb x y | _, _ => false end.

Definition etype_name (t : etype) : string :=
  match t with ETRequest => "request" | ETResponse => "response" | ETHeader => "header"
             | ETData => "data" | ETNested => "nested" end.

Definition is_top (c : rclass) : bool :=
  match rc_type c with Some ETNested | None => false | Some _ => true end.

(* module path kio.schema.<api>.v<N>.<type> *)
Record mpath := { mp_api : string; mp_version : Z; mp_type : string }.
Definition parse_module (m : string) : option mpath :=
  match split "." m with
  | ["kio"; "schema"; api; v; ty] =>
      match parse_version v with
      | Some n => Some {| mp_api := api; mp_version := n; mp_type := ty |}
      | None => None
      end
  | _ => None
  end.

(* ---------- C14: per class and per module ---------- *)
(* every class carries a version, flexibility, type; its module path parses, states the class's
   version; the module's <type> component is the entity type of the module's top-level class *)
Definition class_attrs_ok (c : rclass) : bool :=
  match rc_type c, rc_version c, rc_flexible c, parse_module (rc_module c) with
  | Some t, Some v, Some _, Some p =>
      Z.eqb (mp_version p) v && (0 <=? v)%Z && (v <=? 32767)%Z
      && (if is_top c then String.eqb (mp_type p) (etype_name t) else true)
      && str_mem (mp_type p) ["request"; "response"; "header"; "data"]
  | _, _, _, _ => false
  end.

Definition same_module_attrs (a b : rclass) : bool :=
  opt_z_eqb (rc_version a) (rc_version b) && opt_bool_eqb (rc_flexible a) (rc_flexible b)
  && opt_z_eqb (rc_api_key a) (rc_api_key b) && opt_nat_eqb (rc_header a) (rc_header b).

(* the top-level class of the module of c *)
Definition module_top (cs : list rclass) (c : rclass) : list rclass :=
  filter (fun d => String.eqb (rc_module d) (rc_module c) && is_top d) cs.

Definition module_ok (cs : list rclass) (c : rclass) : bool :=
  match module_top cs c with
  | [t] => same_module_attrs c t
  | _ => false                         (* exactly one top-level class per module *)
  end.

(* ---------- C14: families ---------- *)
Record fam_entry := { fe_api : string; fe_type : etype; fe_version : Z; fe_flexible : bool;
                      fe_key : option Z }.
Definition top_entries (cs : list rclass) : list fam_entry :=
  flat_map (fun c =>
    match is_top c, rc_type c, rc_version c, rc_flexible c, parse_module (rc_module c) with
    | true, Some t, Some v, Some f, Some p =>
        [{| fe_api := mp_api p; fe_type := t; fe_version := v; fe_flexible := f; fe_key := rc_api_key c |}]
    | _, _, _, _, _ => []
    end) cs.

Definition in_family (e f : fam_entry) : bool :=
  String.eqb (fe_api e) (fe_api f) && etype_eqb (fe_type e) (fe_type f).

(* contiguity: an entry of version v > min has a sibling of version v-1; no duplicate versions;
   flexibility never reverts; key constant within the API (across both types) *)
Definition family_ok (es : list fam_entry) (e : fam_entry) : bool :=
  let fam := filter (in_family e) es in
  let vmin := fold_left Z.min (map fe_version fam) (fe_version e) in
  (Z.eqb (fe_version e) vmin || existsb (fun f => Z.eqb (fe_version f) (fe_version e - 1)) fam)
  && (Nat.eqb (List.length (filter (fun f => Z.eqb (fe_version f) (fe_version e)) fam)) 1)
  && forallb (fun f => if (fe_version e <? fe_version f)%Z && fe_flexible e then fe_flexible f else true) fam
  && forallb (fun f => if String.eqb (fe_api f) (fe_api e) then opt_z_eqb (fe_key f) (fe_key e) else true) es
  (* the key is unique to the API *)
  && forallb (fun f => match fe_key e, fe_key f with
                       | Some k, Some k' => if Z.eqb k k' then String.eqb (fe_api f) (fe_api e) else true
                       | _, _ => true
                       end) es
  (* requests and responses exist for exactly the same versions *)
  && match fe_type e with
     | ETRequest => existsb (fun f => String.eqb (fe_api f) (fe_api e) && etype_eqb (fe_type f) ETResponse
                                      && Z.eqb (fe_version f) (fe_version e)) es
     | ETResponse => existsb (fun f => String.eqb (fe_api f) (fe_api e) && etype_eqb (fe_type f) ETRequest
                                       && Z.eqb (fe_version f) (fe_version e)) es
     | _ => true
     end
  (* requests and responses carry a key, headers and data do not *)
  && match fe_type e, fe_key e with
     | ETRequest, Some k | ETResponse, Some k => (0 <=? k)%Z
     | ETRequest, None | ETResponse, None => false
     | _, None => true
     | _, Some _ => false
     end.

Definition c14_ok (cs : list rclass) : bool :=
  forallb class_attrs_ok cs && forallb (module_ok cs) cs
  && (let es := top_entries cs in forallb (family_ok es) es).

(* ---------- C08: header rule and pairing ---------- *)
Definition header_is (cs : list rclass) (h : option nat) (kind : string) (version : Z) : bool :=
  match h with
  | None => false
  | Some i => match nth_error cs i with
              | None => false
              | Some hc =>
                  String.eqb (rc_module hc)
                    ("kio.schema." ++ kind ++ "_header.v" ++ (if Z.eqb version 0 then "0" else if Z.eqb version 1 then "1" else "2") ++ ".header")
                  && opt_z_eqb (rc_version hc) (Some version)
                  && match rc_type hc with Some ETHeader => true | _ => false end
              end
  end.

(* Kafka's ApiMessageTypeGenerator rule *)
Definition request_header_version (key version : Z) (flexible : bool) : Z :=
  if Z.eqb key 7 && Z.eqb version 0 then 0 else if flexible then 2 else 1.
Definition response_header_version (key : Z) (flexible : bool) : Z :=
  if Z.eqb key 18 then 0 else if flexible then 1 else 0.

(* applies to the payload classes and to their nested classes (same module) *)
Definition header_rule_ok (cs : list rclass) (c : rclass) : bool :=
  match parse_module (rc_module c), rc_version c, rc_flexible c with
  | Some p, Some v, Some f =>
      if String.eqb (mp_type p) "request" then
        match rc_api_key c with
        | Some k => header_is cs (rc_header c) "request" (request_header_version k v f)
        | None => false
        end
      else if String.eqb (mp_type p) "response" then
        match rc_api_key c with
        | Some k => header_is cs (rc_header c) "response" (response_header_version k f)
        | None => false
        end
      else match rc_header c with None => true | Some _ => false end
  | _, _, _ => false
  end.

(* ---------- index model (kio.index) ---------- *)
Fixpoint assoc_z {A} (k : Z) (l : list (Z * A)) : option A :=
  match l with [] => None | (k', a) :: tl => if Z.eqb k k' then Some a else assoc_z k tl end.
Fixpoint assoc_s {A} (k : string) (l : list (string * A)) : option A :=
  match l with [] => None | (k', a) :: tl => if String.eqb k k' then Some a else assoc_s k tl end.
Fixpoint assoc_t {A} (k : etype) (l : list (etype * A)) : option A :=
  match l with [] => None | (k', a) :: tl => if etype_eqb k k' then Some a else assoc_t k tl end.

Inductive ierr := UnknownAPIKey | UnknownEntity | ImportFailure.
Inductive ires (A : Type) := IOk (a : A) | IErr (e : ierr).
Arguments IOk {A}. Arguments IErr {A}.

Definition name_from_key (s : schema) (k : Z) : ires string :=
  match assoc_z k (s_api_key_map s) with Some n => IOk n | None => IErr UnknownAPIKey end.

Definition entity_path (s : schema) (name : string) (version : Z) (t : etype) : ires string :=
  match assoc_s name (s_name_map s) with
  | None => IErr UnknownEntity
  | Some vm => match assoc_z version vm with
               | None => IErr UnknownEntity
               | Some tm => match assoc_t t tm with
                            | None => IErr UnknownEntity
                            | Some p => IOk p
                            end
               end
  end.

(* resolve_name("module:Qual"): the class of that module and qualified name *)
Definition resolve (s : schema) (path : string) : ires nat :=
  match split ":" path with
  | [m; q] =>
      match find (fun ic => String.eqb (rc_module (snd ic)) m && String.eqb (rc_name (snd ic)) q)
                 (combine (seq 0 (List.length (s_classes s))) (s_classes s)) with
      | Some (i, _) => IOk i
      | None => IErr ImportFailure
      end
  | _ => IErr ImportFailure
  end.

Definition ibind {A B} (r : ires A) (f : A -> ires B) : ires B :=
  match r with IOk a => f a | IErr e => IErr e end.

Definition load_entity_schema (s : schema) (name : string) (version : Z) (t : etype) : ires nat :=
  ibind (entity_path s name version t) (resolve s).
Definition load_payload_schema (s : schema) (key version : Z) (t : etype) : ires nat :=
  ibind (name_from_key s key) (fun n => load_entity_schema s n version t).
Definition load_response_schema s key version := load_payload_schema s key version ETResponse.
Definition load_request_schema s key version := load_payload_schema s key version ETRequest.

Definition attrs_of (s : schema) (i : nat) : option (Z * Z) :=
  match nth_error (s_classes s) i with
  | Some c => match rc_api_key c, rc_version c with Some k, Some v => Some (k, v) | _, _ => None end
  | None => None
  end.
Definition load_response_from_request (s : schema) (i : nat) : ires nat :=
  match attrs_of s i with Some (k, v) => load_response_schema s k v | None => IErr ImportFailure end.
Definition load_request_from_response (s : schema) (i : nat) : ires nat :=
  match attrs_of s i with Some (k, v) => load_request_schema s k v | None => IErr ImportFailure end.

Definition ires_is {A} (eqb : A -> A -> bool) (r : ires A) (a : A) : bool :=
  match r with IOk x => eqb x a | IErr _ => false end.

(* C08 pairing: for a request class i, its response exists, shares key, version and flexibility,
   and maps back to i; dually for responses *)
Definition pair_ok (s : schema) (ic : nat * rclass) : bool :=
  let (i, c) := ic in
  match rc_type c with
  | Some ETRequest =>
      match load_response_from_request s i with
      | IOk j => match nth_error (s_classes s) j with
                 | Some d => match rc_type d with Some ETResponse => true | _ => false end
                             && opt_z_eqb (rc_api_key d) (rc_api_key c) && opt_z_eqb (rc_version d) (rc_version c)
                             && opt_bool_eqb (rc_flexible d) (rc_flexible c)
                             && ires_is Nat.eqb (load_request_from_response s j) i
                 | None => false
                 end
      | IErr _ => false
      end
  | Some ETResponse =>
      match load_request_from_response s i with
      | IOk j => match nth_error (s_classes s) j with
                 | Some d => match rc_type d with Some ETRequest => true | _ => false end
                             && opt_z_eqb (rc_api_key d) (rc_api_key c) && opt_z_eqb (rc_version d) (rc_version c)
                             && opt_bool_eqb (rc_flexible d) (rc_flexible c)
                             && ires_is Nat.eqb (load_response_from_request s j) i
                 | None => false
                 end
      | IErr _ => false
      end
  | _ => true
  end.

Definition indexed {A} (l : list A) : list (nat * A) := combine (seq 0 (List.length l)) l.

Definition c08_ok (s : schema) (n : nat) : bool :=
  let cs := firstn n (s_classes s) in
  forallb (header_rule_ok (s_classes s)) cs && forallb (pair_ok s) (indexed cs).

(* ---------- C09: the index ---------- *)
(* every top-level class is listed under (api, version, type) with exactly module:qualname *)
Definition listed_ok (s : schema) (ic : nat * rclass) : bool :=
  let (i, c) := ic in
  if is_top c then
    match parse_module (rc_module c), rc_type c with
    | Some p, Some t =>
        match entity_path s (mp_api p) (mp_version p) t with
        | IOk path => String.eqb path (rc_module c ++ ":" ++ rc_name c)
                      && ires_is Nat.eqb (resolve s path) i
        | IErr _ => false
        end
        (* payloads are reachable through their key as well *)
        && match rc_api_key c with
           | Some k => ires_is String.eqb (name_from_key s k) (mp_api p)
           | None => true
           end
    | _, _ => false
    end
  else true.

(* every index entry resolves to a top-level class of that api/version/type (no stale entry) *)
Definition entry_ok (s : schema) (n : nat) (name : string) (version : Z) (te : etype * string) : bool :=
  match resolve s (snd te) with
  | IOk i => Nat.ltb i n &&
      match nth_error (s_classes s) i with
      | Some c => is_top c
                  && match rc_type c with Some t => etype_eqb t (fst te) | None => false end
                  && match parse_module (rc_module c) with
                     | Some p => String.eqb (mp_api p) name && Z.eqb (mp_version p) version
                     | None => false
                     end
      | None => false
      end
  | IErr _ => false
  end.

Definition name_map_ok (s : schema) (n : nat) : bool :=
  forallb (fun nv => forallb (fun vt => forallb (entry_ok s n (fst nv) (fst vt)) (snd vt)
                                        && negb (Nat.eqb (List.length (snd vt)) 0)) (snd nv)
                     && nodup_z (map fst (snd nv))) (s_name_map s)
  && str_nodup (map fst (s_name_map s)).

(* keys <-> names one to one; every keyed API name has entries; every key belongs to a class *)
Definition key_map_ok (s : schema) : bool :=
  nodup_z (map fst (s_api_key_map s)) && str_nodup (map snd (s_api_key_map s))
  && forallb (fun kn => match assoc_s (snd kn) (s_name_map s) with Some _ => true | None => false end
                        && existsb (fun c => opt_z_eqb (rc_api_key c) (Some (fst kn))) (s_classes s))
             (s_api_key_map s).

Definition c09_ok (s : schema) (n : nat) : bool :=
  forallb (listed_ok s) (indexed (firstn n (s_classes s))) && name_map_ok s n && key_map_ok s.

(* ---------- C13: field coherence ---------- *)
Definition kafka_prim_table : list (string * string) :=
  [("int8", "kio.static.primitive.i8"); ("int16", "kio.static.primitive.i16");
   ("int32", "kio.static.primitive.i32"); ("int64", "kio.static.primitive.i64");
   ("uint8", "kio.static.primitive.u8"); ("uint16", "kio.static.primitive.u16");
   ("uint32", "kio.static.primitive.u32"); ("uint64", "kio.static.primitive.u64");
   ("float64", "kio.static.primitive.f64"); ("string", "builtins.str"); ("bytes", "builtins.bytes");
   ("records", "kio.static.primitive.Records"); ("uuid", "uuid.UUID"); ("bool", "builtins.bool");
   ("error_code", "kio.schema.errors.ErrorCode"); ("timedelta_i32", "kio.static.primitive.i32Timedelta");
   ("timedelta_i64", "kio.static.primitive.i64Timedelta"); ("datetime_i64", "kio.static.primitive.TZAware")].

(* the most specific known primitive in the MRO of an annotation type *)
Definition base_prim (prims : list primty) (q : string) : option string :=
  find (fun m => existsb (fun kp => String.eqb (snd kp) m) kafka_prim_table) (mro_of prims q).

Definition nullable_kafka (kt : string) : bool :=
  str_mem kt ["string"; "bytes"; "records"; "uuid"; "datetime_i64"].

(* the non-None member of an optional annotation, and whether None was there *)
Definition strip_none (a : ann) : ann * bool :=
  match a with
  | TUnion true [x; TNone] => (x, true)
  | TUnion true [TNone; x] => (x, true)
  | _ => (a, false)
  end.

Definition interval_of (ivs : list interval) (q : string) : option (Z * Z) :=
  match find (fun iv => String.eqb (iv_name iv) q) ivs with
  | Some iv => Some (iv_low iv, iv_high iv)
  | None => None
  end.

(* the bounds of the most specific interval type in an MRO *)
Fixpoint find_interval (ivs : list interval) (mro : list string) : option (Z * Z) :=
  match mro with
  | [] => None
  | q :: tl => match interval_of ivs q with Some b => Some b | None => find_interval ivs tl end
  end.

(* does a default inhabit a primitive annotation type? *)
Definition default_inhabits_prim (s : schema) (q : string) (v : value) : bool :=
  match base_prim (s_prims s) q, v with
  | Some b, VInt z =>
      match find_interval (s_intervals s) (mro_of (s_prims s) q) with
      | Some (lo, hi) => (lo <=? z)%Z && (z <=? hi)%Z
      | None => String.eqb b "kio.schema.errors.ErrorCode" && existsb (fun e => Z.eqb (fst e) z) (s_error_codes s)
      end
  | Some b, VStr _ => String.eqb b "builtins.str"
  | Some b, VBytes _ => String.eqb b "builtins.bytes" || String.eqb b "kio.static.primitive.Records"
  | Some b, VBool _ => String.eqb b "builtins.bool"
  | Some b, VF64 bits => String.eqb b "kio.static.primitive.f64"
                         && negb (Z.eqb (Z.land (Z.shiftr bits 52) 2047) 2047)
  | Some b, VUuid _ => String.eqb b "uuid.UUID"
  | Some b, VDur us => (String.eqb b "kio.static.primitive.i32Timedelta" && (-2147483648000 <=? us)%Z && (us <=? 2147483647000)%Z)
                       || String.eqb b "kio.static.primitive.i64Timedelta"
  | Some b, VTime us => String.eqb b "kio.static.primitive.TZAware" && (0 <=? us)%Z && Z.eqb (us mod 1000) 0
  | _, _ => false
  end.

(* does an entity value inhabit class j (field by field, nested entities by rank)? *)
Fixpoint inhabits_class (s : schema) (rank : nat) (j : nat) (v : value) : bool :=
  match rank with
  | O => false
  | S r =>
      match nth_error (s_classes s) j, v with
      | Some c, VEnt vs =>
          Nat.eqb (List.length vs) (List.length (rc_fields c))
          && forallb (fun fv =>
               let (f, x) := (fv : rfield * value) in
               let (outer, outer_null) := strip_none (rf_ann f) in
               match outer, x with
               | _, VNull => outer_null
               | TPrim q, _ => default_inhabits_prim s q x
               | TClass k, _ => inhabits_class s r k x
               | TTuple [TPrim q; TEllipsis], VArr l => forallb (default_inhabits_prim s q) l
               | TTuple [TClass k; TEllipsis], VArr l => forallb (inhabits_class s r k) l
               | _, _ => false
               end) (combine (rc_fields c) vs)
      | _, _ => false
      end
  end.

Definition coherent_field (s : schema) (i : nat) (flexible : bool) (f : rfield) : bool :=
  let (outer, outer_null) := strip_none (rf_ann f) in
  (* arrays are tuple[T, ...]; items may be `T | None` *)
  let '(item, is_array) := match outer with
                           | TTuple [x; TEllipsis] => (x, true)
                           | other => (other, false)
                           end in
  let (base, item_null) := strip_none item in
  let nullable := if is_array then item_null else outer_null in
  (* tag: a non-negative integer, only on flexible classes *)
  (match rf_tag f with
   | None => true
   | Some (MInt t) => flexible && (0 <=? t)%Z && (t <? 2 ^ 31)%Z
   | Some _ => false
   end)
  && match base with
     | TPrim q =>
         match rf_kafka f with
         | Some (MStr kt) =>
             (* the kafka type names a known primitive that matches the declared type *)
             match assoc_s kt kafka_prim_table, base_prim (s_prims s) q with
             | Some expected, Some actual => String.eqb expected actual
             | _, _ => false
             end
             (* only types with a wire-level null are nullable; arrays of primitives: not null *)
             && (if nullable then nullable_kafka kt else true)
             && (if is_array then negb outer_null else true)
             (* defaults inhabit the declared type *)
             && match rf_default f with
                | None => true
                | Some VNull => if is_array then false else outer_null
                | Some (VArr l) => is_array && forallb (default_inhabits_prim s q) l
                | Some v => negb is_array && default_inhabits_prim s q v
                end
         | _ => false
         end
     | TClass j =>
         Nat.ltb j i
         && match rf_kafka f with None => true | Some _ => false end
         && negb item_null
         && match rf_default f with
            | None => true
            | Some VNull => outer_null
            | Some (VArr []) => is_array
            | Some (VEnt vs) => negb is_array && opt_nat_eqb (rf_default_cls f) (Some j)
                                && inhabits_class s (S j) j (VEnt vs)
            | Some _ => false
            end
     | _ => false
     end.

Definition tags_nodup (c : rclass) : bool :=
  nodup_z (flat_map (fun f => match rf_tag f with Some (MInt t) => [t] | _ => [] end) (rc_fields c)).

Definition coherent_class (s : schema) (ic : nat * rclass) : bool :=
  let (i, c) := ic in
  match rc_flexible c with
  | Some fl => forallb (coherent_field s i fl) (rc_fields c) && tags_nodup c
               && str_nodup (map rf_name (rc_fields c))
  | None => false
  end.

(* a reader and a writer can be derived from the description alone, and the plans are
   well-formed (so the codec theorems apply) *)
Definition derivable (s : schema) (n : nat) : bool :=
  all_ok (firstn n (derive_all s)) && wf_env (firstn n (oks empty_plan2 (derive_all s))).

Definition c13_ok (s : schema) (n : nat) : bool :=
  forallb (coherent_class s) (indexed (firstn n (s_classes s))) && derivable s n.

(* ---------- C15: immutable value objects ---------- *)
Definition immutable_prims : list string :=
  ["builtins.int"; "builtins.str"; "builtins.bytes"; "builtins.float"; "builtins.bool";
   "uuid.UUID"; "datetime.timedelta"; "datetime.datetime"; "kio.schema.errors.ErrorCode"].

Fixpoint deep_immutable (prims : list primty) (i : nat) (a : ann) : bool :=
  match a with
  | TPrim q => existsb (fun m => str_mem m immutable_prims) (mro_of prims q)
  | TClass j => Nat.ltb j i          (* a class of lower index, itself checked to be frozen *)
  | TNone => true
  | TUnion _ args => forallb (deep_immutable prims i) args
  | TTuple [x; TEllipsis] => deep_immutable prims i x
  | _ => false
  end.

Definition value_object_class (s : schema) (ic : nat * rclass) : bool :=
  let (i, c) := ic in
  let p := rc_params c in
  dp_frozen p && dp_slots p && dp_eq p && negb (dp_order p) && negb (dp_unsafe_hash p)
  && negb (rc_has_dict c)
  && match rc_slots c with
     | Some sl => str_list_eqb sl (map rf_name (rc_fields c))
     | None => false
     end
  && forallb (fun f => deep_immutable (s_prims s) i (rf_ann f)) (rc_fields c).

Definition c15_ok (s : schema) : bool := forallb (value_object_class s) (indexed (s_classes s)).

(* ---------- diagnosis: the offending elements, as module:qualname strings ---------- *)
Infix "++l" := (@List.app string) (at level 60, right associativity).
Definition cname (c : rclass) : string := rc_module c ++ ":" ++ rc_name c.

Definition bad_c14 (cs : list rclass) : list string :=
  map (fun c => "attrs " ++ cname c) (filter (fun c => negb (class_attrs_ok c)) cs)
  ++l map (fun c => "module " ++ cname c) (filter (fun c => negb (module_ok cs c)) cs)
  ++l (let es := top_entries cs in
      map (fun e => "family " ++ fe_api e ++ ":" ++ etype_name (fe_type e))
          (filter (fun e => negb (family_ok es e)) es)).

Definition bad_c08 (s : schema) (n : nat) : list string :=
  let cs := firstn n (s_classes s) in
  map (fun c => "header " ++ cname c) (filter (fun c => negb (header_rule_ok (s_classes s) c)) cs)
  ++l map (fun ic => "pairing " ++ cname (snd ic)) (filter (fun ic => negb (pair_ok s ic)) (indexed cs)).

Definition bad_c09 (s : schema) (n : nat) : list string :=
  map (fun ic => "unlisted " ++ cname (snd ic))
      (filter (fun ic => negb (listed_ok s ic)) (indexed (firstn n (s_classes s))))
  ++l flat_map (fun nv => flat_map (fun vt =>
        map (fun te => "stale " ++ fst nv ++ ":" ++ snd te)
            (filter (fun te => negb (entry_ok s n (fst nv) (fst vt) te)) (snd vt))) (snd nv)) (s_name_map s)
  ++l (if name_map_ok s n then [] else ["name_map"])
  ++l (if key_map_ok s then [] else ["api_key_map"]).

Definition bad_c13 (s : schema) (n : nat) : list string :=
  flat_map (fun ic =>
    match rc_flexible (snd ic) with
    | Some fl => map (fun f => "field " ++ cname (snd ic) ++ "." ++ rf_name f)
                     (filter (fun f => negb (coherent_field s (fst ic) fl f)) (rc_fields (snd ic)))
                 ++l (if tags_nodup (snd ic) && str_nodup (map rf_name (rc_fields (snd ic))) then []
                     else ["tags " ++ cname (snd ic)])
    | None => ["flexible " ++ cname (snd ic)]
    end) (indexed (firstn n (s_classes s)))
  ++l map (fun ic => "derive " ++ cname (fst ic))
         (filter (fun ic => negb (is_ok (snd ic))) (combine (firstn n (s_classes s)) (firstn n (derive_all s))))
  ++l (if derivable s n then [] else ["wf_env"]).

Definition bad_c15 (s : schema) : list string :=
  map (fun ic => "class " ++ cname (snd ic))
      (filter (fun ic => negb (value_object_class s ic)) (indexed (s_classes s))).

(* ---------- executable comparison for the index correspondence (C09) ---------- *)
Record icase := { ic_by_key : bool; ic_name : string; ic_key : Z; ic_version : Z; ic_type : etype;
                  ic_expect : Z }.   (* class index, or -1 UnknownAPIKey, -2 UnknownEntity, -3 other *)
Definition ires_code (r : ires nat) : Z :=
  match r with IOk j => Z.of_nat j | IErr UnknownAPIKey => (-1)%Z | IErr UnknownEntity => (-2)%Z
             | IErr ImportFailure => (-3)%Z end.
Definition check_icase (s : schema) (k : icase) : bool :=
  Z.eqb (ires_code (if ic_by_key k then load_payload_schema s (ic_key k) (ic_version k) (ic_type k)
                    else load_entity_schema s (ic_name k) (ic_version k) (ic_type k))) (ic_expect k).
Fixpoint ifailing_from (s : schema) (i : nat) (l : list icase) : list nat :=
  match l with
  | [] => []
  | x :: tl => if check_icase s x then ifailing_from s (S i) tl else i :: ifailing_from s (S i) tl
  end.
