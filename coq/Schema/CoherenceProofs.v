(* What a `true` of the boolean predicates of Schema/Coherence.v MEANS, as propositions.
   The booleans are evaluated by vm_compute on the translated schema; these lemmas connect them
   to the text of the properties C08, C09, C14. *)
From Coq Require Import ZArith List Bool String Ascii Lia.
From KioV Require Import Base.Res Codec.Value Codec.PrimCodec Schema.Raw Schema.Introspect
  Schema.Strings Codec.Typed Schema.Coherence.
From KioV Require Gen.Gen.
Import ListNotations.

(* ------------------------------------------------------------------ *)
(* generic facts                                                       *)
(* ------------------------------------------------------------------ *)
Lemma etype_eqb_eq : forall a b, etype_eqb a b = true <-> a = b.
Proof. destruct a, b; simpl; split; intro H; try reflexivity; discriminate. Qed.

Lemma etype_eqb_refl : forall a, etype_eqb a a = true.
Proof. intro a; apply etype_eqb_eq; reflexivity. Qed.

Lemma str_mem_In : forall x l, str_mem x l = true <-> In x l.
Proof.
  induction l as [|y l IH]; simpl.
  - split; [discriminate | tauto].
  - rewrite orb_true_iff, String.eqb_eq, IH. intuition congruence.
Qed.

Lemma existsb_zeqb_In : forall x l, existsb (Z.eqb x) l = true <-> In x l.
Proof.
  intros x l. rewrite existsb_exists. split.
  - intros [y [Hy E]]. apply Z.eqb_eq in E. subst. exact Hy.
  - intro H. exists x. split; [exact H | apply Z.eqb_refl].
Qed.

Lemma opt_z_eqb_eq : forall a b, opt_z_eqb a b = true <-> a = b.
Proof.
  intros [x|] [y|]; simpl; try (split; congruence).
  rewrite Z.eqb_eq. split; congruence.
Qed.

Lemma opt_bool_eqb_eq : forall a b, opt_bool_eqb a b = true <-> a = b.
Proof.
  intros [x|] [y|]; simpl; try (split; congruence).
  rewrite Bool.eqb_true_iff. split; congruence.
Qed.

Lemma ires_is_nat : forall r i, ires_is Nat.eqb r i = true <-> r = IOk i.
Proof.
  intros [x|e] i; simpl.
  - rewrite Nat.eqb_eq. split; congruence.
  - split; discriminate.
Qed.

Lemma ires_is_str : forall r i, ires_is String.eqb r i = true <-> r = IOk i.
Proof.
  intros [x|e] i; simpl.
  - rewrite String.eqb_eq. split; congruence.
  - split; discriminate.
Qed.

(* ---- the generic association-list facts ---- *)
Lemma assoc_z_in : forall A k (l : list (Z * A)) a, assoc_z k l = Some a -> In (k, a) l.
Proof.
  intros A k l a. induction l as [|[k' a'] l IH]; simpl; intro H.
  - discriminate.
  - destruct (Z.eqb_spec k k') as [E|E].
    + left. congruence.
    + right. auto.
Qed.

Lemma assoc_z_nodup : forall A k (l : list (Z * A)) a,
  nodup_z (map fst l) = true -> In (k, a) l -> assoc_z k l = Some a.
Proof.
  intros A k l a. induction l as [|[k' a'] l IH]; simpl; intros Hnd Hin.
  - contradiction.
  - apply andb_true_iff in Hnd. destruct Hnd as [Hnot Hnd].
    destruct Hin as [E|Hin].
    + inversion E; subst. rewrite Z.eqb_refl. reflexivity.
    + destruct (Z.eqb_spec k k') as [E|E].
      * subst k'. exfalso.
        assert (Hm : existsb (Z.eqb k) (map fst l) = true).
        { apply existsb_zeqb_In. change k with (fst (k, a)). apply in_map. exact Hin. }
        rewrite Hm in Hnot. discriminate.
      * auto.
Qed.

Lemma assoc_z_none_not_in : forall A k (l : list (Z * A)), assoc_z k l = None -> forall a, ~ In (k, a) l.
Proof.
  intros A k l. induction l as [|[k' a'] l IH]; simpl; intros H a Hin.
  - exact Hin.
  - destruct (Z.eqb_spec k k') as [E|E]; [discriminate|].
    destruct Hin as [E'|Hin]; [congruence | eapply IH; eauto].
Qed.

Lemma assoc_s_in : forall A k (l : list (string * A)) a, assoc_s k l = Some a -> In (k, a) l.
Proof.
  intros A k l a. induction l as [|[k' a'] l IH]; simpl; intro H.
  - discriminate.
  - destruct (String.eqb_spec k k') as [E|E].
    + left. congruence.
    + right. auto.
Qed.

Lemma assoc_t_in : forall A k (l : list (etype * A)) a, assoc_t k l = Some a -> In (k, a) l.
Proof.
  intros A k l a. induction l as [|[k' a'] l IH]; simpl; intro H.
  - discriminate.
  - destruct (etype_eqb k k') eqn:E.
    + apply etype_eqb_eq in E. left. congruence.
    + right. auto.
Qed.

(* ------------------------------------------------------------------ *)
(* C09: the lookup model                                               *)
(* ------------------------------------------------------------------ *)
Lemma name_from_key_ok : forall s k n,
  name_from_key s k = IOk n <-> assoc_z k (s_api_key_map s) = Some n.
Proof.
  intros s k n. unfold name_from_key.
  destruct (assoc_z k (s_api_key_map s)); split; congruence.
Qed.

Lemma name_from_key_unknown : forall s k,
  assoc_z k (s_api_key_map s) = None -> name_from_key s k = IErr UnknownAPIKey.
Proof. intros s k H. unfold name_from_key. rewrite H. reflexivity. Qed.

(* the converse: UnknownAPIKey is raised only for a key that is not in the map *)
Lemma name_from_key_err : forall s k e,
  name_from_key s k = IErr e -> e = UnknownAPIKey /\ assoc_z k (s_api_key_map s) = None.
Proof.
  intros s k e. unfold name_from_key.
  destruct (assoc_z k (s_api_key_map s)); intro H; [discriminate|]. split; congruence.
Qed.

Lemma load_payload_unknown_key : forall s k v t, assoc_z k (s_api_key_map s) = None ->
  load_payload_schema s k v t = IErr UnknownAPIKey.
Proof.
  intros s k v t H. unfold load_payload_schema. rewrite (name_from_key_unknown s k H). reflexivity.
Qed.

Lemma load_payload_known_key : forall s k v t n, assoc_z k (s_api_key_map s) = Some n ->
  load_payload_schema s k v t = load_entity_schema s n v t.
Proof.
  intros s k v t n H. unfold load_payload_schema.
  apply name_from_key_ok in H. rewrite H. reflexivity.
Qed.

Lemma entity_path_unknown : forall s name v t,
  (forall vm, assoc_s name (s_name_map s) = Some vm ->
     forall tm, assoc_z v vm = Some tm -> assoc_t t tm = None) ->
  entity_path s name v t = IErr UnknownEntity.
Proof.
  intros s name v t H. unfold entity_path.
  destruct (assoc_s name (s_name_map s)) as [vm|]; [|reflexivity].
  destruct (assoc_z v vm) as [tm|] eqn:Ev; [|reflexivity].
  rewrite (H vm eq_refl tm Ev). reflexivity.
Qed.

Lemma entity_path_ok : forall s name v t p, entity_path s name v t = IOk p <->
  exists vm tm, assoc_s name (s_name_map s) = Some vm /\ assoc_z v vm = Some tm /\ assoc_t t tm = Some p.
Proof.
  intros s name v t p. unfold entity_path. split.
  - destruct (assoc_s name (s_name_map s)) as [vm|]; [|discriminate].
    destruct (assoc_z v vm) as [tm|] eqn:Ev; [|discriminate].
    destruct (assoc_t t tm) as [q|] eqn:Et; [|discriminate].
    intro H. exists vm, tm. repeat split; congruence.
  - intros [vm [tm [H1 [H2 H3]]]]. rewrite H1, H2, H3. reflexivity.
Qed.

(* the only error entity_path raises is UnknownEntity; load_entity_schema adds ImportFailure only *)
Lemma entity_path_err : forall s name v t e, entity_path s name v t = IErr e -> e = UnknownEntity.
Proof.
  intros s name v t e. unfold entity_path.
  destruct (assoc_s name (s_name_map s)) as [vm|]; [|congruence].
  destruct (assoc_z v vm) as [tm|]; [|congruence].
  destruct (assoc_t t tm); congruence.
Qed.

Lemma load_entity_unknown : forall s name v t,
  (forall vm, assoc_s name (s_name_map s) = Some vm ->
     forall tm, assoc_z v vm = Some tm -> assoc_t t tm = None) ->
  load_entity_schema s name v t = IErr UnknownEntity.
Proof.
  intros s name v t H. unfold load_entity_schema. rewrite (entity_path_unknown s name v t H). reflexivity.
Qed.

(* keys map one-to-one to names when key_map_ok holds *)
Lemma str_nodup_snd_inj : forall (l : list (Z * string)) k1 k2 n,
  str_nodup (map snd l) = true -> In (k1, n) l -> In (k2, n) l -> k1 = k2.
Proof.
  induction l as [|[k' n'] l IH]; simpl; intros k1 k2 n Hnd H1 H2.
  - contradiction.
  - apply andb_true_iff in Hnd. destruct Hnd as [Hnot Hnd].
    assert (Hcontra : forall k, (k', n') = (k, n) -> forall k0, In (k0, n) l -> False).
    { intros k E k0 Hin. inversion E; subst.
      assert (Hm : str_mem n (map snd l) = true).
      { apply str_mem_In. change n with (snd (k0, n)). apply in_map. exact Hin. }
      rewrite Hm in Hnot. discriminate. }
    destruct H1 as [E1|H1], H2 as [E2|H2].
    + congruence.
    + exfalso. eapply Hcontra; eauto.
    + exfalso. eapply Hcontra; eauto.
    + eapply IH; eauto.
Qed.

Lemma key_map_injective : forall s k1 k2 n, key_map_ok s = true ->
  name_from_key s k1 = IOk n -> name_from_key s k2 = IOk n -> k1 = k2.
Proof.
  intros s k1 k2 n Hk H1 H2. unfold key_map_ok in Hk.
  apply andb_true_iff in Hk. destruct Hk as [Hk _].
  apply andb_true_iff in Hk. destruct Hk as [_ Hnd].
  apply name_from_key_ok, assoc_z_in in H1.
  apply name_from_key_ok, assoc_z_in in H2.
  eapply str_nodup_snd_inj; eauto.
Qed.

(* and a key has one name only (functionality; trivially, the model is a function), while
   membership of the map decides the lookup when key_map_ok holds *)
Lemma key_map_lookup : forall s k n, key_map_ok s = true ->
  In (k, n) (s_api_key_map s) -> name_from_key s k = IOk n.
Proof.
  intros s k n Hk Hin. unfold key_map_ok in Hk.
  apply andb_true_iff in Hk. destruct Hk as [Hk _].
  apply andb_true_iff in Hk. destruct Hk as [Hnd _].
  apply name_from_key_ok. apply assoc_z_nodup; assumption.
Qed.

(* every listed top-level class is found by its (api, version, type) and resolves to itself *)
Lemma listed_ok_spec : forall s i c p t, listed_ok s (i, c) = true -> is_top c = true ->
  parse_module (rc_module c) = Some p -> rc_type c = Some t ->
  load_entity_schema s (mp_api p) (mp_version p) t = IOk i.
Proof.
  intros s i c p t H Htop Hp Ht. unfold listed_ok in H.
  rewrite Htop, Hp, Ht in H.
  apply andb_true_iff in H. destruct H as [H _].
  unfold load_entity_schema.
  destruct (entity_path s (mp_api p) (mp_version p) t) as [path|e]; [|discriminate].
  apply andb_true_iff in H. destruct H as [_ H].
  apply ires_is_nat in H. simpl. exact H.
Qed.

(* the index entry is exactly "module:qualname" *)
Lemma listed_ok_path : forall s i c p t, listed_ok s (i, c) = true -> is_top c = true ->
  parse_module (rc_module c) = Some p -> rc_type c = Some t ->
  entity_path s (mp_api p) (mp_version p) t = IOk (rc_module c ++ ":" ++ rc_name c)%string.
Proof.
  intros s i c p t H Htop Hp Ht. unfold listed_ok in H.
  rewrite Htop, Hp, Ht in H.
  apply andb_true_iff in H. destruct H as [H _].
  destruct (entity_path s (mp_api p) (mp_version p) t) as [path|e]; [|discriminate].
  apply andb_true_iff in H. destruct H as [H _].
  apply String.eqb_eq in H. congruence.
Qed.

(* a keyed top-level class is reachable through its key *)
Lemma listed_ok_by_key : forall s i c p t k, listed_ok s (i, c) = true -> is_top c = true ->
  parse_module (rc_module c) = Some p -> rc_type c = Some t -> rc_api_key c = Some k ->
  load_payload_schema s k (mp_version p) t = IOk i.
Proof.
  intros s i c p t k H Htop Hp Ht Hk.
  pose proof (listed_ok_spec s i c p t H Htop Hp Ht) as Hl.
  unfold listed_ok in H. rewrite Htop, Hp, Ht, Hk in H.
  apply andb_true_iff in H. destruct H as [_ H].
  apply ires_is_str in H. unfold load_payload_schema. rewrite H. simpl. exact Hl.
Qed.

(* ------------------------------------------------------------------ *)
(* C08                                                                 *)
(* ------------------------------------------------------------------ *)
Lemma request_header_rule : forall k v f,
  request_header_version k v f = (if (Z.eqb k 7 && Z.eqb v 0)%bool then 0 else if f then 2 else 1)%Z.
Proof. reflexivity. Qed.

Lemma request_header_v0_only_controlled_shutdown_v0 : forall k v f,
  request_header_version k v f = 0%Z <-> (k = 7 /\ v = 0)%Z.
Proof.
  intros k v f. unfold request_header_version. split.
  - destruct (Z.eqb_spec k 7), (Z.eqb_spec v 0); simpl; try (split; assumption);
      destruct f; discriminate.
  - intros [-> ->]. reflexivity.
Qed.

Lemma response_header_rule : forall k f,
  response_header_version k f = (if Z.eqb k 18 then 0 else if f then 1 else 0)%Z.
Proof. reflexivity. Qed.

Lemma response_header_v1_iff : forall k f,
  response_header_version k f = 1%Z <-> (k <> 18%Z /\ f = true).
Proof.
  intros k f. unfold response_header_version. split.
  - destruct (Z.eqb_spec k 18); [discriminate|]. destruct f; [auto | discriminate].
  - intros [Hk ->]. destruct (Z.eqb_spec k 18); [contradiction | reflexivity].
Qed.

(* the header versions that the rule can produce *)
Lemma request_header_range : forall k v f,
  (request_header_version k v f = 0 \/ request_header_version k v f = 1 \/ request_header_version k v f = 2)%Z.
Proof.
  intros k v f. unfold request_header_version.
  destruct (Z.eqb k 7 && Z.eqb v 0)%bool; [|destruct f]; auto.
Qed.

Lemma response_header_range : forall k f,
  (response_header_version k f = 0 \/ response_header_version k f = 1)%Z.
Proof.
  intros k f. unfold response_header_version. destruct (Z.eqb k 18); [|destruct f]; auto.
Qed.

(* the same rule as the generator model's header_of (Gen/Gen.v) *)
Lemma opt_is_7 : forall k, match Some k with Some 7%Z => true | _ => false end = Z.eqb k 7.
Proof.
  intro k. destruct (Z.eqb_spec k 7) as [->|N]; [reflexivity|].
  destruct k as [|p|p]; try reflexivity.
  repeat (destruct p as [p|p|]; try reflexivity). contradiction N; reflexivity.
Qed.

Lemma opt_is_18 : forall k, match Some k with Some 18%Z => true | _ => false end = Z.eqb k 18.
Proof.
  intro k. destruct (Z.eqb_spec k 18) as [->|N]; [reflexivity|].
  destruct k as [|p|p]; try reflexivity.
  repeat (destruct p as [p|p|]; try reflexivity). contradiction N; reflexivity.
Qed.

Lemma header_rules_agree_request : forall (d : Gen.defn) v flex k,
  Gen.d_kind d = "request"%string -> Gen.d_api_key d = Some k ->
  Gen.header_of d v flex =
  Some (("kio.schema.request_header.v"
         ++ (if Z.eqb (request_header_version k v flex) 0 then "0"
             else if Z.eqb (request_header_version k v flex) 1 then "1" else "2")
         ++ ".header")%string).
Proof.
  intros d v flex k Hk Ha. unfold Gen.header_of. rewrite Hk, Ha, opt_is_7.
  unfold request_header_version. rewrite (andb_comm (Z.eqb k 7)).
  destruct (Z.eqb v 0 && Z.eqb k 7)%bool; [reflexivity|].
  destruct flex; reflexivity.
Qed.

Lemma header_rules_agree_response : forall (d : Gen.defn) v flex k,
  Gen.d_kind d = "response"%string -> Gen.d_api_key d = Some k ->
  Gen.header_of d v flex =
  Some (("kio.schema.response_header.v"
         ++ (if Z.eqb (response_header_version k flex) 0 then "0"
             else if Z.eqb (response_header_version k flex) 1 then "1" else "2")
         ++ ".header")%string).
Proof.
  intros d v flex k Hk Ha. unfold Gen.header_of. rewrite Hk, Ha, opt_is_18.
  unfold response_header_version.
  destruct (Z.eqb k 18); [reflexivity|].
  destruct flex; reflexivity.
Qed.

(* the module name header_is compares against is the one header_of produces *)
Lemma header_is_spec : forall cs h kind version, header_is cs h kind version = true ->
  exists i hc, h = Some i /\ nth_error cs i = Some hc /\
    rc_module hc = ("kio.schema." ++ kind ++ "_header.v"
                    ++ (if Z.eqb version 0 then "0" else if Z.eqb version 1 then "1" else "2")
                    ++ ".header")%string /\
    rc_version hc = Some version /\ rc_type hc = Some ETHeader.
Proof.
  intros cs h kind version H. unfold header_is in H.
  destruct h as [i|]; [|discriminate].
  destruct (nth_error cs i) as [hc|] eqn:En; [|discriminate].
  apply andb_true_iff in H. destruct H as [H Ht].
  apply andb_true_iff in H. destruct H as [Hm Hv].
  apply String.eqb_eq in Hm.
  exists i, hc. repeat split; auto.
  - unfold opt_z_eqb in Hv. destruct (rc_version hc) as [x|]; [|discriminate].
    apply Z.eqb_eq in Hv. congruence.
  - destruct (rc_type hc) as [[]|]; try discriminate. reflexivity.
Qed.

(* pairing: mutual inverse *)
Lemma pair_ok_request : forall s i c, pair_ok s (i, c) = true -> rc_type c = Some ETRequest ->
  exists j d, load_response_from_request s i = IOk j /\ nth_error (s_classes s) j = Some d /\
              rc_type d = Some ETResponse /\ opt_z_eqb (rc_api_key d) (rc_api_key c) = true /\
              opt_bool_eqb (rc_flexible d) (rc_flexible c) = true /\
              load_request_from_response s j = IOk i.
Proof.
  intros s i c H Ht. unfold pair_ok in H. rewrite Ht in H.
  destruct (load_response_from_request s i) as [j|e]; [|discriminate].
  destruct (nth_error (s_classes s) j) as [d|] eqn:En; [|discriminate].
  repeat (apply andb_true_iff in H; let H' := fresh "H" in destruct H as [H H']).
  exists j, d. repeat split; auto.
  - destruct (rc_type d) as [[]|]; try discriminate. reflexivity.
  - apply ires_is_nat. assumption.
Qed.

Lemma pair_ok_response : forall s i c, pair_ok s (i, c) = true -> rc_type c = Some ETResponse ->
  exists j d, load_request_from_response s i = IOk j /\ nth_error (s_classes s) j = Some d /\
              rc_type d = Some ETRequest /\ opt_z_eqb (rc_api_key d) (rc_api_key c) = true /\
              opt_bool_eqb (rc_flexible d) (rc_flexible c) = true /\
              load_response_from_request s j = IOk i.
Proof.
  intros s i c H Ht. unfold pair_ok in H. rewrite Ht in H.
  destruct (load_request_from_response s i) as [j|e]; [|discriminate].
  destruct (nth_error (s_classes s) j) as [d|] eqn:En; [|discriminate].
  repeat (apply andb_true_iff in H; let H' := fresh "H" in destruct H as [H H']).
  exists j, d. repeat split; auto.
  - destruct (rc_type d) as [[]|]; try discriminate. reflexivity.
  - apply ires_is_nat. assumption.
Qed.

(* the partner also has the same version (pair_ok checks it; the statements above omit it) *)
Lemma pair_ok_version : forall s i c, pair_ok s (i, c) = true ->
  rc_type c = Some ETRequest \/ rc_type c = Some ETResponse ->
  exists j d, (if match rc_type c with Some ETRequest => true | _ => false end
               then load_response_from_request s i else load_request_from_response s i) = IOk j /\
              nth_error (s_classes s) j = Some d /\
              opt_z_eqb (rc_version d) (rc_version c) = true.
Proof.
  intros s i c H [Ht|Ht]; unfold pair_ok in H; rewrite Ht in H; rewrite Ht.
  - destruct (load_response_from_request s i) as [j|e]; [|discriminate].
    destruct (nth_error (s_classes s) j) as [d|] eqn:En; [|discriminate].
    repeat (apply andb_true_iff in H; let H' := fresh "H" in destruct H as [H H']).
    exists j, d. auto.
  - destruct (load_request_from_response s i) as [j|e]; [|discriminate].
    destruct (nth_error (s_classes s) j) as [d|] eqn:En; [|discriminate].
    repeat (apply andb_true_iff in H; let H' := fresh "H" in destruct H as [H H']).
    exists j, d. auto.
Qed.

(* ------------------------------------------------------------------ *)
(* C14: families                                                       *)
(* ------------------------------------------------------------------ *)
Lemma in_family_spec : forall e f,
  in_family e f = true <-> fe_api e = fe_api f /\ fe_type e = fe_type f.
Proof.
  intros e f. unfold in_family. rewrite andb_true_iff, String.eqb_eq, etype_eqb_eq. tauto.
Qed.

Lemma in_family_refl : forall e, in_family e e = true.
Proof. intro e. apply in_family_spec. auto. Qed.

Lemma in_family_sym : forall e f, in_family e f = true -> in_family f e = true.
Proof. intros e f H. apply in_family_spec in H. apply in_family_spec. intuition. Qed.

Lemma in_family_trans : forall e f g,
  in_family e f = true -> in_family f g = true -> in_family e g = true.
Proof.
  intros e f g H1 H2. apply in_family_spec in H1. apply in_family_spec in H2.
  apply in_family_spec. intuition congruence.
Qed.

Lemma in_family_ext : forall e f, in_family e f = true -> forall x, in_family e x = in_family f x.
Proof.
  intros e f H x. apply in_family_spec in H. destruct H as [Ha Ht].
  unfold in_family. rewrite Ha, Ht. reflexivity.
Qed.

(* the seven conjuncts of family_ok, split once *)
Lemma family_ok_split : forall es e, family_ok es e = true ->
  let fam := filter (in_family e) es in
  let vmin := fold_left Z.min (map fe_version fam) (fe_version e) in
  (Z.eqb (fe_version e) vmin || existsb (fun f => Z.eqb (fe_version f) (fe_version e - 1)) fam)%bool = true
  /\ Nat.eqb (List.length (filter (fun f => Z.eqb (fe_version f) (fe_version e)) fam)) 1 = true
  /\ forallb (fun f => if ((fe_version e <? fe_version f)%Z && fe_flexible e)%bool then fe_flexible f else true) fam = true
  /\ forallb (fun f => if String.eqb (fe_api f) (fe_api e) then opt_z_eqb (fe_key f) (fe_key e) else true) es = true
  /\ forallb (fun f => match fe_key e, fe_key f with
                       | Some k, Some k' => if Z.eqb k k' then String.eqb (fe_api f) (fe_api e) else true
                       | _, _ => true
                       end) es = true
  /\ match fe_type e with
     | ETRequest => existsb (fun f => (String.eqb (fe_api f) (fe_api e) && etype_eqb (fe_type f) ETResponse
                                      && Z.eqb (fe_version f) (fe_version e))%bool) es
     | ETResponse => existsb (fun f => (String.eqb (fe_api f) (fe_api e) && etype_eqb (fe_type f) ETRequest
                                       && Z.eqb (fe_version f) (fe_version e))%bool) es
     | _ => true
     end = true
  /\ match fe_type e, fe_key e with
     | ETRequest, Some k | ETResponse, Some k => (0 <=? k)%Z
     | ETRequest, None | ETResponse, None => false
     | _, None => true
     | _, Some _ => false
     end = true.
Proof.
  intros es e H. unfold family_ok in H.
  repeat (apply andb_true_iff in H; let H' := fresh "H" in destruct H as [H H']).
  cbv zeta. repeat split; assumption.
Qed.

(* what family_ok gives for one entry e of the entry list es *)
Lemma family_ok_contiguous : forall es e, family_ok es e = true ->
  let fam := filter (in_family e) es in
  fe_version e = fold_left Z.min (map fe_version fam) (fe_version e) \/
  exists f, In f fam /\ fe_version f = (fe_version e - 1)%Z.
Proof.
  intros es e H. apply family_ok_split in H. cbv zeta in H. destruct H as [H _]. cbv zeta.
  apply orb_true_iff in H. destruct H as [H|H].
  - left. apply Z.eqb_eq. exact H.
  - right. apply existsb_exists in H. destruct H as [f [Hin Hv]].
    exists f. split; [exact Hin | apply Z.eqb_eq; exact Hv].
Qed.

Lemma family_ok_flexibility_monotone : forall es e f, family_ok es e = true -> In f es ->
  in_family e f = true -> (fe_version e < fe_version f)%Z -> fe_flexible e = true -> fe_flexible f = true.
Proof.
  intros es e f H Hin Hfam Hlt Hfl. apply family_ok_split in H. cbv zeta in H.
  destruct H as [_ [_ [H _]]].
  rewrite forallb_forall in H. specialize (H f).
  assert (Hf : In f (filter (in_family e) es)) by (apply filter_In; auto).
  specialize (H Hf). apply Z.ltb_lt in Hlt. rewrite Hlt, Hfl in H. exact H.
Qed.

Lemma family_ok_key_constant : forall es e f, family_ok es e = true -> In f es ->
  fe_api f = fe_api e -> opt_z_eqb (fe_key f) (fe_key e) = true.
Proof.
  intros es e f H Hin Ha. apply family_ok_split in H. cbv zeta in H.
  destruct H as [_ [_ [_ [H _]]]].
  rewrite forallb_forall in H. specialize (H f Hin).
  apply String.eqb_eq in Ha. rewrite Ha in H. exact H.
Qed.

Lemma family_ok_key_unique : forall es e f k, family_ok es e = true -> In f es ->
  fe_key e = Some k -> fe_key f = Some k -> fe_api f = fe_api e.
Proof.
  intros es e f k H Hin He Hf. apply family_ok_split in H. cbv zeta in H.
  destruct H as [_ [_ [_ [_ [H _]]]]].
  rewrite forallb_forall in H. specialize (H f Hin).
  rewrite He, Hf, Z.eqb_refl in H. apply String.eqb_eq. exact H.
Qed.

Lemma family_ok_request_has_response : forall es e, family_ok es e = true -> fe_type e = ETRequest ->
  exists f, In f es /\ fe_api f = fe_api e /\ fe_type f = ETResponse /\ fe_version f = fe_version e.
Proof.
  intros es e H Ht. apply family_ok_split in H. cbv zeta in H.
  destruct H as [_ [_ [_ [_ [_ [H _]]]]]].
  rewrite Ht in H. apply existsb_exists in H. destruct H as [f [Hin H]].
  apply andb_true_iff in H. destruct H as [H Hv].
  apply andb_true_iff in H. destruct H as [Ha Hty].
  exists f. repeat split; auto.
  - apply String.eqb_eq; exact Ha.
  - apply etype_eqb_eq; exact Hty.
  - apply Z.eqb_eq; exact Hv.
Qed.

Lemma family_ok_response_has_request : forall es e, family_ok es e = true -> fe_type e = ETResponse ->
  exists f, In f es /\ fe_api f = fe_api e /\ fe_type f = ETRequest /\ fe_version f = fe_version e.
Proof.
  intros es e H Ht. apply family_ok_split in H. cbv zeta in H.
  destruct H as [_ [_ [_ [_ [_ [H _]]]]]].
  rewrite Ht in H. apply existsb_exists in H. destruct H as [f [Hin H]].
  apply andb_true_iff in H. destruct H as [H Hv].
  apply andb_true_iff in H. destruct H as [Ha Hty].
  exists f. repeat split; auto.
  - apply String.eqb_eq; exact Ha.
  - apply etype_eqb_eq; exact Hty.
  - apply Z.eqb_eq; exact Hv.
Qed.

(* no two entries of a family have the same version (the second conjunct) *)
Lemma length1_same : forall A (l : list A) a b, List.length l = 1%nat -> In a l -> In b l -> a = b.
Proof.
  intros A [|x [|y l]] a b Hl Ha Hb; simpl in *; try discriminate.
  destruct Ha as [<-|[]]. destruct Hb as [<-|[]]. reflexivity.
Qed.

Lemma family_ok_version_unique : forall es e f, family_ok es e = true -> In e es -> In f es ->
  in_family e f = true -> fe_version f = fe_version e -> f = e.
Proof.
  intros es e f H Hine Hinf Hfam Hv. apply family_ok_split in H. cbv zeta in H.
  destruct H as [_ [H _]]. apply Nat.eqb_eq in H.
  eapply length1_same; [exact H | |].
  - apply filter_In. split; [apply filter_In; auto | apply Z.eqb_eq; exact Hv].
  - apply filter_In. split; [apply filter_In; split; [exact Hine | apply in_family_refl] | apply Z.eqb_refl].
Qed.

(* requests and responses carry a non-negative key, headers and data none *)
Lemma family_ok_key_presence : forall es e, family_ok es e = true ->
  match fe_type e with
  | ETRequest | ETResponse => exists k, fe_key e = Some k /\ (0 <= k)%Z
  | _ => fe_key e = None
  end.
Proof.
  intros es e H. apply family_ok_split in H. cbv zeta in H.
  destruct H as [_ [_ [_ [_ [_ [_ H]]]]]].
  destruct (fe_type e), (fe_key e) as [k|]; try discriminate; try reflexivity;
    exists k; (split; [reflexivity | apply Z.leb_le; exact H]).
Qed.

(* and the lift from the boolean over the whole list *)
Lemma c14_ok_forall : forall cs, c14_ok cs = true ->
  (forall c, In c cs -> class_attrs_ok c = true /\ module_ok cs c = true) /\
  (forall e, In e (top_entries cs) -> family_ok (top_entries cs) e = true).
Proof.
  intros cs H. unfold c14_ok in H.
  apply andb_true_iff in H. destruct H as [H H3].
  apply andb_true_iff in H. destruct H as [H1 H2].
  cbv zeta in H3. rewrite forallb_forall in H1, H2, H3.
  split; [intros c Hc; split; auto | exact H3].
Qed.

(* top_entries drops nothing that class_attrs_ok accepts: every top-level class of a checked list
   has its family entry *)
Lemma top_entries_complete : forall cs c, In c cs -> class_attrs_ok c = true -> is_top c = true ->
  exists p t v f, parse_module (rc_module c) = Some p /\ rc_type c = Some t /\
    rc_version c = Some v /\ rc_flexible c = Some f /\ mp_version p = v /\
    In {| fe_api := mp_api p; fe_type := t; fe_version := v; fe_flexible := f; fe_key := rc_api_key c |}
       (top_entries cs).
Proof.
  intros cs c Hin Hok Htop. unfold class_attrs_ok in Hok.
  destruct (rc_type c) as [t|] eqn:Et; [|discriminate].
  destruct (rc_version c) as [v|] eqn:Ev; [|discriminate].
  destruct (rc_flexible c) as [f|] eqn:Ef; [|discriminate].
  destruct (parse_module (rc_module c)) as [p|] eqn:Ep; [|discriminate].
  repeat (apply andb_true_iff in Hok; let H' := fresh "H" in destruct Hok as [Hok H']).
  apply Z.eqb_eq in Hok.
  exists p, t, v, f. repeat split; auto.
  unfold top_entries. apply in_flat_map. exists c. split; [exact Hin|].
  rewrite Htop, Et, Ev, Ef, Ep. left. reflexivity.
Qed.

(* ---- the minimum of a family ---- *)
Lemma fold_min_le_init : forall l a, (fold_left Z.min l a <= a)%Z.
Proof.
  induction l as [|x l IH]; simpl; intro a; [lia|].
  specialize (IH (Z.min a x)). lia.
Qed.

Lemma fold_min_le_in : forall l a x, In x l -> (fold_left Z.min l a <= x)%Z.
Proof.
  induction l as [|y l IH]; simpl; intros a x Hin; [contradiction|].
  destruct Hin as [->|Hin].
  - pose proof (fold_min_le_init l (Z.min a x)). lia.
  - apply IH. exact Hin.
Qed.

Lemma fold_min_in : forall l a, fold_left Z.min l a = a \/ In (fold_left Z.min l a) l.
Proof.
  induction l as [|x l IH]; simpl; intro a; [left; reflexivity|].
  destruct (IH (Z.min a x)) as [H|H].
  - rewrite H. destruct (Z.min_spec a x) as [[_ E]|[_ E]]; rewrite E; auto.
  - right. right. exact H.
Qed.

Lemma fold_min_same : forall l a b, In a l -> In b l -> fold_left Z.min l a = fold_left Z.min l b.
Proof.
  assert (Hle : forall l a b, In a l -> In b l -> (fold_left Z.min l a <= fold_left Z.min l b)%Z).
  { intros l a b Ha Hb. destruct (fold_min_in l b) as [E|Hin].
    - rewrite E. apply fold_min_le_in. exact Hb.
    - apply fold_min_le_in. exact Hin. }
  intros l a b Ha Hb. apply Z.le_antisymm; apply Hle; assumption.
Qed.

Definition family_min (es : list fam_entry) (e : fam_entry) : Z :=
  fold_left Z.min (map fe_version (filter (in_family e) es)) (fe_version e).

Lemma family_min_same : forall es e f, In e es -> In f es -> in_family e f = true ->
  family_min es f = family_min es e.
Proof.
  intros es e f He Hf Hfam. unfold family_min.
  rewrite (filter_ext _ _ (in_family_ext e f Hfam)).
  apply fold_min_same; apply in_map; apply filter_In; split; auto.
  - apply in_family_refl.
  - apply in_family_sym. exact Hfam.
Qed.

(* the minimum is a lower bound of the family and is attained *)
Lemma family_min_le : forall es e f, In f es -> in_family e f = true ->
  (family_min es e <= fe_version f)%Z.
Proof.
  intros es e f Hf Hfam. unfold family_min. apply fold_min_le_in.
  apply in_map. apply filter_In. auto.
Qed.

Lemma family_min_attained : forall es e, In e es ->
  exists f, In f es /\ in_family e f = true /\ fe_version f = family_min es e.
Proof.
  intros es e He. unfold family_min.
  destruct (fold_min_in (map fe_version (filter (in_family e) es)) (fe_version e)) as [E|Hin].
  - exists e. rewrite E. repeat split; auto. apply in_family_refl.
  - apply in_map_iff in Hin. destruct Hin as [f [Hv Hf]]. apply filter_In in Hf.
    exists f. tauto.
Qed.

(* contiguity for a whole family by induction: every version between the minimum and an entry's
   version is present *)
Lemma family_versions_contiguous : forall es, (forall e, In e es -> family_ok es e = true) ->
  forall e, In e es -> forall v,
  (fold_left Z.min (map fe_version (filter (in_family e) es)) (fe_version e) <= v <= fe_version e)%Z ->
  exists f, In f es /\ in_family e f = true /\ fe_version f = v.
Proof.
  intros es Hall.
  assert (Hn : forall n e, In e es -> forall v,
            (family_min es e <= v <= fe_version e)%Z -> Z.to_nat (fe_version e - v) = n ->
            exists f, In f es /\ in_family e f = true /\ fe_version f = v).
  { induction n as [|n IH]; intros e He v Hv Hd.
    - exists e. repeat split; [exact He | apply in_family_refl | lia].
    - destruct (family_ok_contiguous es e (Hall e He)) as [Hmin|[f [Hf Hfv]]].
      + fold (family_min es e) in Hmin. lia.
      + apply filter_In in Hf. destruct Hf as [Hf Hfam].
        destruct (IH f Hf v) as [g [Hg [Hfg Hgv]]].
        * rewrite (family_min_same es e f He Hf Hfam). lia.
        * lia.
        * exists g. repeat split; [exact Hg | eapply in_family_trans; eauto | exact Hgv]. }
  intros e He v Hv. eapply Hn; eauto.
Qed.

(* consequently the versions of a family are exactly the interval [min, max] *)
Lemma family_versions_interval : forall es, (forall e, In e es -> family_ok es e = true) ->
  forall e, In e es -> forall v,
  (exists f, In f es /\ in_family e f = true /\ fe_version f = v) ->
  forall g, In g es -> in_family e g = true -> forall w, (v <= w <= fe_version g)%Z ->
  exists h, In h es /\ in_family e h = true /\ fe_version h = w.
Proof.
  intros es Hall e He v [f [Hf [Hef Hfv]]] g Hg Heg w Hw.
  destruct (family_versions_contiguous es Hall g Hg w) as [h [Hh [Hgh Hhw]]].
  - fold (family_min es g). rewrite (family_min_same es e g He Hg Heg).
    pose proof (family_min_le es e f Hf Hef). lia.
  - exists h. repeat split; [exact Hh | eapply in_family_trans; eauto | exact Hhw].
Qed.

Print Assumptions key_map_injective.
Print Assumptions listed_ok_spec.
Print Assumptions pair_ok_request.
Print Assumptions pair_ok_response.
Print Assumptions header_rules_agree_request.
Print Assumptions header_rules_agree_response.
Print Assumptions c14_ok_forall.
Print Assumptions family_versions_contiguous.
Print Assumptions family_versions_interval.
