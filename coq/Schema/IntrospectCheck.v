(* Executable comparison of the Gallina rendering of kio.serial._introspect /
   _implicit_defaults with the Python functions (C13 correspondence).  Definitions only. *)
From Coq Require Import ZArith List Bool String.
From KioV Require Import Base.Res Codec.Value Codec.Check Schema.Raw Schema.Introspect.
Import ListNotations.
Open Scope Z_scope.

(* classify_field: 0 primitive, 1 primitive tuple, 2 entity i, 3 entity tuple i *)
Definition fclass_code (f : fclass) : Z * Z :=
  match f with
  | FPrimitive _ => (0, 0) | FPrimitiveTuple _ => (1, 0)
  | FEntity i => (2, Z.of_nat i) | FEntityTuple i => (3, Z.of_nat i)
  end.

Record fcase := {
  fc_field : rfield;
  fc_cls : nat;                          (* index of the owning class (for nested defaults) *)
  fc_optional : res bool;
  fc_classify : res (Z * Z);
  fc_tag : res (option Z);
  fc_kafka : res string;
  fc_default : option (res value)        (* get_tagged_field_default, asked for tagged fields *)
}.

Definition opt_z_eq (a b : option Z) : bool :=
  match a, b with None, None => true | Some x, Some y => x =? y | _, _ => false end.

Definition check_fcase (s : schema) (k : fcase) : bool :=
  let f := fc_field k in
  res_eqb Bool.eqb (is_optional (rf_ann f)) (fc_optional k)
  && res_eqb (fun a b => (fst a =? fst b) && (snd a =? snd b)) (rmap fclass_code (classify (rf_ann f))) (fc_classify k)
  && res_eqb opt_z_eq (field_tag f) (fc_tag k)
  && res_eqb String.eqb (kafka_type f) (fc_kafka k)
  && match fc_default k with
     | None => true
     | Some d => res_eqb val_eqb (tagged_default (s_prims s) (s_classes s) (fc_cls k) f) d
     end.

(* the same, for the field number j of shipped class i *)
Record scase := { sc_cls : nat; sc_idx : nat; sc_optional : res bool; sc_classify : res (Z * Z);
                  sc_tag : res (option Z); sc_kafka : res string; sc_default : option (res value) }.
Definition check_scase (s : schema) (k : scase) : bool :=
  match nth_error (s_classes s) (sc_cls k) with
  | None => false
  | Some c => match nth_error (rc_fields c) (sc_idx k) with
              | None => false
              | Some f => check_fcase s {| fc_field := f; fc_cls := sc_cls k; fc_optional := sc_optional k;
                                           fc_classify := sc_classify k; fc_tag := sc_tag k;
                                           fc_kafka := sc_kafka k; fc_default := sc_default k |}
              end
  end.
