(* The raw, uninterpreted description of the schema package as the translator transcribes it
   from /repo on every run.  Definitions only. *)
From Coq Require Import ZArith List Bool String.
From KioV Require Import Base.Res Codec.Value.
Import ListNotations.

Inductive etype := ETRequest | ETResponse | ETHeader | ETData | ETNested.
Definition etype_eqb (a b : etype) : bool :=
  match a, b with
  | ETRequest, ETRequest | ETResponse, ETResponse | ETHeader, ETHeader
  | ETData, ETData | ETNested, ETNested => true
  | _, _ => false
  end.

(* an annotation as typing.get_origin / get_args see it *)
Inductive ann :=
| TPrim (qualname : string)              (* a class that is not a dataclass *)
| TClass (idx : nat)                     (* a dataclass, by its index in the environment *)
| TNone                                  (* NoneType *)
| TUnion (pep604 : bool) (args : list ann)   (* X | Y (types.UnionType) or typing.Union *)
| TTuple (args : list ann)               (* tuple[...] *)
| TEllipsis
| TOther (repr : string) (args : list ann).  (* any other generic or object *)

(* a metadata value *)
Inductive meta := MStr (s : string) | MInt (z : Z) | MBool (b : bool) | MOther (repr : string).

Record rfield := {
  rf_name : string;
  rf_ann : ann;
  rf_kafka : option meta;          (* field.metadata.get("kafka_type") *)
  rf_tag : option meta;            (* field.metadata.get("tag") *)
  rf_default : option value;       (* None = dataclasses.MISSING *)
  rf_default_cls : option nat      (* index of type(default) when the default is an entity *)
}.

Record dc_params := {
  dp_frozen : bool; dp_eq : bool; dp_order : bool; dp_unsafe_hash : bool;
  dp_slots : bool; dp_kw_only : bool; dp_init : bool; dp_repr : bool
}.

Record rclass := {
  rc_module : string;              (* e.g. kio.schema.fetch.v12.request *)
  rc_name : string;                (* __qualname__ *)
  rc_type : option etype;          (* __type__ *)
  rc_version : option Z;           (* __version__ *)
  rc_flexible : option bool;       (* __flexible__ *)
  rc_api_key : option Z;           (* __api_key__ when present *)
  rc_header : option nat;          (* __header_schema__, as an index, when present *)
  rc_params : dc_params;           (* __dataclass_params__ (+ slots / kw_only as observed) *)
  rc_slots : option (list string); (* __slots__ *)
  rc_has_dict : bool;              (* instances have __dict__ *)
  rc_fields : list rfield
}.

(* a non-dataclass type that occurs in annotations: qualified name and its MRO (qualified) *)
Record primty := { pt_name : string; pt_mro : list string }.

Record interval := { iv_name : string; iv_low : Z; iv_high : Z; iv_mro : list string }.

Record schema := {
  s_classes : list rclass;
  s_prims : list primty;
  s_error_codes : list (Z * (string * bool));
  s_api_key_map : list (Z * string);
  s_name_map : list (string * list (Z * list (etype * string)));
  s_intervals : list interval
}.
