(* C11 - primitive readers and writers implement the Kafka primitive encodings, over their whole
   domains (unbounded Z / lists).  The model functions are tied to kio's public functions by
   name in Prim/Public.v and compared by the correspondence. *)
From Coq Require Import ZArith List Bool Lia.
From KioV Require Import Base.Res Base.Prog Prim.Bytes Prim.Varint Prim.BytesProofs Prim.VarintProofs
  Codec.Value Codec.PrimCodec Codec.PrimCodecProofs.
Import ListNotations.
Open Scope Z_scope.

(* fixed width: reader after writer is the identity on the domain, with any trailing bytes *)
Theorem c11_int_roundtrip : forall w s z bs tl, (0 < w)%nat ->
  write_int w s z = Ok bs -> run (read_int w s) (bs ++ tl) = Ok (z, tl).
Proof. exact read_write_int. Qed.
Print Assumptions c11_int_roundtrip.

(* ... the output has exactly w bytes and is the base-256 big-endian representation of
   z mod 2^(8w) (two's complement) *)
Theorem c11_int_bytes : forall w s z bs, write_int w s z = Ok bs ->
  length bs = w /\ bytes_ok bs = true /\ be_val bs = z mod 2 ^ (8 * Z.of_nat w).
Proof.
  intros w s z bs H. split; [eapply write_int_length; eauto|]. split; [eapply write_int_bytes_ok; eauto|].
  unfold write_int in H. destruct (in_int_range w s z); [|discriminate].
  assert (bs = be_bytes w (z mod 2 ^ (8 * Z.of_nat w))) as -> by congruence.
  apply be_val_be_bytes. rewrite <- pow256. apply Z.mod_pos_bound. apply Z.pow_pos_nonneg; lia.
Qed.
Print Assumptions c11_int_bytes.

(* ... and a value outside the domain raises instead of wrapping *)
Theorem c11_int_out_of_range : forall w s z, in_int_range w s z = false -> write_int w s z = Err EStruct.
Proof. exact write_int_out_of_range. Qed.
Print Assumptions c11_int_out_of_range.

(* unsigned varints: minimal length, at most 5 (10) bytes, reader after writer is the identity *)
Theorem c11_uvarint_minimal : forall v, 0 <= v ->
  Z.of_nat (length (uvarint_bytes v)) = Z.log2 v / 7 + 1.
Proof. exact uvarint_minimal_length. Qed.
Print Assumptions c11_uvarint_minimal.

Theorem c11_uvarint_at_most_5 : forall v, 0 <= v < 2 ^ 35 -> (length (uvarint_bytes v) <= 5)%nat.
Proof. intros v H. apply (uvarint_bytes_max 5); [lia|exact H]. Qed.
Theorem c11_uvarlong_at_most_10 : forall v, 0 <= v < 2 ^ 70 -> (length (uvarint_bytes v) <= 10)%nat.
Proof. intros v H. apply (uvarint_bytes_max 10); [lia|exact H]. Qed.
Print Assumptions c11_uvarint_at_most_5.

Theorem c11_uvarint_roundtrip : forall v tl, 0 <= v < 2 ^ 35 ->
  run read_uvarint (uvarint_bytes v ++ tl) = Ok (v, tl).
Proof. exact read_write_uvarint. Qed.
Theorem c11_uvarlong_roundtrip : forall v tl, 0 <= v < 2 ^ 70 ->
  run read_uvarlong (uvarint_bytes v ++ tl) = Ok (v, tl).
Proof. exact read_write_uvarlong. Qed.
Print Assumptions c11_uvarlong_roundtrip.

(* zig-zag: the writer's expression is non-negative for EVERY integer (so the writer loop
   terminates), and reader after writer is the identity on int32 / int64 *)
Theorem c11_zigzag_nonneg : forall v, 0 <= zigzag32 v /\ 0 <= zigzag64 v.
Proof. intros v. split; [apply zigzag32_nonneg|apply zigzag64_nonneg]. Qed.
Theorem c11_svarint_roundtrip : forall v bs tl, - 2 ^ 31 <= v < 2 ^ 31 ->
  write_svarint v = Ok bs -> run read_svarint (bs ++ tl) = Ok (v, tl).
Proof. exact read_write_svarint. Qed.
Theorem c11_svarlong_roundtrip : forall v bs tl, - 2 ^ 63 <= v < 2 ^ 63 ->
  write_svarlong v = Ok bs -> run read_svarlong (bs ++ tl) = Ok (v, tl).
Proof. exact read_write_svarlong. Qed.
Print Assumptions c11_svarlong_roundtrip.

(* every field-level primitive codec (strings, bytes, uuid, bool, error code, float bits,
   durations, timestamps; legacy and compact; null forms): reader after writer is the identity
   on typed values, writers are total on typed values, emit bytes, and readers fail only with
   permitted error classes and return typed values *)
Theorem c11_prim_roundtrip : forall ec w r v bs tl,
  psub w r = true -> typed_prim ec w v = true -> enc_prim w v = Ok bs ->
  run (dec_prim ec r) (bs ++ tl) = Ok (v, tl).
Proof. exact prim_roundtrip. Qed.
Theorem c11_prim_total : forall ec w v, typed_prim ec w v = true -> exists bs, enc_prim w v = Ok bs.
Proof. exact prim_enc_total. Qed.
Theorem c11_prim_reads_typed : forall ec r bs v rest, pcodec_ok r = true ->
  bytes_ok bs = true -> run (dec_prim ec r) bs = Ok (v, rest) -> typed_prim ec r v = true.
Proof. exact prim_dec_typed. Qed.
Theorem c11_prim_errors : forall ec r bs e, run (dec_prim ec r) bs = Err e -> permitted e = true.
Proof. exact prim_dec_errors. Qed.
Print Assumptions c11_prim_roundtrip.
Print Assumptions c11_prim_reads_typed.

(* non-vacuity *)
Example c11_nonvacuous :
  write_int 4 true (-2) = Ok [255; 255; 255; 254] /\ uvarint_bytes 300 = [172; 2]
  /\ write_svarint (-1) = Ok [1] /\ write_int 2 true 40000 = Err EStruct
  /\ typed_prim [0] (PStr true true) (VStr [104; 105]) = true.
Proof. vm_compute. repeat split; reflexivity. Qed.

(* ---- the same, stated directly about the PUBLIC functions by name (Prim/Public.v is what the
   correspondence compares with kio.serial.readers / kio.serial.writers function by function;
   Prim/PublicProofs.v): public_pairs lists every (writer, reader, domain) of matching public
   functions - 40 rows covering all 58 modelled names - and public_bounded the fixed-width and
   length-limited writers with their exact in-range predicates. *)
From KioV Require Import Prim.Public Prim.PublicProofs.

Theorem c11_public_reader_after_writer : forall ec w r dom v tl,
  In (w, r, dom) public_pairs -> dom ec v = true ->
  exists bs, public_write w v = Ok bs /\ run (public_read ec r) (bs ++ tl) = Ok (v, tl).
Proof. exact public_read_after_write. Qed.
Print Assumptions c11_public_reader_after_writer.

Theorem c11_public_writers_raise_outside_domain : forall w inr v,
  In (w, inr) public_bounded -> well_shaped w v -> inr v = false -> public_write w v = Err (reject_class w).
Proof. exact public_write_rejects_class. Qed.
Theorem c11_public_writers_accept_inside_domain : forall w inr v,
  In (w, inr) public_bounded -> well_shaped w v -> inr v = true -> exists bs, public_write w v = Ok bs.
Proof. exact public_write_accepts. Qed.
Print Assumptions c11_public_writers_raise_outside_domain.

Example c11_every_public_name_is_covered :
  forallb (fun n => existsb (fun p => (String.eqb n (fst (fst p))) || (String.eqb n (snd (fst p)))) public_pairs)
          modelled_names = true.
Proof. vm_compute. reflexivity. Qed.

(* ---- "each reader accepts EXACTLY the Kafka encoding of its type": the converse of the round trips above
   (Codec/AcceptsProofs.v, Prim/PublicAcceptsProofs.v).  Whatever a strict reader accepts is the writer's output
   for the value it returns followed by the unread rest; the lenient readers (boolean, the varints and the
   varint-prefixed compact forms) are characterised exactly, and each leniency has a witness, so the split is
   exact. *)
From KioV Require Import Prim.Utf8 Prim.Varint Codec.AcceptsProofs Prim.PublicAcceptsProofs.

Theorem c11_reader_accepts_exactly : forall ec p bs v rest,
  strict_codec p = true -> bytes_ok bs = true ->
  (run (dec_prim ec p) bs = Ok (v, rest) <->
   typed_prim ec p v = true /\ exists enc, enc_prim p v = Ok enc /\ bs = enc ++ rest).
Proof. exact prim_reader_accepts_exactly. Qed.
Print Assumptions c11_reader_accepts_exactly.

Theorem c11_boolean_reader_accepts : forall ec bs v rest,
  run (dec_prim ec PBool) bs = Ok (v, rest) -> exists x, bs = x :: rest /\ v = VBool (negb (x =? 0)).
Proof. exact bool_reader_accepts. Qed.

Theorem c11_uvarint_reader_accepts : forall bs z rest,
  run read_uvarint bs = Ok (z, rest) ->
  exists pre, bs = pre ++ rest /\ varint_shape pre /\ (length pre <= 5)%nat /\
              z = uv_val pre /\ 0 <= z < 2 ^ 35 /\
              (forall tl, run read_uvarint (pre ++ tl) = Ok (z, tl)).
Proof. exact uvarint_reader_accepts. Qed.

Theorem c11_canonical_varint_is_writer_output : forall pre,
  bytes_ok pre = true -> varint_shape pre -> uvarint_canonical pre ->
  uvarint_bytes (uv_val pre) = pre /\ write_varint (uv_val pre) = Ok pre.
Proof. exact uvarint_canonical_is_writer_output. Qed.

Theorem c11_compact_reader_accepts : forall ec p bs v rest,
  compact_codec p = true -> run (dec_prim ec p) bs = Ok (v, rest) ->
  exists pre payload k,
    bs = pre ++ payload ++ rest /\
    varint_shape pre /\ (length pre <= 5)%nat /\ k = uv_val pre /\ 0 <= k < 2 ^ 35 /\
    run read_uvarint (pre ++ payload ++ rest) = Ok (k, payload ++ rest) /\
    ((k = 0 /\ v = VNull /\ payload = [] /\ pcodec_nullable p = true) \/
     (k = zlen payload + 1 /\ v = blob_value p payload /\
      (pcodec_is_str p = true -> utf8_valid payload = true))).
Proof. exact compact_reader_accepts. Qed.

Theorem c11_compact_reader_accepts_only_encodings_when_canonical : forall ec p bs v rest pre tl k,
  compact_codec p = true -> bytes_ok bs = true -> run (dec_prim ec p) bs = Ok (v, rest) ->
  bs = pre ++ tl -> run read_uvarint bs = Ok (k, tl) -> uvarint_canonical pre ->
  exists enc, enc_prim p v = Ok enc /\ bs = enc ++ rest.
Proof. exact compact_reader_accepts_only_encodings_when_canonical. Qed.
Print Assumptions c11_compact_reader_accepts.
Print Assumptions c11_compact_reader_accepts_only_encodings_when_canonical.

(* the same about the public functions by name: on the 23 strict rows of the table, accepted input = the named
   writer's output ++ rest; every other row has a concrete accepted input that is not the writer's output *)
Theorem c11_public_reader_accepts_only_encodings : forall ec w r dom bs v rest,
  In (w, r, dom) public_pairs -> public_strict_row w r = true -> bytes_ok bs = true ->
  run (public_read ec r) bs = Ok (v, rest) ->
  exists enc, public_write w v = Ok enc /\ bs = enc ++ rest.
Proof. exact public_reader_accepts_only_encodings. Qed.
Print Assumptions c11_public_reader_accepts_only_encodings.

Theorem c11_public_lenient_rows_refuted : forall w r dom,
  In (w, r, dom) public_pairs -> public_strict_row w r = false ->
  exists bs v rest, bytes_ok bs = true /\ run (public_read [] r) bs = Ok (v, rest) /\
    ~ (exists enc, public_write w v = Ok enc /\ bs = enc ++ rest).
Proof. exact public_lenient_rows_refuted. Qed.

Example c11_accepts_nonvacuous :
  strict_codec (PStr false true) = true /\
  run (dec_prim [0] (PStr false true)) [0; 2; 104; 105; 7] = Ok (VStr [104; 105], [7]) /\
  run (dec_prim [0] (PStr false true)) [255; 254; 104; 105; 7] = Err EUnderflow /\
  run (dec_prim [0; 1] PErrorCode) [0; 128] = Err EValue.
Proof. vm_compute. repeat split; reflexivity. Qed.
