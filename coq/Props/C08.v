(* C08 - header schema and request/response pairing.  The per-tree instance theorem
   (inst/InstC08.v: c08_ok shipped n = true, exhaustive over all classes of request/response
   modules) evaluates boolean predicates; here: what their `true` means, and that the header rule
   is the one the property states (and the one of the generator model). *)
From Coq Require Import ZArith List Bool String.
From KioV Require Import Schema.Raw Schema.Coherence Schema.CoherenceProofs Gen.Gen.
Import ListNotations.

Theorem c08_request_header_rule : forall k v f,
  request_header_version k v f = (if (Z.eqb k 7 && Z.eqb v 0)%bool then 0 else if f then 2 else 1)%Z.
Proof. exact request_header_rule. Qed.
Theorem c08_v0_only_for_controlled_shutdown_v0 : forall k v f,
  request_header_version k v f = 0%Z <-> (k = 7 /\ v = 0)%Z.
Proof. exact request_header_v0_only_controlled_shutdown_v0. Qed.
Theorem c08_response_header_rule : forall k f,
  response_header_version k f = (if Z.eqb k 18 then 0 else if f then 1 else 0)%Z.
Proof. exact response_header_rule. Qed.
Theorem c08_response_v1_iff : forall k f, response_header_version k f = 1%Z <-> (k <> 18%Z /\ f = true).
Proof. exact response_header_v1_iff. Qed.
Print Assumptions c08_v0_only_for_controlled_shutdown_v0.

(* request -> response -> request (and dually) are mutually inverse, with shared key and flexibility *)
Theorem c08_pairing_request : forall s i c, pair_ok s (i, c) = true -> rc_type c = Some ETRequest ->
  exists j d, load_response_from_request s i = IOk j /\ nth_error (s_classes s) j = Some d /\
              rc_type d = Some ETResponse /\ opt_z_eqb (rc_api_key d) (rc_api_key c) = true /\
              opt_bool_eqb (rc_flexible d) (rc_flexible c) = true /\ load_request_from_response s j = IOk i.
Proof. exact pair_ok_request. Qed.
Theorem c08_pairing_response : forall s i c, pair_ok s (i, c) = true -> rc_type c = Some ETResponse ->
  exists j d, load_request_from_response s i = IOk j /\ nth_error (s_classes s) j = Some d /\
              rc_type d = Some ETRequest /\ opt_z_eqb (rc_api_key d) (rc_api_key c) = true /\
              opt_bool_eqb (rc_flexible d) (rc_flexible c) = true /\ load_response_from_request s j = IOk i.
Proof. exact pair_ok_response. Qed.
Print Assumptions c08_pairing_request.
Print Assumptions c08_pairing_response.
