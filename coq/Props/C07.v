(* C07 - messages are self-delimiting: any sequence of encoded messages of arbitrary classes,
   followed by arbitrary bytes, decodes one after another to the original values and leaves
   exactly the trailing bytes; and the bytes that reach any append-only sink are the
   concatenation of the writes, whatever the sink is.  That the real sinks/sources obey
   "write appends / read(n) returns the next n bytes" is checked by the correspondence. *)
From Coq Require Import ZArith List Bool.
From KioV Require Import Base.Res Base.Prog Base.ProgProofs Codec.Value Codec.Reader Codec.Writer
  Schema.Introspect Codec.Typed Codec.Corollaries Codec.Examples.
Import ListNotations.

Theorem c07_sequence : forall (E : list cplan2) (ec : list Z), wf_env E = true -> forall msgs tl,
  Forall (msg_ok E ec) msgs ->
  decode_all (map reader_plan E) ec (map m_cls msgs) (concat (map m_bytes msgs) ++ tl)
  = Ok (map m_val msgs, tl).
Proof. exact sequence_decodes. Qed.
Print Assumptions c07_sequence.

(* a decoder's result does not depend on what follows the bytes it consumed *)
Theorem c07_tail_irrelevant : forall (A : Type) (p : prog A) c r tl a,
  run p (c ++ r) = Ok (a, r) -> run p (c ++ tl) = Ok (a, tl).
Proof. exact @run_tail_irrelevant'. Qed.
Print Assumptions c07_tail_irrelevant.

(* it never consumes more than it was given *)
Theorem c07_consumes_prefix : forall (A : Type) (p : prog A) bs a r,
  run p bs = Ok (a, r) -> exists c, bs = c ++ r.
Proof. exact @run_suffix. Qed.
Print Assumptions c07_consumes_prefix.

Theorem c07_any_append_sink : forall (S : Type) (write : S -> list Z -> S) (contents : S -> list Z),
  (forall s b, contents (write s b) = contents s ++ b) ->
  forall chunks s0, contents (fold_left write chunks s0) = contents s0 ++ concat chunks.
Proof. exact any_append_sink. Qed.
Print Assumptions c07_any_append_sink.

Example c07_nonvacuous : msg_ok ex_env ex_ec {| m_cls := 1; m_val := ex_val; m_bytes := ex_bytes |}.
Proof. split; vm_compute; reflexivity. Qed.
