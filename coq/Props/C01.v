(* C01 - encode then decode is the identity, with exact consumption, for every well-formed
   environment of plans, every class in it, every well-typed canonical value and any trailing
   bytes.  (The instance `wf_env <plans derived from the shipped schema> = true` is
   inst/InstC13.v; the tie between these plans and kio's behaviour is the correspondence.) *)
From Coq Require Import ZArith List Bool.
From KioV Require Import Base.Res Base.Prog Codec.Value Codec.Reader Codec.Writer Schema.Introspect
  Codec.Typed Codec.RoundtripProofs Codec.Examples.
Import ListNotations.

Theorem c01_roundtrip : forall (E : list cplan2) (ec : list Z), wf_env E = true ->
  forall i v bs tl,
  typed E ec i v = true ->
  encode (map writer_plan E) i v = Ok bs ->
  decode (map reader_plan E) ec i (bs ++ tl) = Ok (v, tl).
Proof. exact decode_encode. Qed.
Print Assumptions c01_roundtrip.

Theorem c01_any_fuel : forall (E : list cplan2) (ec : list Z), wf_env E = true ->
  forall i v bs tl fuel,
  typed E ec i v = true -> encode (map writer_plan E) i v = Ok bs -> (length (bs ++ tl) < fuel)%nat ->
  run (decoder (map reader_plan E) ec i fuel) (bs ++ tl) = Ok (v, tl).
Proof. exact codec_roundtrip. Qed.
Print Assumptions c01_any_fuel.

(* typed values are encodable: exactly when the tagged sections stay below the 2^35-byte limits *)
Theorem c01_encodable_iff : forall (E : list cplan2) (ec : list Z), wf_env E = true -> forall i v,
  typed E ec i v = true ->
  ((exists bs, encode (map writer_plan E) i v = Ok bs) <-> sizes_ok (map writer_plan E) i v = true).
Proof. exact encode_total_iff. Qed.
Print Assumptions c01_encodable_iff.

(* non-vacuity: a concrete environment, class and value satisfy the hypotheses *)
Example c01_nonvacuous :
  wf_env ex_env = true /\ typed ex_env ex_ec 1 ex_val = true /\
  encode (map writer_plan ex_env) 1 ex_val = Ok ex_bytes /\
  decode (map reader_plan ex_env) ex_ec 1 (ex_bytes ++ [255]) = Ok (ex_val, [255]).
Proof. vm_compute. repeat split; reflexivity. Qed.
