(* C14 - the versions of an API form a coherent family.  Per-tree instance theorem:
   inst/InstC14.v (c14_ok over all classes).  Here: what the boolean gives. *)
From Coq Require Import ZArith List Bool String.
From KioV Require Import Schema.Raw Schema.Coherence Schema.CoherenceProofs.
Import ListNotations.

Theorem c14_lift : forall cs, c14_ok cs = true ->
  (forall c, In c cs -> class_attrs_ok c = true /\ module_ok cs c = true) /\
  (forall e, In e (top_entries cs) -> family_ok (top_entries cs) e = true).
Proof. exact c14_ok_forall. Qed.
Print Assumptions c14_lift.

(* version numbers are contiguous: every version between a family's minimum and any member exists *)
Theorem c14_versions_contiguous : forall es, (forall e, In e es -> family_ok es e = true) ->
  forall e, In e es -> forall v,
  (fold_left Z.min (map fe_version (filter (in_family e) es)) (fe_version e) <= v <= fe_version e)%Z ->
  exists f, In f es /\ in_family e f = true /\ fe_version f = v.
Proof. exact family_versions_contiguous. Qed.
Print Assumptions c14_versions_contiguous.

Theorem c14_flexibility_never_reverts : forall es e f, family_ok es e = true -> In f es -> in_family e f = true ->
  (fe_version e < fe_version f)%Z -> fe_flexible e = true -> fe_flexible f = true.
Proof. exact family_ok_flexibility_monotone. Qed.
Theorem c14_key_constant : forall es e f, family_ok es e = true -> In f es -> fe_api f = fe_api e ->
  opt_z_eqb (fe_key f) (fe_key e) = true.
Proof. exact family_ok_key_constant. Qed.
Theorem c14_key_unique_to_api : forall es e f k, family_ok es e = true -> In f es -> fe_key e = Some k -> fe_key f = Some k ->
  fe_api f = fe_api e.
Proof. exact family_ok_key_unique. Qed.
Theorem c14_request_has_response : forall es e, family_ok es e = true -> fe_type e = ETRequest ->
  exists f, In f es /\ fe_api f = fe_api e /\ fe_type f = ETResponse /\ fe_version f = fe_version e.
Proof. exact family_ok_request_has_response. Qed.
Theorem c14_response_has_request : forall es e, family_ok es e = true -> fe_type e = ETResponse ->
  exists f, In f es /\ fe_api f = fe_api e /\ fe_type f = ETRequest /\ fe_version f = fe_version e.
Proof. exact family_ok_response_has_request. Qed.
Print Assumptions c14_flexibility_never_reverts.
Print Assumptions c14_request_has_response.
