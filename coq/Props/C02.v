(* C02 - the encoder's output is the Kafka wire format, byte for byte: for every well-formed
   environment, class and typed value the model of kio's encoder (shift/mask loops, recursive
   byte splitting, insertion sort of tags) equals the specification written from the protocol
   guide in closed form (Codec/WireSpec.v) - including when both fail. *)
From Coq Require Import ZArith List Bool Sorting.Sorted.
From KioV Require Import Base.Res Prim.Bytes Prim.Varint Prim.Time Codec.Value Codec.PrimCodec Codec.Writer
  Schema.Introspect Codec.Typed Codec.WireSpec Codec.WireSpecProofs Codec.Examples.
Import ListNotations.
Open Scope Z_scope.

Theorem c02_encoder_is_wire_format : forall (E : list cplan2) (ec : list Z), wf_env E = true ->
  forall i v, typed E ec i v = true ->
  encode (map writer_plan E) i v = spec_enc E i (plain v).
Proof. exact encode_is_spec. Qed.
Print Assumptions c02_encoder_is_wire_format.

(* every primitive writer equals its closed-form specification, for every codec and value *)
Theorem c02_primitives : forall p v, enc_prim p v = spec_prim p v.
Proof. exact enc_prim_spec. Qed.
Print Assumptions c02_primitives.

(* clauses of the format, on the specification: big-endian value, minimal varints with
   continuation bits, ascending tags *)
Theorem c02_big_endian : forall w u, 0 <= u < 256 ^ Z.of_nat w -> be_val (spec_be w u) = u.
Proof. exact spec_be_value. Qed.
Theorem c02_varint_value : forall n, 0 <= n ->
  fold_right (fun b acc => (b mod 128) + 128 * acc) 0 (spec_uvarint n) = n.
Proof. exact spec_uvarint_value. Qed.
Theorem c02_varint_minimal : forall n, 0 <= n -> Z.of_nat (length (spec_uvarint n)) = Z.log2 n / 7 + 1.
Proof. exact spec_uvarint_length. Qed.
Theorem c02_tags_ascending : forall l, NoDup (map fst l) ->
  StronglySorted (fun a b => fst a < fst b) (TagSort.sort l).
Proof. exact spec_entries_strictly_sorted. Qed.
Print Assumptions c02_tags_ascending.

Example c02_nonvacuous :
  wf_env ex_env = true /\ typed ex_env ex_ec 1 ex_val = true /\ spec_enc ex_env 1 (plain ex_val) = Ok ex_bytes.
Proof. vm_compute. repeat split; reflexivity. Qed.
