(* C03 - the decoder accepts every conforming encoding, including forward-compatible ones: for
   every decorated value a conforming peer may send (tagged fields present or absent, defaults
   sent explicitly incl. explicit nulls, unknown tagged fields with arbitrary payloads, at every
   nesting level) decoding its wire form - followed by any bytes - yields exactly the values on
   the wire, with absent tagged fields set to their defaults. *)
From Coq Require Import ZArith List Bool.
From KioV Require Import Base.Res Base.Prog Codec.Value Codec.PrimCodec Codec.Reader Schema.Introspect
  Codec.Typed Codec.WireSpec Codec.ConformingProofs.
Import ListNotations.
Open Scope Z_scope.

Theorem c03_decoder_accepts_conforming : forall (E : list cplan2) (ec : list Z), wf_env E = true ->
  forall i d bs tl,
  conforming E ec i d = true -> spec_enc E i d = Ok bs ->
  decode (map reader_plan E) ec i (bs ++ tl) = Ok (erase d, tl).
Proof. exact decode_conforming. Qed.
Print Assumptions c03_decoder_accepts_conforming.

(* the result depends only on the values, not on which defaults were sent or which unknown tags
   were added *)
Theorem c03_decorations_ignored : forall E ec, wf_env E = true -> forall i d1 d2 b1 b2 tl1 tl2,
  conforming E ec i d1 = true -> conforming E ec i d2 = true -> erase d1 = erase d2 ->
  spec_enc E i d1 = Ok b1 -> spec_enc E i d2 = Ok b2 ->
  rmap fst (decode (map reader_plan E) ec i (b1 ++ tl1))
  = rmap fst (decode (map reader_plan E) ec i (b2 ++ tl2)).
Proof. exact decode_ignores_decorations. Qed.
Print Assumptions c03_decorations_ignored.

(* an absent tagged field takes its default *)
Theorem c03_unknown_tags_skipped : forall E ec, wf_env E = true -> forall i d bs,
  conforming E ec i d = true -> spec_enc E i d = Ok bs ->
  exists v, decode (map reader_plan E) ec i bs = Ok (v, []) /\ v = erase d.
Proof. exact unknown_tags_skipped. Qed.
Print Assumptions c03_unknown_tags_skipped.

(* non-vacuity: nullable tagged string sent as an explicit null, unknown tags 7 and 5 *)
Example c03_nonvacuous :
  wf_env ConformingProofs.ex_env = true /\ conforming ConformingProofs.ex_env [] 0 ex_msg = true /\
  spec_enc ConformingProofs.ex_env 0 ex_msg = Ok [3; 0; 1; 0; 5; 3; 1; 2; 3; 7; 1; 9] /\
  decode (map reader_plan ConformingProofs.ex_env) [] 0 [3; 0; 1; 0; 5; 3; 1; 2; 3; 7; 1; 9] = Ok (VEnt [VNull], []).
Proof. exact ex_conforming. Qed.
