(* C06 - truncated input is always reported: every strict prefix of the encoding of a typed
   value decodes to the buffer-underflow error, never to a value or another error.  "Never
   blocks or loops" is the totality of `decode` (a Gallina function) together with
   c06_never_out_of_fuel: the wire-driven loops never run longer than the input. *)
From Coq Require Import ZArith List Bool.
From KioV Require Import Base.Res Base.Prog Base.ProgProofs Codec.Value Codec.PrimCodec Codec.Reader Codec.Writer
  Schema.Introspect Codec.Typed Codec.DecodeProofs Codec.Corollaries Codec.Examples.
Import ListNotations.

Theorem c06_truncated_is_underflow : forall (E : list cplan2) (ec : list Z), wf_env E = true ->
  forall i v bs k,
  typed E ec i v = true -> encode (map writer_plan E) i v = Ok bs -> (k < length bs)%nat ->
  decode (map reader_plan E) ec i (firstn k bs) = Err EUnderflow.
Proof. exact truncated_is_underflow. Qed.
Print Assumptions c06_truncated_is_underflow.

(* the structural reason, for every reader program: only exact reads, so the first read that
   crosses the cut reports underflow *)
Theorem c06_any_reader_program : forall (A : Type) (p : prog A) c tl a,
  run p (c ++ tl) = Ok (a, tl) -> forall k, (k < length c)%nat -> run p (firstn k c) = Err EUnderflow.
Proof. exact @run_prefix_underflow. Qed.
Print Assumptions c06_any_reader_program.

Theorem c06_never_out_of_fuel : forall (E : list cplan2) (ec : list Z), wf_env E = true ->
  forall i bs fuel e, (i < length E)%nat -> (length bs < fuel)%nat ->
  run (decoder (map reader_plan E) ec i fuel) bs = Err e -> permitted e = true.
Proof. exact decode_errors_permitted. Qed.
Print Assumptions c06_never_out_of_fuel.

Example c06_nonvacuous :
  encode (map writer_plan ex_env) 1 ex_val = Ok ex_bytes /\
  decode (map reader_plan ex_env) ex_ec 1 (firstn 17 ex_bytes) = Err EUnderflow.
Proof. vm_compute. split; reflexivity. Qed.
