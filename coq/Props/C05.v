(* C05 - decoding is lossless.  (a) canonical encodings: for every typed value (the full wire
   domain: every integer of each width, every millisecond timestamp and duration python can
   hold, every string, byte string, UUID and null) the canonical encoding decodes to that value
   and re-encodes to the same bytes; (b) whatever the decoder returns from ANY byte string is
   accepted by the encoder; (c) decode-then-encode is idempotent on any accepted input. *)
From Coq Require Import ZArith List Bool.
From KioV Require Import Base.Res Base.Prog Codec.Value Codec.PrimCodec Codec.Reader Codec.Writer Schema.Introspect
  Codec.Typed Codec.WireSpec Codec.WireSpecProofs Codec.RoundtripProofs Codec.DecodeProofs Codec.Corollaries Codec.Examples.
Import ListNotations.
Open Scope Z_scope.

Theorem c05_canonical_reencodes : forall (E : list cplan2) (ec : list Z), wf_env E = true ->
  forall i v bs,
  typed E ec i v = true -> spec_enc E i (plain v) = Ok bs ->
  exists v', decode (map reader_plan E) ec i bs = Ok (v', []) /\
             encode (map writer_plan E) i v' = Ok bs.
Proof.
  intros E ec Hwf i v bs Ht Hs. rewrite <- (encode_is_spec E ec Hwf i v Ht) in Hs.
  exists v. split; [|exact Hs].
  pose proof (decode_encode E ec Hwf i v bs [] Ht Hs) as H. rewrite app_nil_r in H. exact H.
Qed.
Print Assumptions c05_canonical_reencodes.

Theorem c05_decoder_output_encodable : forall (E : list cplan2) (ec : list Z), wf_env E = true ->
  forall i bs v rest,
  (i < length E)%nat -> bytes_ok bs = true ->
  decode (map reader_plan E) ec i bs = Ok (v, rest) ->
  sizes_ok (map writer_plan E) i v = true ->
  exists bs', encode (map writer_plan E) i v = Ok bs' /\
              forall tl, decode (map reader_plan E) ec i (bs' ++ tl) = Ok (v, tl).
Proof. exact decoded_is_reencodable. Qed.
Print Assumptions c05_decoder_output_encodable.

Theorem c05_idempotent : forall (E : list cplan2) (ec : list Z), wf_env E = true ->
  forall i bs v rest bs1,
  (i < length E)%nat -> bytes_ok bs = true ->
  decode (map reader_plan E) ec i bs = Ok (v, rest) ->
  encode (map writer_plan E) i v = Ok bs1 ->
  decode (map reader_plan E) ec i bs1 = Ok (v, []) /\
  (forall v2 r2 bs2, decode (map reader_plan E) ec i bs1 = Ok (v2, r2) ->
                     encode (map writer_plan E) i v2 = Ok bs2 -> bs2 = bs1).
Proof. exact reencode_stable. Qed.
Print Assumptions c05_idempotent.

Example c05_nonvacuous :
  decode (map reader_plan ex_env) ex_ec 1 ex_bytes = Ok (ex_val, []) /\
  encode (map writer_plan ex_env) 1 ex_val = Ok ex_bytes.
Proof. vm_compute. split; reflexivity. Qed.
