From Coq Require Import ZArith List Bool String.
From KioV Require Import Schema.Raw Schema.Coherence.
