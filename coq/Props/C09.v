(* C09 - the dynamic index.  Per-tree instance theorem: inst/InstC09.v (c09_ok shipped n = true).
   Here, over the model of kio.index: what the booleans mean, and that every other key,
   version or entity type yields the documented error - never a wrong class. *)
From Coq Require Import ZArith List Bool String.
From KioV Require Import Schema.Raw Schema.Coherence Schema.CoherenceProofs.
Import ListNotations.

Theorem c09_listed_class_is_found : forall s i c p t, listed_ok s (i, c) = true -> is_top c = true ->
  parse_module (rc_module c) = Some p -> rc_type c = Some t ->
  load_entity_schema s (mp_api p) (mp_version p) t = IOk i.
Proof. exact listed_ok_spec. Qed.
Theorem c09_listed_class_is_found_by_key : forall s i c p t k, listed_ok s (i, c) = true -> is_top c = true ->
  parse_module (rc_module c) = Some p -> rc_type c = Some t -> rc_api_key c = Some k ->
  load_payload_schema s k (mp_version p) t = IOk i.
Proof. exact listed_ok_by_key. Qed.
Print Assumptions c09_listed_class_is_found.

Theorem c09_keys_one_to_one : forall s k1 k2 n, key_map_ok s = true ->
  name_from_key s k1 = IOk n -> name_from_key s k2 = IOk n -> k1 = k2.
Proof. exact key_map_injective. Qed.
Print Assumptions c09_keys_one_to_one.

(* unknown key: for EVERY integer not in the key map *)
Theorem c09_unknown_key : forall s k v t, assoc_z k (s_api_key_map s) = None ->
  load_payload_schema s k v t = IErr UnknownAPIKey.
Proof. exact load_payload_unknown_key. Qed.
(* unknown (name, version, type): for EVERY triple not in the name map *)
Theorem c09_unknown_entity : forall s name v t,
  (forall vm, assoc_s name (s_name_map s) = Some vm -> forall tm, assoc_z v vm = Some tm -> assoc_t t tm = None) ->
  entity_path s name v t = IErr UnknownEntity.
Proof. exact entity_path_unknown. Qed.
(* and the lookups fail in no other way *)
Theorem c09_only_documented_errors : forall s,
  (forall k e, name_from_key s k = IErr e -> e = UnknownAPIKey /\ assoc_z k (s_api_key_map s) = None) /\
  (forall name v t e, entity_path s name v t = IErr e -> e = UnknownEntity).
Proof. intros s. split; [apply name_from_key_err|apply entity_path_err]. Qed.
Print Assumptions c09_unknown_entity.
Print Assumptions c09_only_documented_errors.
