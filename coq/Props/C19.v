(* C19 - readers and writers are stateless.  Over the cache model of Conc/Cache.v: for EVERY
   schedule (any interleaving of any number of threads' lookups, compilations, stores and uses,
   any faults) the cache only ever holds compile(key), and every use returns exactly what a fresh
   call would return.  What the model cannot exhibit - preemption inside CPython, the C
   implementation of functools.cache, a closure that secretly keeps scratch state - is what the
   correspondence checks: histories, faults at every stream call, and real threads (partial). *)
From Coq Require Import List Bool Arith.
From KioV Require Import Conc.Cache Conc.CacheProofs.
Import ListNotations.

Theorem c19_cache_invariant : forall (K P X F R : Type) (key_eqb : K -> K -> bool),
  (forall a b, key_eqb a b = true -> a = b) ->
  forall (compile : K -> P) (exec : P -> X -> F -> R) sched,
  inv K P X F R compile exec (run_schedule K P X F R key_eqb compile exec sched).
Proof. exact schedule_inv. Qed.
Print Assumptions c19_cache_invariant.

Theorem c19_use_is_history_independent : forall (K P X F R : Type) (key_eqb : K -> K -> bool),
  (forall a b, key_eqb a b = true -> a = b) ->
  forall (compile : K -> P) (exec : P -> X -> F -> R) sched t k x f r,
  In (t, k, x, f, r) (log K P X F R (run_schedule K P X F R key_eqb compile exec sched)) ->
  r = exec (compile k) x f.
Proof. exact use_is_pure. Qed.
Print Assumptions c19_use_is_history_independent.

(* non-vacuity: a two-thread schedule with a racing double store *)
Example c19_nonvacuous :
  let sched := [(0, ALookup nat nat nat 5); (1, ALookup nat nat nat 5); (0, ACompile nat nat nat 5);
                (1, ACompile nat nat nat 5); (1, AStore nat nat nat); (0, AStore nat nat nat);
                (1, AUse nat nat nat 5 7 0); (2, AUse nat nat nat 5 7 1)]%nat in
  map (fun e => snd e) (log nat nat nat nat nat (run_schedule nat nat nat nat nat Nat.eqb (fun k => k * 2) (fun p x f => p + x + f) sched))
  = [18; 17]%nat.
Proof. vm_compute. reflexivity. Qed.
