(* C10 - malformed input: for every byte string, decoding either returns a well-typed value
   (which the encoder accepts again) together with an unread remainder that is a suffix of the
   input, or fails with one of the permitted error classes (buffer underflow, unexpected null,
   out-of-bound value, ValueError, OverflowError) - never an internal error, never out of loop
   fuel (the model's stand-in for "more iterations than input bytes").  Linear time: the number
   of loop iterations is bounded by the fuel = input length + 1 at every nesting level. *)
From Coq Require Import ZArith List Bool.
From KioV Require Import Base.Res Base.Prog Base.ProgProofs Codec.Value Codec.PrimCodec Codec.Reader Codec.Writer
  Schema.Introspect Codec.Typed Codec.RoundtripProofs Codec.DecodeProofs Codec.Corollaries Codec.CostProofs Codec.Examples.
Import ListNotations.

Theorem c10_outcomes : forall (E : list cplan2) (ec : list Z), wf_env E = true -> forall i bs,
  (i < length E)%nat -> bytes_ok bs = true ->
  match decode (map reader_plan E) ec i bs with
  | Ok (v, rest) => typed E ec i v = true /\ exists c, bs = c ++ rest
  | Err e => permitted e = true
  end.
Proof. exact decode_outcomes. Qed.
Print Assumptions c10_outcomes.

Theorem c10_returned_value_reencodes : forall (E : list cplan2) (ec : list Z), wf_env E = true ->
  forall i bs v rest,
  (i < length E)%nat -> bytes_ok bs = true ->
  decode (map reader_plan E) ec i bs = Ok (v, rest) ->
  sizes_ok (map writer_plan E) i v = true ->
  exists bs', encode (map writer_plan E) i v = Ok bs' /\
              forall tl, decode (map reader_plan E) ec i (bs' ++ tl) = Ok (v, tl).
Proof. exact decoded_is_reencodable. Qed.
Print Assumptions c10_returned_value_reencodes.

Theorem c10_lower_fuel_only_runs_out : forall (E : list cplan2) ec i f1 f2 bs, (f1 <= f2)%nat ->
  run (decoder (map reader_plan E) ec i f1) bs = run (decoder (map reader_plan E) ec i f2) bs
  \/ run (decoder (map reader_plan E) ec i f1) bs = Err EOutOfGas.
Proof. exact fuel_lower. Qed.
Print Assumptions c10_lower_fuel_only_runs_out.

(* time proportional to the input size: the number of read_exact calls performed on ANY input is
   at most a constant computed from the class alone times (input length + 1) *)
Theorem c10_linear_cost : forall (E : list cplan2) (ec : list Z), wf_env E = true ->
  forall i bs fuel, (i < length E)%nat -> (length bs < fuel)%nat ->
  (run_cost (decoder (map reader_plan E) ec i fuel) bs <= weight E i * (length bs + 1))%nat.
Proof. exact decode_cost_linear. Qed.
Print Assumptions c10_linear_cost.

(* non-vacuity: a corrupted encoding (unknown tag 7 with a 2-byte payload) is skipped, a bad
   marker fails with a permitted error *)
Example c10_nonvacuous :
  decode (map reader_plan ex_env) ex_ec 0 [0;0;0;5; 0; 1; 7; 2; 170; 187; 99] = Ok (VEnt [VInt 5; VNull], [99])
  /\ decode (map reader_plan ex_env) ex_ec 0 [0;0;0;5; 9] = Err EUnderflow.
Proof. split; vm_compute; reflexivity. Qed.
