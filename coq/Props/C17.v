(* C17 - new record batches are written in the Kafka v2 batch format.  The model of
   kio.records.writers.write_new_batch is checked against an INDEPENDENT parser with explicit
   byte offsets taken from the format description (Records/Batch.v: spec_parse_header,
   spec_batch_ok, spec_decode). *)
From Coq Require Import ZArith List Bool.
From KioV Require Import Base.Res Prim.Bytes Records.Crc Records.Batch Records.CrcProofs Records.BatchProofs.
Import ListNotations.
Open Scope Z_scope.

Theorem c17_empty_rejected : forall nb, n_records nb = [] -> write_new_batch nb = Err EValue.
Proof. exact write_new_batch_empty. Qed.
Print Assumptions c17_empty_rejected.

(* magic 2; base offset, last offset delta, base/max timestamp, count derived from the records;
   batch length = total length - 12; CRC-32C over exactly the bytes from the attributes field
   (offset 21) to the end *)
Theorem c17_header_derived : forall nb bs first,
  hd_error (n_records nb) = Some first ->
  write_new_batch nb = Ok bs ->
  exists h, spec_parse_header bs = Some h /\
    sh_base_offset h = r_offset first /\
    sh_batch_length h = zlen bs - 12 /\
    sh_ple h = n_partition_leader_epoch nb /\
    sh_magic h = 2 /\
    sh_crc h = crc32c (skipn 21 bs) /\
    sh_attributes h = n_attributes nb /\
    sh_lod h = r_offset (last (n_records nb) first) - r_offset first /\
    sh_base_ts h = millis_of (r_timestamp first) /\
    sh_max_ts h = millis_of (max_timestamp_us (n_records nb)) /\
    sh_pid h = n_producer_id nb /\ sh_pepoch h = n_producer_epoch nb /\
    sh_bseq h = n_base_sequence nb /\ sh_count h = zlen (n_records nb) /\
    spec_batch_ok bs = true.
Proof. exact write_new_batch_header. Qed.
Print Assumptions c17_header_derived.

(* the independent decoder recovers exactly the input records (as millisecond timestamp deltas,
   offset deltas, nullable key/value, headers) *)
Theorem c17_independent_decoder_recovers : forall nb bs first,
  hd_error (n_records nb) = Some first ->
  forallb (record_ok (millis_of (r_timestamp first)) (r_offset first)) (n_records nb) = true ->
  write_new_batch nb = Ok bs ->
  exists h, spec_decode bs = Ok (h, map (to_spec (millis_of (r_timestamp first)) (r_offset first)) (n_records nb)).
Proof. exact write_new_batch_decodes. Qed.
Print Assumptions c17_independent_decoder_recovers.

Example c17_crc_check_value : crc32c [49;50;51;52;53;54;55;56;57] = 0xE3069283.
Proof. exact crc32c_check. Qed.

(* ---- the batch a NEW batch is written as is read back by kio's own reader (as modelled), with any
   bytes following it (Records/NewBatchRoundtrip.v): what write_new_batch emits is exactly
   write_prepared_batch of the batch whose header it derives, that batch is well formed
   (prepared_core), and read_batch returns it - record timestamps floored to whole seconds, which is
   the recorded known finding of C18. *)
From KioV Require Import Records.BatchRoundtrip Records.NewBatchRoundtrip.

Theorem c17_new_batch_is_the_derived_prepared_batch : forall nb bs first,
  hd_error (n_records nb) = Some first -> write_new_batch nb = Ok bs ->
  write_prepared_batch (batch_of_new nb first) = Ok bs.
Proof. exact write_new_is_write_prepared. Qed.
Print Assumptions c17_new_batch_is_the_derived_prepared_batch.

Theorem c17_own_reader_recovers : forall nb bs first tl,
  hd_error (n_records nb) = Some first -> new_batch_ok nb = true -> write_new_batch nb = Ok bs ->
  read_batch (bs ++ tl) = Ok (floor_seconds (batch_of_new nb first), tl).
Proof. exact read_write_new_batch. Qed.
Print Assumptions c17_own_reader_recovers.
