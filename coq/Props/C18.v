(* C18 - reading a record batch is faithful and rejects damaged data. *)
From Coq Require Import ZArith List Bool.
From KioV Require Import Base.Res Base.Prog Prim.Bytes Records.Crc Records.Batch Records.CrcProofs Records.BatchProofs.
Import ListNotations.
Open Scope Z_scope.

(* a returned batch carries exactly the header fields at the format's byte offsets, and as many
   records as the count says *)
Theorem c18_fields_as_encoded : forall bs b rest, read_batch bs = Ok (b, rest) ->
  exists h, spec_parse_header bs = Some h /\ b_base_offset b = sh_base_offset h /\ b_batch_length b = sh_batch_length h
    /\ b_partition_leader_epoch b = sh_ple h /\ b_crc b = sh_crc h /\ b_attributes b = sh_attributes h
    /\ b_last_offset_delta b = sh_lod h /\ b_base_timestamp b = sh_base_ts h /\ b_max_timestamp b = sh_max_ts h
    /\ b_producer_id b = sh_pid h /\ b_producer_epoch b = sh_pepoch h /\ b_base_sequence b = sh_bseq h
    /\ zlen (b_records b) = Z.max 0 (sh_count h).
Proof. exact read_batch_fields. Qed.
Print Assumptions c18_fields_as_encoded.

(* wrong magic byte: never returns a batch *)
Theorem c18_magic_checked : forall bs b rest, read_batch bs = Ok (b, rest) -> sint 1 (slice 16 1 bs) = 2.
Proof. exact read_batch_bad_magic. Qed.
(* the checksum is verified over batch_length - 9 bytes from the attributes field *)
Theorem c18_crc_checked : forall bs b rest, read_batch bs = Ok (b, rest) -> b_batch_length b >= 9 ->
  b_crc b = crc32c (slice 21 (Z.to_nat (b_batch_length b - 9)) bs).
Proof. exact read_batch_crc_checked. Qed.
Print Assumptions c18_crc_checked.

(* CRC-32C detects every single-bit error in a message of ANY length *)
Theorem c18_crc_single_bit : forall m i, bytes_ok m = true -> (i < 8 * length m)%nat ->
  crc32c (flip_bit i m) <> crc32c m.
Proof. exact crc32c_single_bit. Qed.
Print Assumptions c18_crc_single_bit.

(* hence: any single-bit flip from the CRC field to the end of an accepted batch is rejected *)
Theorem c18_bit_flip_rejected : forall bs b, read_batch bs = Ok (b, []) ->
  bytes_ok bs = true -> sint 4 (slice 8 4 bs) = zlen bs - 12 ->
  forall i, (8 * 17 <= i < 8 * length bs)%nat -> exists e, read_batch (flip_bit i bs) = Err e.
Proof. exact read_batch_bit_flip. Qed.
Print Assumptions c18_bit_flip_rejected.

(* any truncation of a batch whose records fill the declared length is rejected *)
Theorem c18_truncation_rejected : forall bs b, read_batch bs = Ok (b, []) ->
  sh_batch_length_matches bs -> records_fill_body bs ->
  forall k, (k < length bs)%nat -> exists e, read_batch (firstn k bs) = Err e.
Proof. exact read_batch_truncated. Qed.
Print Assumptions c18_truncation_rejected.
