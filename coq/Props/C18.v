(* C18 - reading a record batch is faithful and rejects damaged data. *)
From Coq Require Import ZArith List Bool.
From KioV Require Import Base.Res Base.Prog Prim.Bytes Records.Crc Records.Batch Records.CrcProofs Records.BatchProofs.
Import ListNotations.
Open Scope Z_scope.

(* a returned batch carries exactly the header fields at the format's byte offsets, and as many
   records as the count says *)
Theorem c18_fields_as_encoded : forall bs b rest, read_batch bs = Ok (b, rest) ->
  exists h, spec_parse_header bs = Some h /\ b_base_offset b = sh_base_offset h /\ b_batch_length b = sh_batch_length h
    /\ b_partition_leader_epoch b = sh_ple h /\ b_crc b = sh_crc h /\ b_attributes b = sh_attributes h
    /\ b_last_offset_delta b = sh_lod h /\ b_base_timestamp b = sh_base_ts h /\ b_max_timestamp b = sh_max_ts h
    /\ b_producer_id b = sh_pid h /\ b_producer_epoch b = sh_pepoch h /\ b_base_sequence b = sh_bseq h
    /\ zlen (b_records b) = Z.max 0 (sh_count h).
Proof. exact read_batch_fields. Qed.
Print Assumptions c18_fields_as_encoded.

(* wrong magic byte: never returns a batch *)
Theorem c18_magic_checked : forall bs b rest, read_batch bs = Ok (b, rest) -> sint 1 (slice 16 1 bs) = 2.
Proof. exact read_batch_bad_magic. Qed.
(* the checksum is verified over batch_length - 9 bytes from the attributes field *)
Theorem c18_crc_checked : forall bs b rest, read_batch bs = Ok (b, rest) -> b_batch_length b >= 9 ->
  b_crc b = crc32c (slice 21 (Z.to_nat (b_batch_length b - 9)) bs).
Proof. exact read_batch_crc_checked. Qed.
Print Assumptions c18_crc_checked.

(* CRC-32C detects every single-bit error in a message of ANY length *)
Theorem c18_crc_single_bit : forall m i, bytes_ok m = true -> (i < 8 * length m)%nat ->
  crc32c (flip_bit i m) <> crc32c m.
Proof. exact crc32c_single_bit. Qed.
Print Assumptions c18_crc_single_bit.

(* hence: any single-bit flip from the CRC field to the end of an accepted batch is rejected *)
Theorem c18_bit_flip_rejected : forall bs b, read_batch bs = Ok (b, []) ->
  bytes_ok bs = true -> sint 4 (slice 8 4 bs) = zlen bs - 12 ->
  forall i, (8 * 17 <= i < 8 * length bs)%nat -> exists e, read_batch (flip_bit i bs) = Err e.
Proof. exact read_batch_bit_flip. Qed.
Print Assumptions c18_bit_flip_rejected.

(* "any corruption of the checksum or of a checksummed byte" beyond single bits (Records/CorruptionProofs.v): any byte from the
   CRC field to the end replaced by any other value; the stored checksum replaced by any other four bytes; any change
   confined to four consecutive checksummed bytes (CRC-32C detects every burst of at most 32 bits, in a message of any
   length) *)
From KioV Require Import Records.CorruptionProofs.
Theorem c18_byte_change_rejected : forall bs b, read_batch bs = Ok (b, []) ->
  bytes_ok bs = true -> sint 4 (slice 8 4 bs) = zlen bs - 12 ->
  forall i x, (17 <= i < length bs)%nat -> 0 <= x < 256 -> nth i bs 0 <> x ->
  exists e, read_batch (set_byte i x bs) = Err e.
Proof. exact read_batch_byte_change_rejected. Qed.
Print Assumptions c18_byte_change_rejected.

Theorem c18_crc_field_corrupted : forall bs b c', read_batch bs = Ok (b, []) ->
  bytes_ok bs = true -> sint 4 (slice 8 4 bs) = zlen bs - 12 ->
  bytes_ok c' = true -> length c' = 4%nat -> c' <> slice 17 4 bs ->
  exists e, read_batch (firstn 17 bs ++ c' ++ skipn 21 bs) = Err e.
Proof. exact read_batch_crc_field_corrupted. Qed.
Print Assumptions c18_crc_field_corrupted.

Theorem c18_crc_detects_bursts : forall pre w w' post, bytes_ok (pre ++ w ++ post) = true ->
  bytes_ok w' = true -> length w = 4%nat -> length w' = 4%nat -> w <> w' ->
  crc32c (pre ++ w' ++ post) <> crc32c (pre ++ w ++ post).
Proof. exact crc32c_burst4. Qed.
Theorem c18_burst_rejected : forall bs b, read_batch bs = Ok (b, []) ->
  bytes_ok bs = true -> sint 4 (slice 8 4 bs) = zlen bs - 12 ->
  forall i w', (21 <= i)%nat -> (i + 4 <= length bs)%nat ->
  bytes_ok w' = true -> length w' = 4%nat -> w' <> slice i 4 bs ->
  exists e, read_batch (firstn i bs ++ w' ++ skipn (i + 4) bs) = Err e.
Proof. exact read_batch_burst4_rejected. Qed.
Print Assumptions c18_burst_rejected.

(* any truncation of a batch whose records fill the declared length is rejected *)
Theorem c18_truncation_rejected : forall bs b, read_batch bs = Ok (b, []) ->
  sh_batch_length_matches bs -> records_fill_body bs ->
  forall k, (k < length bs)%nat -> exists e, read_batch (firstn k bs) = Err e.
Proof. exact read_batch_truncated. Qed.
Print Assumptions c18_truncation_rejected.

(* ---- "writing the returned batch back reproduces the original bytes" (Records/BatchRoundtrip.v).
   prepared_ok b: the eleven header fields within their widths, every record within range (deltas,
   timestamps Python can hold, lengths below 2^31), batch_length and crc as the format derives them
   from the encoded body - i.e. b is a batch a conforming producer or broker holds.  For EVERY such
   batch, with any bytes following it, kio's reader (as modelled) returns exactly the batch written,
   except that record timestamps come back floored to whole seconds. *)
From KioV Require Import Records.BatchRoundtrip.

Theorem c18_reader_inverts_writer : forall b bs tl,
  prepared_ok b = true -> write_prepared_batch b = Ok bs ->
  read_batch (bs ++ tl) = Ok (floor_seconds b, tl).
Proof. exact read_write_prepared. Qed.
Print Assumptions c18_reader_inverts_writer.

(* for batches whose record timestamps are whole seconds the clause holds in full *)
Theorem c18_rewrite_reproduces_partial : forall b bs, prepared_ok b = true ->
  forallb (fun r => (r_timestamp r mod 1000000 =? 0)%Z) (b_records b) = true ->
  write_prepared_batch b = Ok bs ->
  exists b', read_batch bs = Ok (b', []) /\ write_prepared_batch b' = Ok bs.
Proof. exact rewrite_reproduces. Qed.
Print Assumptions c18_rewrite_reproduces_partial.

(* the FULL clause is false of the faithful model - this is the recorded known finding
   C18-record-timestamp-whole-seconds as a theorem: re-writing what was read reproduces the bytes
   exactly when no record has a millisecond part below the second *)
Theorem c18_rewrite_reproduces_iff : forall b bs,
  prepared_ok b = true -> write_prepared_batch b = Ok bs ->
  (write_prepared_batch (floor_seconds b) = Ok bs <-> existsb subsecond_ms (b_records b) = false).
Proof. exact rewrite_differs_only_by_subsecond. Qed.
Theorem c18_rewrite_reproduces_refuted : forall b bs, prepared_ok b = true ->
  existsb subsecond_ms (b_records b) = true -> write_prepared_batch b = Ok bs ->
  exists b', read_batch bs = Ok (b', []) /\ write_prepared_batch b' <> Ok bs.
Proof. exact rewrite_reproduces_refuted. Qed.
Print Assumptions c18_rewrite_reproduces_refuted.

(* non-vacuity: a concrete two-record batch (one sub-second timestamp) meets prepared_ok *)
Example c18_prepared_nonvacuous : prepared_ok ex_batch = true /\ existsb subsecond_ms (b_records ex_batch) = true.
Proof. vm_compute. split; reflexivity. Qed.
