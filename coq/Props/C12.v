(* C12 - primitive value types denote exactly their wire domains (model: Types/Phantom.v; the
   interval bounds it is instantiated with are the translated ones: inst/InstC12.v). *)
From Coq Require Import ZArith List Bool.
From KioV Require Import Base.Res Base.Prog Prim.Bytes Prim.Time Codec.Value Codec.PrimCodec Types.Phantom Types.PhantomProofs.
Import ListNotations.
Open Scope Z_scope.

(* the constructor returns a member unchanged and rejects everything else with TypeError *)
Theorem c12_constructor : forall t v, call t v = if isinstance t v then Ok v else Err EType.
Proof. exact call_spec. Qed.
Print Assumptions c12_constructor.

(* integer types nest by range, for every Python value *)
Theorem c12_nesting : forall lo1 hi1 lo2 hi2 v, lo2 <= lo1 -> hi1 <= hi2 ->
  isinstance (TInterval lo1 hi1) v = true -> isinstance (TInterval lo2 hi2) v = true.
Proof. exact interval_nesting. Qed.
Theorem c12_i8_i16_i32_i64 : forall v,
  (isinstance (TInterval (-2^7) (2^7-1)) v = true -> isinstance (TInterval (-2^15) (2^15-1)) v = true) /\
  (isinstance (TInterval (-2^15) (2^15-1)) v = true -> isinstance (TInterval (-2^31) (2^31-1)) v = true) /\
  (isinstance (TInterval (-2^31) (2^31-1)) v = true -> isinstance (TInterval (-2^63) (2^63-1)) v = true).
Proof. exact i8_i16_i32_i64. Qed.
Print Assumptions c12_nesting.

(* membership of a fixed-width integer type <-> the writer accepts it; then it reads back *)
Theorem c12_int_member_iff_writable : forall w s z, (0 < w)%nat ->
  (isinstance (TInterval (int_lo w s) (int_hi w s)) (PyInt z) = true <-> exists bs, write_int w s z = Ok bs).
Proof. exact int_member_iff_writable. Qed.
Theorem c12_int_member_reads_back : forall w s z bs tl, (0 < w)%nat ->
  isinstance (TInterval (int_lo w s) (int_hi w s)) (PyInt z) = true -> write_int w s z = Ok bs ->
  run (read_int w s) (bs ++ tl) = Ok (z, tl).
Proof. exact int_member_roundtrip. Qed.
Print Assumptions c12_int_member_iff_writable.

(* floats, durations (rounded half-even to whole milliseconds), timestamps *)
Theorem c12_f64 : forall ec bits tl, 0 <= bits < 2^64 -> isinstance TF64 (PyFloat bits) = true ->
  exists bs, enc_prim PF64 (VF64 bits) = Ok bs /\ run (dec_prim ec PF64) (bs ++ tl) = Ok (VF64 bits, tl).
Proof. exact f64_member_roundtrip. Qed.
Theorem c12_td32 : forall ec us tl, isinstance TTd32 (PyTimedelta us) = true ->
  exists bs, enc_prim PTd32 (VDur us) = Ok bs /\
             run (dec_prim ec PTd32) (bs ++ tl) = Ok (VDur (round_half_even_1000 us * 1000), tl).
Proof. exact td32_member_roundtrip. Qed.
Theorem c12_td64 : forall ec us tl, isinstance TTd64 (PyTimedelta us) = true ->
  exists bs, enc_prim PTd64 (VDur us) = Ok bs /\
             run (dec_prim ec PTd64) (bs ++ tl) = Ok (VDur (round_half_even_1000 us * 1000), tl).
Proof. exact td64_member_roundtrip. Qed.
Theorem c12_timestamp : forall ec us tl n, isinstance TTzAware (PyDatetime true us) = true -> us <= dt_max_us ->
  exists bs, enc_prim (PDt n) (VTime us) = Ok bs /\ run (dec_prim ec (PDt n)) (bs ++ tl) = Ok (VTime us, tl).
Proof. exact tz_member_roundtrip. Qed.
Print Assumptions c12_td64.
Print Assumptions c12_timestamp.

(* The hypothesis us <= dt_max_us cannot be dropped: the clause "every member of the timestamp type reads
   back equal" is FALSE of the faithful model (and of kio: recorded known finding
   C12-timestamp-beyond-utc-max).  An aware datetime in a zone with a negative offset in the last hours
   of year 9999 is a member, is written, and the reader - which builds UTC datetimes - fails. *)
Theorem c12_timestamp_roundtrip_refuted : exists us,
  isinstance TTzAware (PyDatetime true us) = true /\
  exists bs, enc_prim (PDt false) (VTime us) = Ok bs /\ exists e, run (dec_prim [] (PDt false)) bs = Err e.
Proof.
  exists (dt_max_us - 999 + 5 * 3600 * 1000000). split; [vm_compute; reflexivity|].
  eexists. split; [vm_compute; reflexivity|]. eexists. vm_compute. reflexivity.
Qed.
Print Assumptions c12_timestamp_roundtrip_refuted.

Example c12_rejects : isinstance (TInterval 0 255) (PyFloat 0) = false /\ isinstance TF64 (PyInt 1) = false
  /\ isinstance TTzAware (PyDatetime false 0) = false /\ isinstance TTzAware (PyDatetime true 1500) = false
  /\ call (TInterval (-128) 127) (PyInt 128) = Err EType /\ isinstance (TInterval 0 255) (PyBool true) = true.
Proof. vm_compute. repeat split; reflexivity. Qed.
