From Coq Require Import ZArith List Bool.
From KioV Require Import Types.Phantom.
