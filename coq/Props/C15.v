(* C15 - entities are immutable, hashable value objects.  The instance theorem (inst/InstC15.v)
   states, for every class of the schema package and the record classes, frozen + slots + eq,
   no order, no instance dictionary, slots = fields and deeply immutable field types.  What a
   frozen slotted dataclass then DOES is CPython behaviour: it is modelled by the abstract
   machine of Obj/Dataclass.v (theorems below) and compared with the real objects by the
   correspondence (partial: not derived from CPython's dataclass implementation). *)
From Coq Require Import ZArith List Bool.
From KioV Require Import Base.Res Codec.Value Obj.Dataclass Obj.DataclassProofs.
Import ListNotations.

Theorem c15_equal_iff_all_fields_equal : forall a b, inst_eqb a b = true <-> a = b.
Proof. exact inst_eqb_eq. Qed.
Theorem c15_hash_consistent : forall (H : nat -> list value -> Z) a b,
  inst_eqb a b = true -> hash_inst H a = hash_inst H b.
Proof. exact eq_hash. Qed.
Theorem c15_no_operation_changes_an_instance : forall ops x, fold_left (fun s o => fst (step s o)) ops x = x.
Proof. exact ops_leave_instance_unchanged. Qed.
Theorem c15_copies_equal : forall x o y, (o = Copy \/ o = DeepCopy \/ o = Pickle) ->
  snd (step x o) = Produced y -> inst_eqb x y = true.
Proof. exact copies_are_equal. Qed.
Print Assumptions c15_equal_iff_all_fields_equal.
Print Assumptions c15_hash_consistent.
Print Assumptions c15_no_operation_changes_an_instance.
Print Assumptions c15_copies_equal.
