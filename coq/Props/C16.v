(* C16 - the generator translates any well-formed message definition faithfully.  Theorems over
   the Gallina model of the generator (Gen/Gen.v), for EVERY definition and version: the module's
   top-level class comes last and its fields are exactly the definition's fields valid at that
   version, in order, snake-cased, tagged exactly when the version lies in taggedVersions; every
   class of the module carries the version, the version's flexibility, the API key and the Kafka
   header rule; class names are pairwise distinct (for definitions without self-nesting).  The
   model is tied to codegen/ by the correspondence on seeded random definitions, and to the wire
   by def_wf / the codec theorems (checked per generated module). *)
From Coq Require Import ZArith List Bool String.
From KioV Require Import Base.Res Schema.Strings Gen.Gen Gen.GenProofs.
Import ListNotations.
Open Scope string_scope.

Theorem c16_fields_are_the_valid_fields : forall builtins d v flex fuel name top fields seen l,
  gen_class builtins d v flex fuel name top fields seen = Ok l ->
  str_mem name (class_names seen) = false ->
  exists mid fs, l = (seen ++ mid ++ [mk_class d v flex name top fs])%list /\
                 Forall2 (field_of builtins (map ds_name (d_common d)) v)
                         (filter (valid_at (map ds_name (d_common d)) v) fields) fs.
Proof. exact gen_class_fields. Qed.
Print Assumptions c16_fields_are_the_valid_fields.

Theorem c16_tag_iff_tagged_version : forall f v t, get_tag f v = Some t <->
  (exists r, nf_tagged f = Some r /\ vmatches r v = true /\ nf_tag f = Some t).
Proof. exact get_tag_spec. Qed.

Theorem c16_module_class_vars : forall builtins d v l flexr,
  parse_vrange (d_flexible d) = Ok flexr -> gen_module builtins d v = Ok l ->
  Forall (carries d v (vmatches flexr v)) l /\
  exists mid fs, l = (mid ++ [mk_class d v (vmatches flexr v) (d_name d) true fs])%list.
Proof. exact gen_module_carries. Qed.
Print Assumptions c16_module_class_vars.

Theorem c16_one_class_per_structure : forall builtins d v l,
  gen_module builtins d v = Ok l ->
  no_self_nesting d v (gen_fuel d + 2) [d_name d] (d_fields d) = true ->
  NoDup (class_names l).
Proof. exact gen_module_names_nodup. Qed.
Print Assumptions c16_one_class_per_structure.

Theorem c16_version_ranges : forall lo hi v,
  (vmatches (VR lo (Some hi)) v = true <-> (lo <= v <= hi)%Z) /\ (vmatches (VR lo None) v = true <-> (lo <= v)%Z)
  /\ vmatches VNone v = false.
Proof. intros. split; [apply vmatches_closed|split; [apply vmatches_open|apply vmatches_none]]. Qed.

Theorem c16_header_rule : forall d v flex,
  (d_kind d = "request" -> header_of d v flex = Some (if (Z.eqb v 0 && match d_api_key d with Some 7%Z => true | _ => false end)%bool then "kio.schema.request_header.v0.header" else if flex then "kio.schema.request_header.v2.header" else "kio.schema.request_header.v1.header")) /\
  (d_kind d = "response" -> header_of d v flex = Some (if match d_api_key d with Some 18%Z => true | _ => false end then "kio.schema.response_header.v0.header" else if flex then "kio.schema.response_header.v1.header" else "kio.schema.response_header.v0.header")) /\
  (d_kind d <> "request" -> d_kind d <> "response" -> header_of d v flex = None).
Proof. exact header_rule. Qed.
Print Assumptions c16_header_rule.
