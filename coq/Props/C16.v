(* C16 - the generator translates any well-formed message definition faithfully.  Theorems over
   the Gallina model of the generator (Gen/Gen.v), for EVERY definition and version: the module's
   top-level class comes last and its fields are exactly the definition's fields valid at that
   version, in order, snake-cased, tagged exactly when the version lies in taggedVersions; every
   class of the module carries the version, the version's flexibility, the API key and the Kafka
   header rule; class names are pairwise distinct (for definitions without self-nesting).  The
   model is tied to codegen/ by the correspondence on seeded random definitions, and to the wire
   by def_wf / the codec theorems (checked per generated module). *)
From Coq Require Import ZArith List Bool String.
From KioV Require Import Base.Res Schema.Strings Gen.Gen Gen.GenProofs.
Import ListNotations.
Open Scope string_scope.

Theorem c16_fields_are_the_valid_fields : forall builtins d v flex fuel name top fields seen l,
  gen_class builtins d v flex fuel name top fields seen = Ok l ->
  str_mem name (class_names seen) = false ->
  exists mid fs, l = (seen ++ mid ++ [mk_class d v flex name top fs])%list /\
                 Forall2 (field_of builtins (map ds_name (d_common d)) v)
                         (filter (valid_at (map ds_name (d_common d)) v) fields) fs.
Proof. exact gen_class_fields. Qed.
Print Assumptions c16_fields_are_the_valid_fields.

Theorem c16_tag_iff_tagged_version : forall f v t, get_tag f v = Some t <->
  (exists r, nf_tagged f = Some r /\ vmatches r v = true /\ nf_tag f = Some t).
Proof. exact get_tag_spec. Qed.

Theorem c16_module_class_vars : forall builtins d v l flexr,
  parse_vrange (d_flexible d) = Ok flexr -> gen_module builtins d v = Ok l ->
  Forall (carries d v (vmatches flexr v)) l /\
  exists mid fs, l = (mid ++ [mk_class d v (vmatches flexr v) (d_name d) true fs])%list.
Proof. exact gen_module_carries. Qed.
Print Assumptions c16_module_class_vars.

Theorem c16_one_class_per_structure : forall builtins d v l,
  gen_module builtins d v = Ok l ->
  no_self_nesting d v (gen_fuel d + 2) [d_name d] (d_fields d) = true ->
  NoDup (class_names l).
Proof. exact gen_module_names_nodup. Qed.
Print Assumptions c16_one_class_per_structure.

Theorem c16_version_ranges : forall lo hi v,
  (vmatches (VR lo (Some hi)) v = true <-> (lo <= v <= hi)%Z) /\ (vmatches (VR lo None) v = true <-> (lo <= v)%Z)
  /\ vmatches VNone v = false.
Proof. intros. split; [apply vmatches_closed|split; [apply vmatches_open|apply vmatches_none]]. Qed.

Theorem c16_header_rule : forall d v flex,
  (d_kind d = "request" -> header_of d v flex = Some (if (Z.eqb v 0 && match d_api_key d with Some 7%Z => true | _ => false end)%bool then "kio.schema.request_header.v0.header" else if flex then "kio.schema.request_header.v2.header" else "kio.schema.request_header.v1.header")) /\
  (d_kind d = "response" -> header_of d v flex = Some (if match d_api_key d with Some 18%Z => true | _ => false end then "kio.schema.response_header.v0.header" else if flex then "kio.schema.response_header.v1.header" else "kio.schema.response_header.v0.header")) /\
  (d_kind d <> "request" -> d_kind d <> "response" -> header_of d v flex = None).
Proof. exact header_rule. Qed.
Print Assumptions c16_header_rule.

(* ---- the wire clause: "instances of the generated classes encode to the bytes an independent
   reading of the definition prescribes".  Gen/GenPlan.v reads the codec plans directly off the
   generator model's output for (definition, version); whenever those plans are well formed
   (def_wf, a boolean evaluated for every generated module by the check) the encoder over them
   IS the wire specification, and its output decodes back, for every class of the module and every
   typed value - for every definition and version, not only the sampled ones. *)
From KioV Require Import Base.Prog Codec.Value Codec.Reader Codec.Writer Schema.Introspect Codec.Typed
  Codec.WireSpec Codec.WireSpecProofs Codec.RoundtripProofs Gen.GenPlan.

Theorem c16_generated_module_encodes_to_spec : forall builtins d v ps (ec : list Z),
  def_plans builtins d v = Some ps -> def_wf builtins d v = true ->
  forall i x, typed ps ec i x = true ->
  encode (map writer_plan ps) i x = spec_enc ps i (plain x).
Proof.
  intros builtins d v ps ec Hp Hwf i x Ht. unfold def_wf in Hwf. rewrite Hp in Hwf.
  exact (encode_is_spec ps ec Hwf i x Ht).
Qed.
Print Assumptions c16_generated_module_encodes_to_spec.

Theorem c16_generated_module_roundtrips : forall builtins d v ps (ec : list Z),
  def_plans builtins d v = Some ps -> def_wf builtins d v = true ->
  forall i x bs tl, typed ps ec i x = true ->
  encode (map writer_plan ps) i x = Ok bs ->
  decode (map reader_plan ps) ec i (bs ++ tl) = Ok (x, tl).
Proof.
  intros builtins d v ps ec Hp Hwf i x bs tl Ht He. unfold def_wf in Hwf. rewrite Hp in Hwf.
  exact (decode_encode ps ec Hwf i x bs tl Ht He).
Qed.
Print Assumptions c16_generated_module_roundtrips.

(* ---- well-formedness of the plans is itself a THEOREM for definitions satisfying a boolean,
   syntactic condition (Gen/GenWf.v, Gen/GenWfProofs.v):  module_ok on generated classes (tags in
   range / unique / only on flexible classes, references to earlier classes, known Kafka types,
   derivable defaults for tagged fields, no tagged float64, non-empty array items);  defn_ok on the
   definition's own fields valid at the version (plus "the generator succeeds", without which
   def_wf is false by definition).  The check evaluates defn_ok on every generated definition and
   version and reports how many are covered by the theorem; the exactness Examples in
   GenWfProofs.v show defn_ok = def_wf on 4032 enumerated definitions. *)
From KioV Require Import Gen.GenWf Gen.GenWfProofs.

Theorem c16_module_ok_plans_well_formed : forall m ps,
  module_ok m = true -> plans_of_module m = Some ps -> wf_env ps = true.
Proof. exact module_ok_wf. Qed.
Print Assumptions c16_module_ok_plans_well_formed.

Theorem c16_every_class_has_a_plan : forall m, module_ok m = true ->
  exists ps, plans_of_module m = Some ps /\ Forall2 (fun c p => plan_of_gclass m c = Some p) m ps.
Proof. exact module_ok_plans. Qed.

Theorem c16_supported_definitions_are_well_formed : forall builtins d v,
  defn_ok builtins d v = true -> def_wf builtins d v = true.
Proof. exact defn_ok_wf. Qed.
Print Assumptions c16_supported_definitions_are_well_formed.

(* end to end, for every supported definition and version: the generated module's classes encode
   to the wire specification and decode back *)
Theorem c16_supported_definitions_encode_to_spec : forall builtins d v (ec : list Z),
  defn_ok builtins d v = true ->
  exists ps, def_plans builtins d v = Some ps /\
    forall i x, typed ps ec i x = true ->
      encode (map writer_plan ps) i x = spec_enc ps i (plain x) /\
      forall bs tl, encode (map writer_plan ps) i x = Ok bs ->
                    decode (map reader_plan ps) ec i (bs ++ tl) = Ok (x, tl).
Proof.
  intros builtins d v ec Hok. pose proof (defn_ok_wf builtins d v Hok) as Hwf.
  unfold def_wf in Hwf. destruct (def_plans builtins d v) as [ps|] eqn:Hp; [|discriminate].
  exists ps. split; [reflexivity|]. intros i x Ht. split.
  - exact (encode_is_spec ps ec Hwf i x Ht).
  - intros bs tl He. exact (decode_encode ps ec Hwf i x bs tl Ht He).
Qed.
Print Assumptions c16_supported_definitions_encode_to_spec.
