From Coq Require Import ZArith List Bool.
From KioV Require Import Schema.Raw Schema.Coherence.
