(* C13 - every entity is self-describing and coherent.  Per-tree instance theorem:
   inst/InstC13.v (c13_ok shipped n = true over all 1629 classes / 5094 fields).  Here: what it
   gives - a reader plan and a writer plan exist for every class, derived from the description
   alone by the Gallina rendering of kio's introspection, and the environment of plans is
   well-formed, which is the hypothesis of the codec theorems C01-C07, C10. *)
From Coq Require Import ZArith List Bool String Lia.
From KioV Require Import Base.Res Codec.Value Codec.Reader Codec.Writer Schema.Raw Schema.Introspect Codec.Typed
  Schema.Coherence Codec.RoundtripProofs.
Import ListNotations.

Lemma all_ok_nth {A} (l : list (res A)) : all_ok l = true ->
  forall i, (i < List.length l)%nat -> exists a, nth_error l i = Some (Ok a).
Proof.
  unfold all_ok. intros H i Hi. destruct (nth_error l i) as [r|] eqn:E.
  - rewrite forallb_forall in H. specialize (H r (nth_error_In _ _ E)). destruct r as [a|e]; [exists a; reflexivity|discriminate].
  - apply nth_error_None in E. lia.
Qed.

Theorem c13_reader_and_writer_derivable : forall s n, c13_ok s n = true ->
  forall i, (i < List.length (firstn n (derive_all s)))%nat ->
  exists plan, nth_error (firstn n (derive_all s)) i = Some (Ok plan).
Proof.
  intros s n H i Hi. unfold c13_ok in H. apply andb_true_iff in H. destruct H as [_ H].
  unfold derivable in H. apply andb_true_iff in H. destruct H as [H _]. apply all_ok_nth; assumption.
Qed.
Print Assumptions c13_reader_and_writer_derivable.

Theorem c13_plans_well_formed : forall s n, c13_ok s n = true ->
  wf_env (firstn n (oks empty_plan2 (derive_all s))) = true.
Proof.
  intros s n H. unfold c13_ok in H. apply andb_true_iff in H. destruct H as [_ H].
  unfold derivable in H. apply andb_true_iff in H. destruct H as [_ H]. exact H.
Qed.
Print Assumptions c13_plans_well_formed.

(* hence, for the schema it was evaluated on, encode-then-decode is the identity (C01) *)
Theorem c13_then_roundtrip : forall s n ec, c13_ok s n = true ->
  let E := firstn n (oks empty_plan2 (derive_all s)) in
  forall i v bs tl, typed E ec i v = true -> encode (map writer_plan E) i v = Ok bs ->
  decode (map reader_plan E) ec i (bs ++ tl)%list = Ok (v, tl).
Proof. intros s n ec H E. apply decode_encode. apply c13_plans_well_formed. exact H. Qed.
Print Assumptions c13_then_roundtrip.
